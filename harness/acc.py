"""Scaffold IP accessory for simnet.

It performs a real pair-verify with `cryptography` (through harness.refacc, nothing from aiohomekit), speaks the
secure framing in both directions, and is scripted per connection.  It is scaffolding to reach the states of
interest with the *unpatched* controller code; the protocol oracle stays the Lean spec of C01/C05.

per-connection verify modes:
  ok | wrongid | badsig | err<step><code> | close<step> | reset<step> | http470 | hang | exc | oksubdrop
  (`oksubdrop` completes pair-verify and then closes the connection at the first request of the new session)
  (`exc` answers M1 with a body that makes the controller's generator raise a non-HomeKit exception)
"""
from __future__ import annotations

import json
import struct

from cryptography.hazmat.primitives.ciphers.aead import ChaCha20Poly1305

from .refacc import Identity, VerifyAccessory, tlv, untlv


def http(body, ctype=b"application/pairing+tlv8", code=b"200 OK", kind=b"HTTP/1.1"):
    return kind + b" " + code + b"\r\nContent-Type: " + ctype + b"\r\nContent-Length: %d\r\n\r\n" % len(body) + body


class Session:
    def __init__(self, idx, mode, t):
        self.idx = idx
        self.mode = mode
        self.t = t
        self.buf = b""
        self.ebuf = b""
        self.secure = False
        self.rctr = 0
        self.wctr = 0
        self.step = 0
        self.va = None
        self.c2a = self.a2c = None
        self.requests = []  # (method, target, body) in arrival order
        self.subs = set()
        self.sub_log = []  # every ev registration request: (aid, iid, ev)


class Accessory:
    def __init__(self, loop, net, rb, accessories=None):
        self.loop = loop
        self.net = net
        self.rb = rb
        self.ident = Identity(rb)
        self.verify_mode = []
        self.sessions = {}  # transport -> Session
        self.order = []  # sessions in connection order
        self.accessories = accessories if accessories is not None else []
        self.auto = True  # answer non-verify requests automatically
        self.responder = None  # optional fn(session, method, target, body) -> bytes | None (None = no reply)
        net.on_connect = self.on_connect
        net.handler = self.on_write

    def pairing_data(self, hosts, port=80):
        return self.ident.pairing_data(tuple(hosts), port)

    # ---- network side
    def on_connect(self, t):
        mode = self.verify_mode.pop(0) if self.verify_mode else "ok"
        s = Session(len(self.order), mode, t)
        self.sessions[t] = s
        self.order.append(s)

    def on_write(self, t, data):
        s = self.sessions[t]
        if s.secure:
            s.ebuf += data
            while len(s.ebuf) >= 2:
                n = struct.unpack("<H", s.ebuf[:2])[0]
                if len(s.ebuf) < 2 + n + 16:
                    break
                blk = s.ebuf[2:2 + n + 16]
                aad = s.ebuf[:2]
                s.ebuf = s.ebuf[2 + n + 16:]
                s.buf += ChaCha20Poly1305(s.c2a).decrypt(struct.pack("<LQ", 0, s.rctr), blk, aad)
                s.rctr += 1
        else:
            s.buf += data
        while True:
            req = self._take_request(s)
            if req is None:
                break
            self.loop.call_soon(self._handle, t, *req)

    @staticmethod
    def _take_request(s):
        b = s.buf
        i = b.find(b"\r\n\r\n")
        if i < 0:
            return None
        head = b[:i].split(b"\r\n")
        method, target, _ = head[0].split(b" ", 2)
        cl = 0
        for h in head[1:]:
            if h.lower().startswith(b"content-length:"):
                cl = int(h.split(b":")[1])
        if len(b) < i + 4 + cl:
            return None
        body = b[i + 4:i + 4 + cl]
        s.buf = b[i + 4 + cl:]
        return method.decode(), target.decode(), body

    def frame(self, s, data):
        if not s.secure:
            return data
        out = b""
        for i in range(0, len(data), 1024):
            blk = data[i:i + 1024]
            ln = struct.pack("<H", len(blk))
            out += ln + ChaCha20Poly1305(s.a2c).encrypt(struct.pack("<LQ", 0, s.wctr), blk, ln)
            s.wctr += 1
        return out

    def send(self, t, data, cuts=()):
        """deliver bytes to the controller, split at the given offsets of the (framed) stream"""
        s = self.sessions[t]
        if t.closing:
            return
        data = self.frame(s, data)
        prev = 0
        for c in sorted(set(c for c in cuts if 0 < c < len(data))):
            t.feed(data[prev:c])
            prev = c
        t.feed(data[prev:])

    def _handle(self, t, method, target, body):
        s = self.sessions[t]
        s.requests.append((method, target, body))
        if t.closing:
            return
        if target == "/pair-verify":
            return self._verify(t, s, body)
        if self.responder is not None:
            r = self.responder(s, method, target, body)
            if r is not None:
                self.send(t, r)
            return
        if not self.auto:
            return
        if target == "/characteristics" and method == "PUT":
            if s.mode == "oksubdrop" and sum(1 for r in s.requests if r[1] != "/pair-verify") == 1:
                # the accessory accepted the session but drops the connection at the first request on it
                return t.peer_close()
            d = json.loads(body)
            for c in d["characteristics"]:
                if "ev" in c:
                    s.sub_log.append((c["aid"], c["iid"], bool(c["ev"])))
                    (s.subs.add if c["ev"] else s.subs.discard)((c["aid"], c["iid"]))
            return self.send(t, b"HTTP/1.1 204 No Content\r\n\r\n")
        if target.startswith("/accessories"):
            return self.send(t, http(json.dumps({"accessories": self.accessories}).encode(), b"application/hap+json"))
        self.send(t, http(b"{}", b"application/hap+json"))

    def _verify(self, t, s, body):
        m = untlv(body)
        mode = s.mode
        s.step += 1
        if mode == "hang":
            return
        if mode == f"close{s.step}":
            return t.peer_close()
        if mode == f"reset{s.step}":
            return t.peer_reset()  # abortive: connection_lost(ConnectionResetError) without an EOF before it
        if mode == "http470" and s.step == 1:
            return self.send(t, http(b"", code=b"470 Connection Authorization Required"))
        if mode.startswith("err") and s.step == int(mode[3]):
            return self.send(t, http(tlv([(6, bytes([2 * s.step])), (7, bytes([int(mode[4:])]))])))
        if mode == "exc" and s.step == 1:
            # a public key of the wrong length: X25519PublicKey.from_public_bytes raises ValueError
            return self.send(t, http(tlv([(6, b"\x02"), (3, b"\x01\x02\x03"), (5, b"\x00" * 32)])))
        if m.get(6) == b"\x01":
            s.va = VerifyAccessory(self.ident, self.rb(32))
            if mode == "wrongid":
                items = s.va.m2(m[3], pid=b"99:99:99:99:99:99")
            elif mode == "badsig":
                items = s.va.m2(m[3], permute=True)
            else:
                items = s.va.m2(m[3])
            return self.send(t, http(tlv(items)))
        if m.get(6) == b"\x03":
            ok = s.va.check_m3(list(m.items()))
            if not ok:
                return self.send(t, http(tlv([(6, b"\x04"), (7, b"\x02")])))
            self.send(t, http(tlv([(6, b"\x04")])))
            s.c2a, s.a2c, _ = s.va.keys()
            s.secure = True

    def event(self, t, chars, cuts=()):
        body = json.dumps({"characteristics": chars}).encode()
        self.send(t, http(body, b"application/hap+json", kind=b"EVENT/1.0"), cuts)

    def raw_event(self, t, body, cuts=()):
        self.send(t, http(body, b"application/hap+json", kind=b"EVENT/1.0"), cuts)

    def open_sessions(self):
        return [self.sessions[t] for t in self.net.open if t in self.sessions]
