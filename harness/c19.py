"""C19 - device waiters are woken by advertisements; advertisement parsing is robust."""
from __future__ import annotations

import asyncio
import contextlib
import ipaddress
import itertools
import math
import struct
from unittest import mock
from unittest.mock import MagicMock

try:
    import bleak  # noqa: F401
except Exception:  # noqa: BLE001
    pass

from harness import simnet
from harness.common import Ctx, Driver, compare_with_model, hx

from aiohomekit.characteristic_cache import CharacteristicCacheMemory
from aiohomekit.controller import Controller
from aiohomekit.controller.abstract import TransportType
from aiohomekit.controller.ble.controller import BleController
from aiohomekit.controller.ble.manufacturer_data import HomeKitAdvertisement
from aiohomekit.controller.ip.controller import IpController
from aiohomekit.exceptions import AccessoryNotFoundError
from aiohomekit.model import Accessories
from aiohomekit.model.characteristics import CharacteristicsTypes
from aiohomekit.model.services import ServicesTypes
from aiohomekit.zeroconf import HomeKitService

ID = "C19"
RULE = ("schedules over {waiter k starts with timeout t_k, advertisement for id x processed, waiter cancelled, clock advances} with 1..3 waiters and 1..2 ids, EXHAUSTIVE to depth 5 (quick) / 6 "
        "(thorough) on the mDNS controller, the BLE controller and the aggregate controller (virtual time), with no pairing / pairing with cached state / pairing without cached state loaded; "
        "TXT/address/manufacturer-data contents: every truncation of valid ones, random fields, upper/lower-case keys and ids, malformed numbers; "
        "HISTORIES with composite events on the IP, CoAP, BLE and aggregate controllers: 2-3 of {cancel waiter k, timeout of waiter k fires, advertisement for id x, new waiter} issued 0..4 event-loop "
        "iterations apart (0 = back-to-back, also inside the very loop iteration of a timeout, right after / right before the timer callback), every ordered pair x every gap and sampled triples, plus "
        "random ones, with the pairing-loaded dimension generalised: an IP / CoAP / BLE pairing loaded through the controller's own load_pairing before the first advertisement (no previous "
        "description: the state after a restart), between waiter and advertisement, or after it; characteristic cache with c# below / equal / above the advertised one, with / without cached state "
        "number and broadcast key, either id casing; later advertisements with the same / changed c#, s#, address, port, name, on the same or another transport; records as duck-typed stand-ins or "
        "zeroconf's own AsyncServiceInfo, bleak's own BLEDevice/AdvertisementData - tie-free histories are also run through the waiter automaton, histories with a tie (caller cancels / timer fires "
        "in the loop iterations before an outcome has reached the caller; the automaton cannot express that) are judged by the implementation-level oracle only (callback never raises, every "
        "waiter pending when a valid advertisement for its id is processed is completed with that discovery, cancelled / timed-out ones keep their own outcome, the discovery is recorded with the "
        "advertised numbers); RESTART scenarios through zeroconf's own record cache, browser handler and async_start (records cached before the start or announced later, cache hit / miss at the "
        "end of the debounce, pairing loaded before / after the start, update with changed c# / s# / address / port); CACHE-DRIVEN STARTS (async_start / async with / the aggregate's own async_start on "
        "the IP, CoAP and aggregate controllers) over a zeroconf record cache that already holds 1..4 services whose PTR, SRV, TXT and address records are aged INDEPENDENTLY on zeroconf's own clock: "
        "age 0, 1 s, 25 %, just below / at / just above half the TTL, 60-90 %, seconds before expiry, at / past expiry, long expired, absent; standard TTLs (75 min / 120 s) and odd ones; whole responses "
        "received at one instant; the cache reaper run or not; accessories that answer a query or stay silent; malformed and foreign-type services next to valid ones; waiters (async_find / "
        "async_reachable, either id casing) registered before or after the start; afterwards records refreshed unchanged (no browser event, by zeroconf's own rule), changed c# / s# / endpoint, "
        "reaper runs and late waiters - judged from the harness's own book of what is validly advertised (a record is valid until its TTL has expired). "
        "non-trivial = distinct (controller, schedule) / input / history")
TRUSTED = ["zeroconf's AsyncServiceInfo accessors (duck-typed) and their IPv4-first ordering", "asyncio timers fire at their deadline under the virtual clock",
           "histories / restart: the network and the radio refuse every connection attempt of a loaded pairing (aiohappyeyeballs.start_connection, aiocoap Context creation, bleak establish_connection are the mocked boundary)",
           "cache-start: zeroconf's DNSCache, DNSRecord expiry arithmetic and AsyncServiceInfo.load_from_cache are the real ones; the service browser is a stand-in that fires Added / Updated / Removed by "
           "zeroconf's own rules (PTR new to the cache -> Added, other record new to the cache -> Updated, expired PTR reaped -> Removed, a refresh of a cached record -> nothing), a query is answered after 0.1 s by an "
           "accessory that is on line; BleakScanner is a stand-in (the radio)"]
ASSUMPTIONS = ["one model event = one harness action followed by running the loop to quiescence at that virtual time",
               "TXT numbers are plain decimal digit strings or non-numeric garbage (Python int()'s tolerance of sign/space/underscore is outside the model's domain)",
               "histories: an outcome has reached the caller 10 loop iterations after it was decided; a cancel the caller issues inside that window, or the timeout timer firing in the very loop "
               "iteration in which the advertisement was processed just before it, may replace the outcome (asyncio semantics) - for that waiter both outcomes are accepted, nothing else is relaxed",
               "cache-start: record ages are on zeroconf's own monotonic clock, which the virtual loop clock does not advance (the few virtual seconds of a case do not age a record); a record whose "
               "expiry falls inside the 3 s of real time a case may take is neither valid nor expired for the oracle (either outcome accepted for its id); a superseded unique record leaves the cache at once "
               "(zeroconf: within 1 s)"]
EXPLANATION = "Lean theorems C19_* over the waiter automaton (woken, timeout, cancel, frame/order independence) and the two parsers; differential tie through IpController / BleController / Controller.async_find under virtual time"

IDS = {7: "AA:BB:CC:DD:EE:07", 8: "aa:bb:cc:dd:ee:08"}


class FakeInfo:
    def __init__(self, name, addrs, props, port=80, type_="_hap._tcp.local."):
        self.name = name + "." + type_
        self.type = type_
        self.port = port
        self._addrs = addrs
        self.decoded_properties = props

    def ip_addresses_by_version(self, v):
        return [ipaddress.ip_address(a) for a in self._addrs]


def mdns_info(did, upper_keys=False):
    props = {"id": did, "c#": "3", "s#": "1", "sf": "0", "ff": "0", "ci": "5", "md": "m"}
    if upper_keys:
        props = {k.upper(): v for k, v in props.items()}
    return FakeInfo("dev" + did[-2:], ["10.0.0.5"], props)


def ble_adv(did, gsn=1, cn=1, name="dev"):
    idb = bytes.fromhex(did.replace(":", ""))
    data = bytes([0x06, 0x31, 0x00]) + idb + struct.pack("<HHBB", 5, gsn, cn, 2) + b"\x01\x02\x03\x04"
    a = MagicMock()
    a.manufacturer_data = {76: data}
    a.rssi = -50
    d = MagicMock()
    d.name = name
    d.address = did.upper()
    return d, a


def cache_with(did):
    accs = Accessories.from_list([{"aid": 1, "services": [{"iid": 1000, "type": ServicesTypes.LIGHTBULB, "characteristics": [
        {"iid": 11, "type": CharacteristicsTypes.ON, "perms": ["pr", "pw", "ev"], "format": "bool", "value": False}]}]}])
    cache = CharacteristicCacheMemory()
    cache.async_create_or_update_map(did, 1, accs.serialize(), bytes(range(32)).hex(), 1)
    return cache


async def run_schedule(loop, kind, evs, pairing_state="none"):
    """evs: ('S', k, id, timeout_ms) | ('A', id) | ('C', k) | ('T', t_ms). Returns {k: outcome}, list of callback exceptions"""
    t0 = loop.time()
    errors = []
    tasks = {}
    if kind == "mdns":
        ctl = IpController(char_cache=CharacteristicCacheMemory(), zeroconf_instance=MagicMock())
        finder = ctl.async_find
    elif kind == "ble":
        cache = CharacteristicCacheMemory()
        if pairing_state == "cached":
            cache = cache_with(IDS[7])
        ctl = BleController(cache)
        if pairing_state != "none":
            ctl.load_pairing("alias", {"AccessoryPairingID": IDS[7], "AccessoryAddress": IDS[7], "Connection": "BLE", "iOSPairingId": "x", "iOSDeviceLTPK": "00" * 32})
        finder = ctl.async_find
    else:
        top = Controller(async_zeroconf_instance=MagicMock(), char_cache=CharacteristicCacheMemory())
        ipc_ = IpController(char_cache=top._char_cache, zeroconf_instance=MagicMock())
        blc = BleController(top._char_cache)
        top.transports[TransportType.IP] = ipc_
        top.transports[TransportType.BLE] = blc
        if pairing_state in ("ble-paired", "ip-paired"):
            # a pairing for the accessory most schedules wait for is loaded on ONE transport; advertisements keep arriving
            # on both (a Thread/BLE accessory that also shows up on the network, an IP accessory that also beacons)
            data = {"AccessoryPairingID": IDS[7], "iOSPairingId": "x", "iOSDeviceLTPK": "00" * 32, "iOSDeviceLTSK": "00" * 32, "AccessoryLTPK": "00" * 32}
            if pairing_state == "ble-paired":
                data.update({"AccessoryAddress": IDS[7], "Connection": "BLE"})
            else:
                data.update({"AccessoryIP": "10.0.0.9", "AccessoryIPs": ["10.0.0.9"], "AccessoryPort": 80, "Connection": "IP"})
            top.load_pairing("alias", data)
        finder = top.async_find
    out = {}

    async def waiter(k, did, timeout):
        try:
            d = await finder(did, timeout)
            out[k] = f"found@{round((loop.time() - t0) * 1000)}" if d is not None else "none"
        except AccessoryNotFoundError:
            out[k] = f"notfound@{round((loop.time() - t0) * 1000)}"
        except asyncio.CancelledError:
            out[k] = "cancelled"
            raise
        except Exception as e:  # noqa: BLE001
            out[k] = "exc:" + type(e).__name__
    n_adv = 0
    for ev in evs:
        if ev[0] == "S":
            # registration alternates between the two casings of the id
            did = IDS[ev[2]]
            did = did.lower() if ev[1] % 2 else did.upper()
            tasks[ev[1]] = asyncio.ensure_future(waiter(ev[1], did, ev[3] / 1000))
        elif ev[0] == "A":
            n_adv += 1
            did = IDS[ev[1]]
            try:
                if kind == "mdns":
                    ctl._async_handle_loaded_service_info(mdns_info(did, upper_keys=bool(n_adv % 2)))
                elif kind == "ble":
                    ctl._device_detected(*ble_adv(did.lower(), gsn=n_adv))
                else:
                    # alternate the transport that sees the device
                    if n_adv % 2:
                        ipc_._async_handle_loaded_service_info(mdns_info(did))
                    else:
                        blc._device_detected(*ble_adv(did.lower(), gsn=n_adv))
            except Exception as e:  # noqa: BLE001
                errors.append(type(e).__name__)
        elif ev[0] == "C":
            t = tasks.get(ev[1])
            if t and not t.done():
                t.cancel()
        elif ev[0] == "T":
            target = t0 + ev[1] / 1000
            if target > loop.time():
                await asyncio.sleep(target - loop.time())
        # run to quiescence at this instant
        for _ in range(6):
            await asyncio.sleep(0)
    pending = [k for k, t in tasks.items() if not t.done()]
    for k in pending:
        out[k] = "pending"
    for t in tasks.values():
        t.cancel()
    await asyncio.gather(*tasks.values(), return_exceptions=True)
    for k in pending:
        out[k] = "pending"
    return out, errors


def tok(ev):
    return ":".join(str(x) for x in ev)


def expected(evs):
    """the property, stated directly: a waiter ends with the first of {advertisement for its id (or already discovered at start), its own cancel, its deadline}"""
    now = 0
    discovered = set()
    pend = {}
    out = {}
    for ev in evs:
        if ev[0] == "S":
            if ev[2] in discovered:
                out[ev[1]] = f"found@{now}"
            else:
                pend[ev[1]] = (ev[2], now + ev[3])
        elif ev[0] == "A":
            discovered.add(ev[1])
            for k in [k for k, (i, _) in pend.items() if i == ev[1]]:
                out[k] = f"found@{now}"
                del pend[k]
        elif ev[0] == "C":
            if ev[1] in pend:
                out[ev[1]] = "cancelled"
                del pend[ev[1]]
        else:
            now = max(now, ev[1])
            for k in [k for k, (_, d) in pend.items() if d <= now]:
                out[k] = f"notfound@{pend[k][1]}"
                del pend[k]
    for k in pend:
        out[k] = "pending"
    return out


def gen_schedules(depth, rng, extra):
    alpha = [("S", 1, 7, 5000), ("S", 2, 7, 9000), ("S", 3, 8, 5000), ("A", 7), ("A", 8), ("C", 1), ("C", 3), ("T", 3000), ("T", 6000), ("T", 10000)]
    seqs = []
    for d in range(1, depth + 1):
        for seq in itertools.product(alpha, repeat=d):
            # each waiter starts at most once; time does not go backwards
            ks = [e[1] for e in seq if e[0] == "S"]
            ts = [e[1] for e in seq if e[0] == "T"]
            if len(ks) != len(set(ks)) or ts != sorted(ts) or len(set(ts)) != len(ts):
                continue
            if not any(e[0] == "S" for e in seq):
                continue
            seqs.append(list(seq))
    for _ in range(extra):
        n = rng.randrange(4, 14)
        seq = []
        started = set()
        t = 0
        for _ in range(n):
            r = rng.random()
            if r < 0.3 and len(started) < 3:
                k = rng.choice([x for x in (1, 2, 3) if x not in started])
                started.add(k)
                seq.append(("S", k, rng.choice([7, 8]), rng.choice([1000, 5000, 9000])))
            elif r < 0.55:
                seq.append(("A", rng.choice([7, 8])))
            elif r < 0.7:
                seq.append(("C", rng.choice([1, 2, 3])))
            else:
                t += rng.choice([500, 1000, 4000, 4500])
                seq.append(("T", t))
        if started:
            seqs.append(seq)
    return seqs


def run(ctx: Ctx, driver: Driver):
    rng = ctx.rng
    loop = simnet.VLoop()
    asyncio.set_event_loop(loop)
    # every schedule to depth 4; the thorough tier adds a sample of the 42 000 depth-5 schedules (all of them take > 40 min)
    seqs = gen_schedules(4, rng, ctx.budget(150, 3000))
    if ctx.thorough():
        deep = [s_ for s_ in gen_schedules(5, rng, 0) if len(s_) == 5]
        seqs += rng.sample(deep, min(len(deep), 9000))
    cases, outs, lines = [], [], []
    for kind in ("mdns", "ble", "aggregate"):
        sub = seqs if kind != "aggregate" else seqs[::3]
        for evs in sub:
            for pstate in ({"mdns": ("none",), "ble": ("none", "cached", "uncached"), "aggregate": ("none", "ble-paired", "ip-paired")}[kind]):
                if pstate != "none" and rng.random() < 0.6:
                    continue
                if ctx.evaluations % 1000 == 999:
                    # timers of finished schedules (waiter time-outs that virtual time never reached) pile up in the loop's heap and
                    # asyncio rebuilds the heap again and again: a fresh loop every 1000 schedules keeps the stream linear
                    loop.close()
                    loop = simnet.VLoop()
                    asyncio.set_event_loop(loop)
                out, errors = loop.run_until_complete(run_schedule(loop, kind, evs, pstate))
                ctx.evaluations += 1
                case = {"stream": "waiters", "controller": kind, "pairing": pstate, "events": [tok(e) for e in evs]}
                ctx.nontrivial.add((kind, pstate, tuple(case["events"])))
                if errors:
                    ctx.violation(f"callback/{kind}/{pstate}/{errors[0]}", f"{kind} detection callback raised {errors[0]} (pairing state: {pstate})", case)
                for k, o in out.items():
                    if o.startswith("exc") or o == "none":
                        ctx.violation(f"waiter/{kind}/{o}", f"waiter {k} ended with {o}", case)
                    if o == "pending":
                        # a waiter still pending at the end must not be past its deadline
                        pass
                want = expected(evs)
                if out != want:
                    bad = sorted(k for k in set(out) | set(want) if out.get(k) != want.get(k))
                    k0 = bad[0]
                    sig = f"waiter/{kind}/" + ("not-woken" if str(want.get(k0)).startswith("found") else "wrong-outcome")
                    ctx.violation(sig, f"{kind}: waiter {k0} ended with {out.get(k0)} but the property demands {want.get(k0)} (schedule {[tok(e) for e in evs]})", case)
                s = " ".join(f"{k}={out[k]}" for k in sorted(out))
                cases.append(case)
                outs.append(s)
                lines.append("wt.run " + " ".join(tok(e) for e in evs))
                ctx.dist[f"waiters:{kind}"] += 1
    ctx.sample(cases[17])
    ctx.sample(cases[-1])
    compare_with_model(ctx, "waiters", cases, outs, lines, driver)
    loop.close()
    loop = simnet.VLoop()
    asyncio.set_event_loop(loop)
    browser_streams(ctx, driver, rng, loop)
    parse_streams(ctx, driver, rng)
    callback_robustness(ctx, rng, loop)
    loop.close()
    history_streams(ctx, driver, rng)
    restart_streams(ctx, rng)
    cache_start_streams(ctx, rng)
    from harness.c19_micro import run_micro
    run_micro(ctx, driver)


# ---------------------------------------------------------------- the mDNS browser path (service state changes, 0.5 s resolve debounce)
def browser_expected(evs):
    """reference semantics of the browser callback: Added/Updated arms a 0.5 s resolve timer for the service unless one is
    pending; Removed cancels a pending one; when the timer fires the record is processed (= an advertisement for the id).
    Returns (outcomes per waiter, model events, tie) - tie = a timer fires at the very instant of a waiter's deadline."""
    now = 0
    timers = {}     # id -> fire time
    model = []
    flat = []       # ('S'|'A'|'C'|'T', ...) for the waiter reference
    tie = False
    deadlines = {}
    for ev in evs:
        if ev[0] == "S":
            flat.append(ev)
            deadlines[ev[1]] = now + ev[3]
        elif ev[0] in ("BA", "BU"):
            if ev[1] not in timers:
                timers[ev[1]] = now + 500
        elif ev[0] == "BR":
            timers.pop(ev[1], None)
        elif ev[0] == "C":
            flat.append(ev)
        elif ev[0] == "T":
            target = max(now, ev[1])
            for did, ft in sorted(timers.items(), key=lambda x: x[1]):
                if ft <= target:
                    if ft in deadlines.values():
                        tie = True
                    flat.append(("T", ft))
                    flat.append(("A", did))
                    del timers[did]
            flat.append(("T", target))
            now = target
    return expected(flat), flat, tie


async def run_browser_schedule(loop, evs):
    import aiohomekit.zeroconf as zcmod
    from zeroconf import ServiceStateChange
    t0 = loop.time()
    out = {}
    tasks = {}
    errors = []
    ctl = IpController(char_cache=CharacteristicCacheMemory(), zeroconf_instance=MagicMock())

    class Info(FakeInfo):
        def load_from_cache(self, zc, now=None):
            return True

    def mk_info(service_type, name):
        did = IDS[int(name.split(".")[0][-1])]
        i = mdns_info(did)
        return Info(i.name.split(".")[0], i._addrs, i.decoded_properties)

    async def waiter(k, did, timeout):
        try:
            d = await ctl.async_find(did, timeout)
            out[k] = f"found@{round((loop.time() - t0) * 1000)}" if d is not None else "none"
        except AccessoryNotFoundError:
            out[k] = f"notfound@{round((loop.time() - t0) * 1000)}"
        except asyncio.CancelledError:
            out[k] = "cancelled"
            raise
        except Exception as e:  # noqa: BLE001
            out[k] = "exc:" + type(e).__name__
    with mock.patch.object(zcmod, "AsyncServiceInfo", mk_info):
        for ev in evs:
            try:
                if ev[0] == "S":
                    tasks[ev[1]] = asyncio.ensure_future(waiter(ev[1], IDS[ev[2]], ev[3] / 1000))
                elif ev[0] in ("BA", "BU", "BR"):
                    change = {"BA": ServiceStateChange.Added, "BU": ServiceStateChange.Updated, "BR": ServiceStateChange.Removed}[ev[0]]
                    ctl._handle_service(MagicMock(), ctl.hap_type, f"dev{ev[1]}.{ctl.hap_type}", change)
                elif ev[0] == "C":
                    t = tasks.get(ev[1])
                    if t and not t.done():
                        t.cancel()
                elif ev[0] == "T":
                    target = t0 + ev[1] / 1000
                    if target > loop.time():
                        await asyncio.sleep(target - loop.time())
            except Exception as e:  # noqa: BLE001
                errors.append(type(e).__name__)
            for _ in range(6):
                await asyncio.sleep(0)
        pending = [k for k, t in tasks.items() if not t.done()]
        for t in tasks.values():
            t.cancel()
        await asyncio.gather(*tasks.values(), return_exceptions=True)
        for k in pending:
            out[k] = "pending"
        await ctl.async_stop() if hasattr(ctl, "_browser") else None
        for h in list(ctl._resolve_later.values()):
            h.cancel()
    return out, errors


def browser_streams(ctx, driver, rng, loop):
    alpha = [("S", 1, 7, 5000), ("S", 2, 7, 9000), ("BA", 7), ("BU", 7), ("BR", 7), ("BA", 8), ("dt", 200), ("dt", 400), ("dt", 700), ("dt", 3100)]
    depth = ctx.budget(5, 6)
    seqs = []
    for d in range(2, depth + 1):
        for seq in itertools.product(alpha, repeat=d):
            ks = [e[1] for e in seq if e[0] == "S"]
            if len(ks) != len(set(ks)) or not ks or not any(e[0] in ("BA", "BU") for e in seq):
                continue
            seqs.append(seq)
    if len(seqs) > ctx.budget(1500, 30000):
        seqs = rng.sample(seqs, ctx.budget(1500, 30000))
    cases, outs, lines = [], [], []
    skipped = 0
    for seq in seqs:
        now = 0
        evs = []
        for e in seq:
            if e[0] == "dt":
                now += e[1]
                evs.append(("T", now))
            else:
                evs.append(e)
        evs.append(("T", now + 12000))
        want, flat, tie = browser_expected(evs)
        if tie:
            skipped += 1
            continue
        out, errors = loop.run_until_complete(run_browser_schedule(loop, evs))
        ctx.evaluations += 1
        case = {"stream": "browser", "events": [tok(e) for e in evs]}
        ctx.nontrivial.add(("browser", tuple(case["events"])))
        if errors:
            ctx.violation(f"callback/browser/{errors[0]}", f"the browser callback raised {errors[0]}", case)
        if out != want:
            bad = sorted(k for k in set(out) | set(want) if out.get(k) != want.get(k))
            k0 = bad[0]
            sig = "waiter/browser/" + ("not-woken" if str(want.get(k0)).startswith("found") else "wrong-outcome")
            ctx.violation(sig, f"mDNS browser: waiter {k0} ended with {out.get(k0)} but the property demands {want.get(k0)} (service events {[tok(e) for e in evs]})", case)
        cases.append(case)
        outs.append(" ".join(f"{k}={out[k]}" for k in sorted(out)))
        lines.append("wt.run " + " ".join(tok(e) for e in flat))
        ctx.dist["browser"] += 1
    ctx.dist["browser:skipped-ties"] += skipped
    compare_with_model(ctx, "browser", cases, outs, lines, driver)


def ref_ble(data):
    """the HAP-BLE regular advertisement, decoded independently: type 0x06, sub-type/length byte, status flags, 6-byte device id, category
    (u16 LE), state number (u16 LE), configuration number, compatible version = 15 mandatory bytes, then an optional 4-byte setup hash.
    None = malformed (wrong type / a mandatory field cut)"""
    if len(data) < 15 or data[0] != 0x06:
        return None
    acid, gsn, cn, _cv = struct.unpack("<HHBB", data[9:15])
    return f"{data[3:9].hex()} sf={data[2]} ci={acid} s={gsn} c={cn} sh={hx(data[15:19] if len(data) >= 19 else b'')}"


def parse_streams(ctx, driver, rng):
    # ---- BLE manufacturer data: every truncation of valid ones + random mutations
    cases, outs, lines = [], [], []
    valids = []
    for _ in range(ctx.budget(8, 60)):
        idb = bytes(rng.randrange(256) for _ in range(6))
        data = bytes([0x06, rng.randrange(256), rng.randrange(4)]) + idb + struct.pack("<HHBB", rng.randrange(40), rng.randrange(65536), rng.randrange(256), 2)
        if rng.random() < 0.6:
            data += bytes(rng.randrange(256) for _ in range(rng.choice([4, 4, 6, 1, 3])))
        valids.append(data)
    inputs = []
    for d in valids:
        inputs += [d[:k] for k in range(0, len(d) + 1)]
        for _ in range(4):
            b = bytearray(d)
            b[rng.randrange(len(b))] = rng.randrange(256)
            inputs.append(bytes(b))
    for data in inputs:
        ctx.evaluations += 1
        ctx.nontrivial.add(("ble-parse", data))
        case = {"stream": "ble-parse", "data": hx(data)}
        try:
            a = HomeKitAdvertisement.from_manufacturer_data("n", "AA", {76: data})
            out = f"{a.id.replace(':', '')} sf={int(a.status_flags)} ci={int(a.category)} s={a.state_num} c={a.config_num} sh={hx(a.setup_hash)}"
            if a.id != a.id.lower() or len(data) < 15:
                ctx.violation("parse/ble", f"accepted {hx(data)} as {a}", case)
        except ValueError:
            out = "ignored"
        except Exception as e:  # noqa: BLE001
            ctx.violation("parse/ble/" + type(e).__name__, f"from_manufacturer_data raised {type(e).__name__} on {hx(data)}", case)
            continue
        ref = ref_ble(data)
        if out != (ref or "ignored"):
            ctx.violation("parse/ble/" + ("valid-ignored" if out == "ignored" else "malformed-accepted" if ref is None else "wrong-fields"),
                          f"from_manufacturer_data({hx(data)}) -> {out}; the advertisement says {ref or 'nothing usable (malformed)'}", case)
        cases.append(case)
        outs.append(out)
        lines.append(f"wt.ble {hx(data)}")
    compare_with_model(ctx, "ble-parse", cases, outs, lines, driver)
    # ---- mDNS
    cases, outs, lines = [], [], []
    pool = [("o", "10.0.0.5"), ("o", "192.168.1.9"), ("l", "169.254.3.4"), ("u", "0.0.0.0"), ("o", "2001:db8::1"), ("l", "fe80::1"), ("u", "::")]
    for _ in range(ctx.budget(400, 8000)):
        v4 = [a for a in rng.sample(pool[:4], rng.randrange(0, 4))]
        v6 = [a for a in rng.sample(pool[4:], rng.randrange(0, 3))]
        addrs = v4 + v6  # zeroconf returns IPv4 first
        props = []
        did = rng.choice(["AA:BB:CC:DD:EE:FF", "aa:bb:cc:dd:ee:ff", "Aa:bB:00:11:22:33"])
        for key, val in (("id", did), ("c#", str(rng.randrange(100))), ("s#", str(rng.randrange(5))), ("sf", rng.choice(["0", "1"])), ("ff", rng.choice(["0", "1", "2"])), ("ci", str(rng.randrange(1, 30))), ("md", "Model")):
            r = rng.random()
            if r < 0.12:
                continue
            if r < 0.2:
                val = rng.choice(["abc", "", "x1", None])
            if rng.random() < 0.3:
                key = key.upper()
            props.append((key, val))
        ctx.evaluations += 1
        case = {"stream": "mdns-parse", "addrs": addrs, "props": props}
        ctx.nontrivial.add(("mdns-parse", tuple(addrs), tuple(props)))
        info = FakeInfo("dev", [a for _, a in addrs], dict(props))
        try:
            s = HomeKitService.from_service_info(info)
            out = f"{hx(s.id.encode())} {hx(s.address.encode())} {','.join(hx(a.encode()) for a in s.addresses)} c={s.config_num} s={s.state_num} ff={int(s.feature_flags)} sf={int(s.status_flags)} ci={int(s.category)}"
            usable = [a for k, a in addrs if k == "o"]
            if s.id != s.id.lower() or s.addresses != [str(ipaddress.ip_address(a)) for a in usable] or s.address != s.addresses[0]:
                ctx.violation("parse/mdns", f"record parsed to {s}", case)
        except ValueError:
            out = "ignored"
        except Exception as e:  # noqa: BLE001
            ctx.violation("parse/mdns/" + type(e).__name__, f"from_service_info raised {type(e).__name__}", case)
            continue
        # dict(props) keeps the last value of a repeated key; the model filters None values like the code
        dprops = list(dict(props).items())
        cases.append(case)
        outs.append(out)
        lines.append("wt.mdns " + " ".join(f"{k}~{hx(str(ipaddress.ip_address(a)).encode())}" for k, a in addrs) + " | " + " ".join(f"{hx(k.encode())}~{hx(v.encode()) if v is not None else 'none'}" for k, v in dprops))
    compare_with_model(ctx, "mdns-parse", cases, outs, lines, driver)


def callback_robustness(ctx, rng, loop):
    """no advertisement makes the scanner/browser callback raise, in any pairing-loaded state"""
    async def go():
        n = 0
        for pstate in ("none", "cached", "uncached"):
            cache = cache_with(IDS[7]) if pstate == "cached" else CharacteristicCacheMemory()
            ctl = BleController(cache)
            if pstate != "none":
                p = ctl.load_pairing("alias", {"AccessoryPairingID": IDS[7], "AccessoryAddress": IDS[7], "Connection": "BLE", "iOSPairingId": "x", "iOSDeviceLTPK": "00" * 32})
                p._process_disconnected_events = lambda: None
            idb = bytes.fromhex(IDS[7].replace(":", ""))
            good = bytes([0x06, 0x31, 0x00]) + idb + struct.pack("<HHBB", 5, 3, 1, 2) + b"\x01\x02\x03\x04"
            from harness.c18 import seal
            notif_unknown_iid = bytes([0x11, 0x36]) + idb + seal(2, 999, b"\x01", aid=idb)
            notif_known = bytes([0x11, 0x36]) + idb + seal(3, 11, b"\x01", aid=idb)
            payloads = [good[:k] for k in range(len(good) + 1)] + [notif_unknown_iid, notif_known, bytes([0x11]), bytes([0x11, 0x36]) + idb, b"", bytes([0x07, 1, 2]), bytes(rng.randrange(256) for _ in range(20))]
            shapes = [{76: data} for data in payloads] + [{}, {76: b""}, {77: good}, {76: b"", 77: good}, {6: b"\x06"}]
            for md in shapes:
                data = md.get(76, b"")
                a = MagicMock()
                a.manufacturer_data = md
                a.rssi = -50
                d = MagicMock()
                d.name = rng.choice(["dev", None, ""])
                d.address = IDS[7]
                n += 1
                try:
                    ctl._device_detected(d, a)
                except Exception as e:  # noqa: BLE001
                    ctx.violation(f"callback/ble/{pstate}/{type(e).__name__}", f"_device_detected raised {type(e).__name__} on {hx(data)[:60]} with pairing state {pstate}", {"stream": "callback", "pairing": pstate, "data": hx(data)})
                ctx.nontrivial.add(("callback", pstate, tuple(sorted(md)), data))
        # mDNS browser callback with malformed records and a loaded pairing
        ipctl = IpController(char_cache=CharacteristicCacheMemory(), zeroconf_instance=MagicMock())
        for props in ({}, {"id": None}, {"id": "AA:BB", "c#": "x"}, {"ID": "aa:bb:cc:dd:ee:07", "C#": "2"}, {"id": "aa:bb:cc:dd:ee:07", "ci": "abc"}, {"id": "aa:bb:cc:dd:ee:07", "sf": ""}):
            for addrs in ([], ["169.254.1.1"], ["0.0.0.0", "::"], ["10.0.0.1"], ["fe80::1", "10.0.0.2"]):
                n += 1
                try:
                    ipctl._async_handle_loaded_service_info(FakeInfo("dev", addrs, props))
                except Exception as e:  # noqa: BLE001
                    ctx.violation(f"callback/mdns/{type(e).__name__}", f"mDNS callback raised {type(e).__name__} on props={props} addrs={addrs}", {"stream": "callback", "props": {k: v for k, v in props.items()}, "addrs": addrs})
        return n
    ctx.evaluations += loop.run_until_complete(go())


# ---------------------------------------------------------------- histories: composite events (no loop run between actions) + generalised pairing dimension
# One history = a list of [action, gap].  `gap` = how many event-loop iterations the harness lets pass before the next action:
# 0 = the next action is issued back-to-back (same loop iteration, nothing the previous action made ready has run yet), 1..3 = that
# many iterations, "q" = quiescence.  Actions:
#   S:k:id:ms        waiter k starts waiting for id with timeout ms        C:k   waiter k is cancelled
#   A:id:c:s:ep:via  advertisement for id (config number c, state number s, endpoint/name variant ep) processed by transport via
#                    (i = mDNS _hap._tcp -> IpController, c = mDNS _hap._udp -> CoAPController, b = BLE scanner callback)
#   T:ms             the clock advances to ms                              L     the pairing of the case is loaded (load_pairing)
#   M:id:v:via       a MALFORMED advertisement naming id (variant v: no / only link-local addresses, no id, non-numeric c#, truncated or
#                    foreign manufacturer data ...): ignored - no waiter is woken, nothing raises
#   N:id:v           a BLE encrypted notification for id (v: authentic for a cached characteristic / for an unknown iid / truncated /
#                    garbage): not an advertisement of the device's presence - no waiter is woken, nothing raises
#   X:k              the clock advances to the instant waiter k's timeout fires; a following gap-0 group runs in the SAME loop
#                    iteration right AFTER the timeout callback            Y:k   same, the group runs right BEFORE the timeout callback
SETTLE = 12      # loop iterations of a "q" gap
WINDOW = 10      # an outcome has certainly reached the caller this many iterations after it was decided
BIG = 10 ** 6
# (mDNS addresses, port, BLE address, BLE local name, bytes of the optional BLE setup hash present)
EPS = [(["10.0.0.5"], 80, "11:22:33:44:55:00", "dev", 4), (["10.0.0.6"], 80, "11:22:33:44:55:01", "a-much-longer-name", 0),
       (["10.0.0.5"], 8080, "11:22:33:44:55:00", "d", 4), (["169.254.9.9", "10.0.0.7", "fe80::1"], 80, "11:22:33:44:55:02", None, 2)]
SYNC = ("S", "A", "C", "L", "M", "N")


def ptok(s):
    return tuple(int(x) if x.lstrip("-").isdigit() else x for x in s.split(":"))


def gap_iters(gap):
    return SETTLE if gap == "q" else int(gap)


def expected_micro(events):
    """The property over a history with composite events.  Returns ({k: set of acceptable outcomes}, {id: [(c, s) advertised]},
    flat events for the waiter automaton or None when the history has an instant the automaton cannot express (a tie)).
    A waiter ends with the FIRST of {advertisement for its id processed (or id already discovered when it starts), its own cancel,
    its timeout}.  Two things the caller itself can still do in the few loop iterations before that outcome has reached it are not
    the library's business and widen the set: cancelling the waiting task (-> 'cancelled'), and (Y groups only) the timeout timer
    firing in the very loop iteration in which the advertisement was processed just before it (-> not found at the deadline)."""
    now, it = 0, 0
    adv = {}
    w = {}
    flat = []
    expressible = True
    y_open = False

    def decide(k, outcome, at=None):
        w[k]["c"].append(outcome)
        w[k]["it"] = it if at is None else at

    def fire_due():
        for k, x in w.items():
            if not x["c"] and x["dl"] <= now:
                decide(k, f"notfound@{x['dl']}")
            elif x["c"] and x["c"][0] == f"found@{x['dl']}" and x["dl"] == now and it - x["it"] < WINDOW and f"notfound@{x['dl']}" not in x["c"]:
                x["c"].append(f"notfound@{x['dl']}")

    def advance(target):
        nonlocal now, it
        it += BIG
        for k, x in w.items():
            if not x["c"] and x["dl"] < target:
                decide(k, f"notfound@{x['dl']}", at=it - BIG)
        now = target
    for i, (tok, gap) in enumerate(events):
        e = ptok(tok) if isinstance(tok, str) else tok
        if e[0] == "S":
            if e[1] not in w:
                w[e[1]] = {"id": e[2], "dl": now + e[3], "c": [], "it": 0}
                if e[2] in adv:
                    decide(e[1], f"found@{now}")
                flat.append(f"S:{e[1]}:{e[2]}:{e[3]}")
        elif e[0] == "A":
            adv.setdefault(e[1], []).append((e[2], e[3]))
            for k, x in w.items():
                if not x["c"] and x["id"] == e[1]:
                    decide(k, f"found@{now}")
            flat.append(f"A:{e[1]}")
        elif e[0] == "C":
            x = w.get(e[1])
            if x is not None:
                if not x["c"]:
                    decide(e[1], "cancelled")
                elif x["c"][0] != "cancelled" and it - x["it"] < WINDOW and "cancelled" not in x["c"]:
                    x["c"].append("cancelled")
                flat.append(f"C:{e[1]}")
        elif e[0] == "T":
            if e[1] > now:
                advance(e[1])
                fire_due()
                flat.append(f"T:{e[1]}")
        elif e[0] in ("X", "Y"):
            x = w.get(e[1])
            if x is not None and x["dl"] > now:
                advance(x["dl"])
                if e[0] == "X":
                    fire_due()
                    flat.append(f"T:{x['dl']}")
                else:
                    y_open = True
                    expressible = False
        nxt = events[i + 1][0] if i + 1 < len(events) else None
        nxt_sync = nxt is not None and (ptok(nxt) if isinstance(nxt, str) else nxt)[0] in SYNC
        if y_open and (gap != 0 or not nxt_sync):
            fire_due()
            y_open = False
        it += gap_iters(gap)
    want = {k: (set(x["c"]) if x["c"] else {"pending"}) for k, x in w.items()}
    if any(len(v) > 1 for v in want.values()):
        expressible = False
    return want, adv, (flat if expressible else None)


def hist_ble_adv(did, c, s, ep):
    idb = bytes.fromhex(did.replace(":", ""))
    _, _, address, name, nhash = EPS[ep]
    data = bytes([0x06, 0x31, 0x00]) + idb + struct.pack("<HHBB", 5, s & 0xFFFF, c & 0xFF, 2) + b"\x01\x02\x03\x04"[:nhash]
    try:
        from bleak.backends.device import BLEDevice
        from bleak.backends.scanner import AdvertisementData
        return (BLEDevice(address, name, None),
                AdvertisementData(local_name=name, manufacturer_data={76: data}, service_data={}, service_uuids=[], rssi=-60, platform_data=((),), tx_power=-127))
    except Exception:  # noqa: BLE001 - another bleak: the duck-typed stand-ins of the older streams
        a = MagicMock()
        a.manufacturer_data = {76: data}
        a.rssi = -60
        d = MagicMock()
        d.name = name
        d.address = address
        return d, a


def hist_malformed(did, v, via, type_):
    """(device, advertisement) for BLE / record object for mDNS that the parsers must ignore"""
    if via == "b":
        idb = bytes.fromhex(did.replace(":", ""))
        good = bytes([0x06, 0x31, 0x00]) + idb + struct.pack("<HHBB", 5, 9, 9, 2) + b"\x01\x02\x03\x04"
        md = [{76: good[:14]}, {76: bytes([0x07]) + good[1:]}, {76: b""}, {77: good}, {76: good[:3]}, {}][v % 6]
        a = MagicMock()
        a.manufacturer_data = md
        a.rssi = -70
        d = MagicMock()
        d.name = "dev"
        d.address = "11:22:33:44:55:09"
        return d, a
    props = {"id": did, "c#": "9", "s#": "9", "sf": "0", "ff": "0", "ci": "5", "md": "m"}
    addrs = ["10.0.0.8"]
    if v % 6 == 0:
        addrs = []
    elif v % 6 == 1:
        addrs = ["169.254.1.1", "0.0.0.0", "fe80::2", "::"]
    elif v % 6 == 2:
        del props["id"]
    elif v % 6 == 3:
        props["c#"] = "x"
    elif v % 6 == 4:
        props["id"] = None
    else:
        props["ci"] = ""
    return FakeInfo("dev" + did[-2:], addrs, props, type_=type_)


_NOTIF = {}


def hist_notification(did, v):
    idb = bytes.fromhex(did.replace(":", ""))
    if (did, v % 5) not in _NOTIF:
        from harness.c18 import seal
        # variants 0 and 1 are authentic under the cached broadcast key (state numbers 7 / 8): they legitimately advance the state number
        _NOTIF[(did, v % 5)] = [lambda: seal(7, 11, b"\x01", k=bytes(range(32)), aid=idb), lambda: seal(8, 999, b"\x01", k=bytes(range(32)), aid=idb),
                                lambda: seal(9, 11, b"\x01", k=bytes(range(32)), aid=idb)[:5], lambda: bytes(range(12)), lambda: b""][v % 5]()
    body = _NOTIF[(did, v % 5)]
    a = MagicMock()
    a.manufacturer_data = {76: bytes([0x11, 0x36]) + idb + body}
    a.rssi = -70
    d = MagicMock()
    d.name = "dev"
    d.address = "11:22:33:44:55:00"
    return d, a


def hist_mdns_info(did, c, s, ep, type_, real, upper_keys):
    addrs, port = EPS[ep][:2]
    props = {"id": did, "c#": str(c), "s#": str(s), "sf": "0", "ff": "0", "ci": "5", "md": "m"}
    if upper_keys:
        props = {k.upper(): v for k, v in props.items()}
    if real:
        # zeroconf's own record object (what the service browser hands to the controller)
        from zeroconf.asyncio import AsyncServiceInfo
        packed = [ipaddress.ip_address(a).packed for a in addrs]
        return AsyncServiceInfo(type_, f"dev{did[-2:]}.{type_}", addresses=packed, port=port,
                                properties={k.encode(): v.encode() for k, v in props.items()}, weight=0, priority=0)
    return FakeInfo("dev" + did[-2:], addrs, props, port=port, type_=type_)


def pairing_data_for(conn, pid):
    data = {"AccessoryPairingID": pid, "iOSPairingId": "x", "iOSDeviceLTPK": "00" * 32, "iOSDeviceLTSK": "00" * 32, "AccessoryLTPK": "00" * 32, "Connection": conn}
    if conn == "BLE":
        data["AccessoryAddress"] = "11:22:33:44:55:00"
    else:
        data.update({"AccessoryIP": "10.0.0.9", "AccessoryIPs": ["10.0.0.9"], "AccessoryPort": 80})
    return data


def hist_cache(case):
    """the characteristic cache the controller starts with (what a restart finds in storage)"""
    cache = CharacteristicCacheMemory()
    spec = case.get("cache")
    p = case.get("pairing")
    if spec and p:
        pid = IDS[7].upper() if p.get("upper") else IDS[7].lower()
        accs = Accessories.from_list([{"aid": 1, "services": [{"iid": 1000, "type": ServicesTypes.LIGHTBULB, "characteristics": [
            {"iid": 11, "type": CharacteristicsTypes.ON, "perms": ["pr", "pw", "ev"], "format": "bool", "value": False}]}]}])
        cache.async_create_or_update_map(pid, spec["c"], accs.serialize(), bytes(range(32)).hex() if spec.get("key") else None, spec.get("s"))
    return cache


@contextlib.contextmanager
def no_network():
    """every connection attempt of a loaded pairing is refused / finds no radio: only the network and the radio are mocked"""
    import aiohomekit.controller.ble.pairing as blep
    import aiohomekit.controller.coap.connection as coapc
    import aiohomekit.controller.ip.connection as ipc
    from bleak.exc import BleakError

    async def refused(*a, **k):
        raise ConnectionRefusedError(111, "refused (harness)")

    async def unreachable(*a, **k):
        raise OSError(101, "network unreachable (harness)")

    async def no_radio(*a, **k):
        raise BleakError("no radio (harness)")
    with contextlib.ExitStack() as st:
        st.enter_context(mock.patch.object(ipc.aiohappyeyeballs, "start_connection", refused))
        st.enter_context(mock.patch.object(coapc.Context, "create_server_context", unreachable))
        st.enter_context(mock.patch.object(coapc.Context, "create_client_context", unreachable))
        st.enter_context(mock.patch.object(blep, "establish_connection", no_radio))
        yield


async def run_history(loop, case):
    """Runs one history through the real controllers.  Returns (outcomes, details, errors, recorded)."""
    from aiohomekit.controller.coap.controller import CoAPController
    kind = case["controller"]
    events = [(ptok(t), g) for t, g in case["events"]]
    real = case.get("info") == "real"
    cache = hist_cache(case)
    trans = {}
    top = None
    if kind == "aggregate":
        top = Controller(async_zeroconf_instance=MagicMock(), char_cache=cache)
        trans = {"i": IpController(char_cache=cache, zeroconf_instance=MagicMock()), "c": CoAPController(char_cache=cache, zeroconf_instance=MagicMock()), "b": BleController(cache)}
        for t in trans.values():
            top.transports[t.transport_type] = t
        finder, loader = top.async_find, top.load_pairing
    else:
        via = {"ip": "i", "coap": "c", "ble": "b"}[kind]
        ctl = {"i": lambda: IpController(char_cache=cache, zeroconf_instance=MagicMock()), "c": lambda: CoAPController(char_cache=cache, zeroconf_instance=MagicMock()),
               "b": lambda: BleController(cache)}[via]()
        trans = {via: ctl}
        finder, loader = ctl.async_find, ctl.load_pairing
    t0 = loop.time()
    tasks, out, details, errors, deadline = {}, {}, {}, [], {}
    n_adv = 0

    async def waiter(k, did, timeout):
        try:
            d = await finder(did, timeout)
            if d is None:
                out[k] = "none"
            else:
                out[k] = f"found@{round((loop.time() - t0) * 1000)}"
                details[k] = (d.description.id, d.description.config_num, d.description.state_num)
        except AccessoryNotFoundError:
            out[k] = f"notfound@{round((loop.time() - t0) * 1000)}"
        except asyncio.CancelledError:
            out[k] = "cancelled"
            raise
        except Exception as e:  # noqa: BLE001
            out[k] = "exc:" + type(e).__name__

    def act(e):
        nonlocal n_adv
        if e[0] == "S":
            if e[1] in tasks:
                return
            did = IDS[e[2]]
            did = did.lower() if e[1] % 2 else did.upper()
            deadline[e[1]] = loop.time() + e[3] / 1000
            tasks[e[1]] = asyncio.ensure_future(waiter(e[1], did, e[3] / 1000))
        elif e[0] == "A":
            n_adv += 1
            did = IDS[e[1]]
            t = trans.get(e[5])
            if t is None:
                return
            try:
                if e[5] == "b":
                    t._device_detected(*hist_ble_adv(did.lower(), e[2], e[3], e[4]))
                else:
                    t._async_handle_loaded_service_info(hist_mdns_info(did, e[2], e[3], e[4], t.hap_type, real, bool(n_adv % 2)))
            except Exception as ex:  # noqa: BLE001
                errors.append(("callback", e[5], type(ex).__name__, repr(ex)[:160]))
        elif e[0] in ("M", "N"):
            via = e[3] if e[0] == "M" else "b"
            t = trans.get(via)
            if t is None:
                return
            try:
                if via == "b":
                    t._device_detected(*(hist_malformed(IDS[e[1]].lower(), e[2], "b", None) if e[0] == "M" else hist_notification(IDS[e[1]].lower(), e[2])))
                else:
                    t._async_handle_loaded_service_info(hist_malformed(IDS[e[1]], e[2], via, t.hap_type))
            except Exception as ex:  # noqa: BLE001
                errors.append(("callback", via, type(ex).__name__, ("malformed advertisement: " if e[0] == "M" else "encrypted notification: ") + repr(ex)[:140]))
        elif e[0] == "C":
            t = tasks.get(e[1])
            if t is not None and not t.done():
                t.cancel()
        elif e[0] == "L":
            p = case.get("pairing")
            if p:
                pid = IDS[7].upper() if p.get("upper") else IDS[7].lower()
                try:
                    if loader("alias", pairing_data_for(p["conn"], pid)) is None:
                        errors.append(("load-pairing", p["conn"], "None", "load_pairing returned no pairing"))
                except Exception as ex:  # noqa: BLE001
                    errors.append(("load-pairing", p["conn"], type(ex).__name__, repr(ex)[:160]))
    i = 0
    while i < len(events):
        e, gap = events[i]
        if e[0] == "T":
            target = t0 + e[1] / 1000
            if target > loop.time():
                await asyncio.sleep(target - loop.time())
        elif e[0] in ("X", "Y"):
            dl = deadline.get(e[1])
            if dl is not None:
                when = math.nextafter(dl, math.inf) if e[0] == "X" else math.nextafter(dl, -math.inf)
                if dl > loop.time():
                    group = []
                    while gap == 0 and i + 1 < len(events) and events[i + 1][0][0] in SYNC:
                        i += 1
                        group.append(events[i][0])
                        gap = events[i][1]
                    cont = loop.create_future()

                    def in_timer_iteration(group=group, cont=cont):
                        for g in group:
                            act(g)
                        cont.set_result(None)
                    loop.call_at(when, in_timer_iteration)
                    await cont
        else:
            act(e)
        for _ in range(gap_iters(gap)):
            await asyncio.sleep(0)
        i += 1
    for _ in range(SETTLE):
        await asyncio.sleep(0)
    recorded = {}
    for v, t in trans.items():
        for did, d in t.discoveries.items():
            try:
                recorded[(v, did)] = (d.description.config_num, d.description.state_num, getattr(d.description, "address", None), getattr(d.description, "port", None))
            except Exception as ex:  # noqa: BLE001
                recorded[(v, did)] = ("exc:" + type(ex).__name__,)
    pending = [k for k, t in tasks.items() if not t.done()]
    me = asyncio.current_task()
    for _ in range(3):
        rest = [t for t in asyncio.all_tasks(loop) if t is not me and not t.done()]
        if not rest:
            break
        for t in rest:
            t.cancel()
        await asyncio.wait(rest, timeout=5)
    for k, t in tasks.items():
        if k not in out and t.cancelled():
            out[k] = "cancelled"
    for k in pending:
        out[k] = "pending"
    return out, details, errors, recorded


def pclass(case):
    p = case.get("pairing")
    if not p or not any(t == "L" for t, _ in case["events"]):
        return "none"
    return p["conn"].lower() + ("-cached" if case.get("cache") else "-uncached")


def judge_history(ctx, case, res):
    """implementation-level oracle of the histories stream; returns the outcome line for the waiter automaton (or None)"""
    out, details, errors, recorded = res
    kind = case["controller"]
    want, adv, flat = expected_micro(case["events"])
    for what, via, exc, text in errors:
        if what == "callback":
            ctx.violation(f"callback/{kind}/{pclass(case)}/{exc}", f"{kind}: the {'BLE scanner' if via == 'b' else 'mDNS browser'} callback raised {text} (pairing: {pclass(case)}, cache: {case.get('cache')}) in history {case['events']}", case)
        else:
            ctx.violation(f"load-pairing/{kind}/{exc}", f"{kind}: load_pairing({via}) raised/failed: {text} in history {case['events']}", case)
    for k in sorted(set(out) | set(want)):
        o = out.get(k)
        if o is not None and (o.startswith("exc") or o == "none"):
            ctx.violation(f"waiter/{kind}/{o}", f"waiter {k} ended with {o}", case)
        elif o not in want.get(k, ()):
            w0 = sorted(want.get(k, ()))
            sig = f"waiter/{kind}/" + ("not-woken" if any(x.startswith("found") for x in w0) and not str(o).startswith("found") else "wrong-outcome")
            ctx.violation(sig, f"{kind}: waiter {k} ended with {o} but the property demands {' or '.join(w0)} (pairing: {pclass(case)}, cache: {case.get('cache')}, history {case['events']})", case)
            break
    ids = {}
    notified = set()    # ids whose state number an authentic encrypted notification may have advanced meanwhile (that is C18's business)
    for t, _ in case["events"]:
        e = ptok(t)
        if e[0] == "S":
            ids[e[1]] = e[2]
        elif e[0] == "N" and e[2] % 5 in (0, 1):
            notified.add(e[1])
    for k, (did, c, s) in details.items():
        if did != IDS[ids[k]].lower() or ((c, s) not in adv.get(ids[k], []) and not (ids[k] in notified and c in [x[0] for x in adv.get(ids[k], [])])):
            ctx.violation(f"waiter/{kind}/wrong-discovery", f"{kind}: waiter {k} for {IDS[ids[k]].lower()} was completed with a discovery for {did} c#={c} s#={s}; advertised (c#, s#): {adv.get(ids[k])}", case)
    # the last advertisement a transport processed for an id is what its discovery table reports
    last = {}
    for t, _ in case["events"]:
        e = ptok(t)
        if e[0] == "A" and (kind == "aggregate" or e[5] == {"ip": "i", "coap": "c", "ble": "b"}[kind]):
            last[(e[5], IDS[e[1]].lower())] = e
    for key, e in last.items():
        rec = recorded.get(key)
        if rec is None:
            ctx.violation(f"discovery/{kind}/not-recorded", f"{kind}: the advertisement {tok(e)} was processed but transport {key[0]} has no discovery for {key[1]} (history {case['events']})", case)
        elif (rec[:2] != (e[2], e[3]) and not (e[1] in notified and key[0] == "b" and rec[0] == e[2])) or (key[0] != "b" and rec[2:] != (([a for a in EPS[e[4]][0] if a.startswith("10.")][0]), EPS[e[4]][1])):
            ctx.violation(f"discovery/{kind}/stale", f"{kind}: after {tok(e)} the discovery of {key[1]} on transport {key[0]} reports {rec} (history {case['events']})", case)
    if flat is None:
        return None, None
    return " ".join(f"{k}={out[k]}" for k in sorted(out)), "wt.run " + " ".join(flat)


def gen_composites(ctx, rng):
    """two / three actions issued with 0..3 loop iterations between them, around two waiters for one id (different timeouts), an
    optional waiter for another id: cancel, timeout fires (X before / Y after the group), advertisement for either id, new waiter"""
    hists = []
    prefixes = [[["S:1:7:5000", "q"], ["S:2:7:9000", "q"]],
                [["S:1:7:5000", "q"], ["S:2:7:9000", "q"], ["S:3:8:5000", "q"]],
                [["S:2:7:9000", "q"], ["T:1000", "q"], ["S:1:7:5000", "q"]],
                [["S:1:7:5000", 0], ["S:2:7:5000", "q"]]]
    heads = ["C:1", "C:2", "X:1", "Y:1", "A:7", "A:8", "S:3:7:3000"]
    others = ["C:1", "C:2", "A:7", "A:8", "S:3:7:3000", "S:3:8:3000"]
    pairs = [(a, b) for a in heads for b in others if (a != b or a[0] == "A") and not (a[0] == "S" and b[0] == "S")]
    triples = [(a, b, c) for a, b in pairs for c in others if (c not in (a, b) or c[0] == "A") and not (c[0] == "S" and "S" in (a[0], b[0]))]
    groups = [(g, gaps) for g in pairs for gaps in ((0,), (1,), (2,), (3,), (4,))]
    tri = [(g, gaps) for g in triples for gaps in itertools.product((0, 1, 2, 3, 4), repeat=2)]
    groups += rng.sample(tri, min(len(tri), ctx.budget(260, 4000)))
    for g, gaps in groups:
        pre = rng.choice(prefixes) if len(g) == 3 else prefixes[len(hists) % len(prefixes)]
        if any(x.startswith("S:3") for x in g) and any(p[0].startswith("S:3") for p in pre):
            pre = prefixes[0]
        ev = [list(x) for x in pre]
        for j, a in enumerate(g):
            ev.append([a, gaps[j] if j < len(gaps) else "q"])
        ev.append(["T:20000", "q"])
        hists.append(ev)
    return hists


def concretise(ev, kind, rng):
    """fill in the advertisement contents / transport of the short A:id tokens of a composite history"""
    out = []
    for t, g in ev:
        if t.startswith("A:") and t.count(":") == 1:
            via = {"ip": "i", "coap": "c", "ble": "b"}.get(kind) or rng.choice("iicb" if rng.random() < 0.5 else "b")
            t = f"{t}:{rng.randrange(1, 4)}:{rng.randrange(1, 4)}:{rng.randrange(len(EPS))}:{via}"
        out.append([t, g])
    return out


def pairing_variants(kind, rng):
    conns = {"ip": ["IP"], "coap": ["CoAP"], "ble": ["BLE"], "aggregate": ["IP", "CoAP", "BLE"]}[kind]
    return [{"conn": c, "upper": u} for c in conns for u in (True, False)]


def gen_pairing_grid(ctx, rng):
    """the pairing-loaded dimension, systematically: cached c# below / equal / above the advertised one, with / without cached
    state number and broadcast key, pairing loaded before the first advertisement (no previous description: the state after a
    restart), between the waiter and the advertisement, or after it (description taken from the discovery), a second advertisement
    with the same / a changed c#, s#, address, port; a waiter is pending at the first advertisement, a second one starts later"""
    cases = []
    base_c, base_s = 3, 4
    seconds = [(0, 0, 0), (1, 0, 0), (0, 1, 0), (0, 0, 1), (0, 0, 2), (1, 1, 3), (-1, 0, 0)]
    for kind in ("ip", "coap", "ble", "aggregate"):
        for p in pairing_variants(kind, rng):
            via0 = {"IP": "i", "CoAP": "c", "BLE": "b"}[p["conn"]]
            caches = [None] + [{"c": base_c + dc, "s": s, "key": key} for dc in (-1, 0, 1) for s in (None, base_s, base_s + 3) for key in (False, True)]
            for cache in caches:
                for load_at in (0, 1, 2):
                    for sec in (seconds if ctx.thorough() else rng.sample(seconds, 2)):
                        if cache is not None and cache["key"] and p["conn"] != "BLE" and rng.random() < 0.7:
                            continue
                        ev = [["S:1:7:5000", "q"], [f"A:7:{base_c}:{base_s}:0:{via0}", "q"], ["S:2:7:5000", "q"],
                              [f"A:7:{base_c + sec[0]}:{base_s + sec[1]}:{sec[2]}:{via0}", "q"], ["S:3:8:5000", "q"], [f"A:8:1:1:1:{via0}", "q"], ["T:20000", "q"]]
                        if rng.random() < 0.4:
                            ev.insert(1, [f"M:7:{rng.randrange(6)}:{via0}", rng.choice(["q", 0])])
                        if via0 == "b" and rng.random() < 0.5:
                            ev.insert(rng.choice([1, 2, 3]), [f"N:7:{rng.randrange(5)}", rng.choice(["q", 0])])
                        ev.insert(load_at, ["L", rng.choice(["q", "q", 0, 1])])
                        if kind == "aggregate" and rng.random() < 0.5:
                            # the accessory is heard on another transport as well
                            ev.insert(rng.randrange(1, len(ev) - 1), [f"A:7:{base_c}:{base_s}:0:{rng.choice([v for v in 'icb' if v != via0])}", "q"])
                        cases.append({"stream": "histories", "family": "pairing-grid", "controller": kind, "pairing": p, "cache": cache,
                                      "info": rng.choice(["fake", "real"]), "events": ev})
    return cases


def gen_random_histories(ctx, rng, n):
    cases = []
    for _ in range(n):
        kind = rng.choice(["ip", "coap", "ble", "ble", "aggregate", "aggregate"])
        vias = {"ip": "i", "coap": "c", "ble": "b"}.get(kind)
        p = rng.choice(pairing_variants(kind, rng)) if rng.random() < 0.75 else None
        cache = None
        if p and rng.random() < 0.75:
            cache = {"c": rng.randrange(1, 5), "s": rng.choice([None, None, 1, 2, 3]), "key": rng.random() < 0.4}
        ev = []
        started, loaded, t = set(), False, 0
        for _ in range(rng.randrange(4, 14)):
            r = rng.random()
            gap = rng.choice(["q", "q", "q", 0, 0, 1, 2, 3])
            if r < 0.25 and len(started) < 3:
                k = rng.choice([x for x in (1, 2, 3) if x not in started])
                started.add(k)
                ev.append([f"S:{k}:{rng.choice([7, 7, 8])}:{rng.choice([1000, 5000, 9000])}", gap])
            elif r < 0.55:
                ev.append([f"A:{rng.choice([7, 7, 8])}:{rng.randrange(1, 5)}:{rng.randrange(1, 4)}:{rng.randrange(len(EPS))}:{vias or rng.choice('icb')}", gap])
            elif r < 0.60:
                if (vias or "b") == "b" and (kind == "ble" or rng.random() < 0.4) and rng.random() < 0.5:
                    ev.append([f"N:7:{rng.randrange(5)}", gap])
                else:
                    ev.append([f"M:{rng.choice([7, 8])}:{rng.randrange(6)}:{vias or rng.choice('icb')}", gap])
            elif r < 0.67 and started:
                ev.append([f"C:{rng.choice(sorted(started))}", gap])
            elif r < 0.75 and started:
                ev.append([f"{rng.choice('XXY')}:{rng.choice(sorted(started))}", rng.choice([0, 0, 1, "q"])])
            elif r < 0.85 and p and not loaded:
                loaded = True
                ev.append(["L", gap])
            else:
                t += rng.choice([500, 1000, 4000, 4500])
                ev.append([f"T:{t}", "q"])
        if not started:
            continue
        if p and not loaded:
            ev.insert(rng.randrange(0, len(ev)), ["L", "q"])
        cases.append({"stream": "histories", "family": "random", "controller": kind, "pairing": p, "cache": cache, "info": rng.choice(["fake", "real"]), "events": ev})
    return cases


def history_streams(ctx, driver, rng):
    cases = []
    comps = gen_composites(ctx, rng)
    for kind in ("ip", "coap", "ble", "aggregate"):
        for ev in comps:
            if kind == "coap" and rng.random() < 0.6:
                continue    # same ZeroconfController code as ip; the record type differs
            p = rng.choice(pairing_variants(kind, rng)) if rng.random() < 0.3 else None
            cev = concretise(ev, kind, rng)
            if p:
                cev.insert(rng.randrange(0, 3), ["L", "q"])
            cases.append({"stream": "histories", "family": "composite", "controller": kind, "pairing": p,
                          "cache": ({"c": rng.randrange(1, 4), "s": rng.choice([None, 2]), "key": False} if p and rng.random() < 0.6 else None),
                          "info": rng.choice(["fake", "real"]), "events": cev})
    cases += gen_pairing_grid(ctx, rng)
    cases += gen_random_histories(ctx, rng, ctx.budget(1200, 20000))
    loop = simnet.VLoop()
    asyncio.set_event_loop(loop)
    mcases, outs, lines = [], [], []
    try:
        with no_network():
            for case in cases:
                # every history starts on a whole second of the virtual clock (deadlines are then exact binary fractions)
                loop._vt = float(int(loop._vt) + 2)
                res = loop.run_until_complete(run_history(loop, case))
                ctx.evaluations += 1
                ctx.nontrivial.add(("hist", case["controller"], pclass(case), str(case.get("cache")), tuple(tuple(x) for x in case["events"])))
                ctx.dist[f"histories:{case['family']}:{case['controller']}"] += 1
                ctx.dist[f"histories:pairing:{pclass(case)}"] += 1
                o, line = judge_history(ctx, case, res)
                if o is not None:
                    mcases.append(case)
                    outs.append(o)
                    lines.append(line)
                else:
                    ctx.dist["histories:tie-or-Y(impl-oracle-only)"] += 1
    finally:
        loop.close()
    ctx.sample(cases[0])
    ctx.sample(cases[-1])
    compare_with_model(ctx, "histories", mcases, outs, lines, driver)


# ---------------------------------------------------------------- restart: pairings from storage + zeroconf's own record cache and browser callback
def restart_expected(case):
    """harness bookkeeping of what the accessory announced and when the controller can know it (resolve debounce 0.5 s, an
    unanswered cache lookup costs one query round trip of 0.1 s)"""
    lag = 500 + (100 if case["resolve"] == "miss" else 0)   # "miss": the first announcement is not in the record cache yet when the debounce ends
    first = 0 if case["precached"] else 1000 + lag
    want = {1: f"found@{first}", 2: "found@5000", 3: "notfound@2000"}
    vals = [(3, 4, 0)]
    if case.get("update"):
        u = case["update"]
        vals.append((3 + u[0], 4 + u[1], u[2]))
    return want, vals


async def run_restart(loop, case, errors):
    import aiohomekit.zeroconf as zcmod
    from aiohomekit.controller.coap.controller import CoAPController
    from zeroconf import DNSCache, ServiceStateChange, SignalRegistrationInterface
    from zeroconf.asyncio import AsyncServiceInfo
    t0 = loop.time()
    answers = {}

    class BrowserStub:
        types = ["_hap._tcp.local.", "_hap._udp.local."]

        def __init__(self):
            self.service_state_changed = SignalRegistrationInterface([])

    class Info(AsyncServiceInfo):
        async def async_request(self, zc, timeout, *a, **k):
            # the network: one query, answered 0.1 s later with whatever the accessory announces at that time
            await asyncio.sleep(0.1)
            recs = answers.pop(self.name, None)
            if recs:
                zc.cache.async_add_records(recs)
            return self.load_from_cache(zc)
    azc = MagicMock(name="AsyncZeroconf")
    azc.zeroconf = MagicMock(name="Zeroconf")
    azc.zeroconf.cache = DNSCache()
    azc.zeroconf.listeners = [BrowserStub()]
    cls = IpController if case["controller"] == "ip" else CoAPController
    hap = cls.hap_type
    out, details, tasks = {}, {}, {}

    def records(c, s, ep):
        i = hist_mdns_info(IDS[7], c, s, ep, hap, True, False)
        return i.name, [*i.dns_addresses(), i.dns_pointer(), i.dns_service(), i.dns_text()]

    async def waiter(k, did, timeout):
        try:
            d = await ctl.async_find(did, timeout)
            out[k] = f"found@{round((loop.time() - t0) * 1000)}"
            details[k] = (d.description.id, d.description.config_num, d.description.state_num)
        except AccessoryNotFoundError:
            out[k] = f"notfound@{round((loop.time() - t0) * 1000)}"
        except Exception as e:  # noqa: BLE001
            out[k] = "exc:" + type(e).__name__

    def announce(c, s, ep, change, may_miss=False):
        name, recs = records(c, s, ep)
        if may_miss and case["resolve"] == "miss" and not case["precached"]:
            answers[name] = recs
        else:
            azc.zeroconf.cache.async_add_records(recs)
        try:
            ctl._handle_service(azc.zeroconf, hap, name, change)
        except Exception as ex:  # noqa: BLE001
            errors.append(("callback", "browser", type(ex).__name__, repr(ex)[:160]))

    def load():
        p = case["pairing"]
        pid = IDS[7].upper() if p.get("upper") else IDS[7].lower()
        try:
            ctl.load_pairing("alias", pairing_data_for("IP" if case["controller"] == "ip" else "CoAP", pid))
        except Exception as ex:  # noqa: BLE001
            errors.append(("load-pairing", case["controller"], type(ex).__name__, repr(ex)[:160]))
    with mock.patch.object(zcmod, "AsyncServiceBrowser", BrowserStub), mock.patch.object(zcmod, "AsyncServiceInfo", Info):
        ctl = cls(char_cache=hist_cache({"cache": case.get("cache"), "pairing": case.get("pairing")}), zeroconf_instance=azc)
        if case["precached"]:
            azc.zeroconf.cache.async_add_records(records(3, 4, 0)[1])
        if case.get("pairing") and case["pairing"]["when"] == "before":
            load()
        try:
            await ctl.async_start()
        except Exception as ex:  # noqa: BLE001
            errors.append(("callback", "async_start", type(ex).__name__, repr(ex)[:160]))
        if case.get("pairing") and case["pairing"]["when"] == "after":
            load()
        tasks[1] = asyncio.ensure_future(waiter(1, IDS[7], 30))
        tasks[3] = asyncio.ensure_future(waiter(3, IDS[8], 2))
        await asyncio.sleep(1)
        announce(3, 4, 0, ServiceStateChange.Updated if case["precached"] else ServiceStateChange.Added, may_miss=True)
        await asyncio.sleep(2)
        if case.get("update"):
            u = case["update"]
            announce(3 + u[0], 4 + u[1], u[2], ServiceStateChange.Updated)
        await asyncio.sleep(2)
        tasks[2] = asyncio.ensure_future(waiter(2, IDS[7].lower(), 5))
        await asyncio.sleep(1)
        d = ctl.discoveries.get(IDS[7].lower())
        recorded = None if d is None else (d.description.config_num, d.description.state_num, d.description.address, d.description.port)
        for k, t in tasks.items():
            if not t.done():
                out[k] = "pending"
        try:
            await ctl.async_stop()
        except Exception as ex:  # noqa: BLE001
            errors.append(("callback", "async_stop", type(ex).__name__, repr(ex)[:160]))
        me = asyncio.current_task()
        for _ in range(3):
            rest = [t for t in asyncio.all_tasks(loop) if t is not me and not t.done()]
            if not rest:
                break
            for t in rest:
                t.cancel()
            await asyncio.wait(rest, timeout=5)
    return out, details, recorded


def judge_restart(ctx, case, res, errors):
    out, details, recorded = res
    kind = case["controller"]
    want, vals = restart_expected(case)
    label = f"pairing: {case.get('pairing')}, cache: {case.get('cache')}, records cached before start: {case['precached']}, resolve: {case['resolve']}, update: {case.get('update')}"
    for what, via, exc, text in errors:
        if what == "callback":
            ctx.violation(f"callback/restart-{kind}/{exc}", f"{kind}: the mDNS browser callback chain ({via}) raised {text} ({label})", case)
        else:
            ctx.violation(f"load-pairing/restart-{kind}/{exc}", f"{kind}: load_pairing raised {text} ({label})", case)
    for k in sorted(want):
        if out.get(k) != want[k]:
            sig = f"waiter/restart-{kind}/" + ("not-woken" if want[k].startswith("found") else "wrong-outcome")
            ctx.violation(sig, f"{kind}: waiter {k} ended with {out.get(k)} but the property demands {want[k]} ({label})", case)
            break
    for k, (did, c, s) in details.items():
        if did != IDS[7].lower() or (c, s) not in [v[:2] for v in vals]:
            ctx.violation(f"waiter/restart-{kind}/wrong-discovery", f"{kind}: waiter {k} completed with a discovery for {did} c#={c} s#={s}, announced {vals} ({label})", case)
    c, s, ep = vals[-1]
    exp = (c, s, [a for a in EPS[ep][0] if a.startswith("10.")][0], EPS[ep][1])
    if recorded is None:
        ctx.violation(f"discovery/restart-{kind}/not-recorded", f"{kind}: no discovery recorded for the announced accessory ({label})", case)
    elif recorded != exp:
        ctx.violation(f"discovery/restart-{kind}/stale", f"{kind}: the discovery reports {recorded}, the accessory last announced {exp} ({label})", case)


def run_restart_case(ctx, loop, case):
    errors = []

    def on_loop_error(lp, context):
        ex = context.get("exception")
        errors.append(("callback", "loop callback", type(ex).__name__ if ex is not None else "error", (repr(ex) if ex is not None else str(context.get("message")))[:160]))
    loop._vt = float(int(loop._vt) + 2)
    loop.set_exception_handler(on_loop_error)
    try:
        res = loop.run_until_complete(run_restart(loop, case, errors))
    finally:
        loop.set_exception_handler(None)
    judge_restart(ctx, case, res, errors)


def restart_streams(ctx, rng):
    cases = []
    for kind in ("ip", "coap"):
        pairings = [None] + [{"when": w, "upper": u} for w in ("before", "after") for u in (True, False)]
        for p in pairings:
            caches = [None] if p is None else [None] + [{"c": 3 + dc, "s": s, "key": False} for dc in (-1, 0, 1) for s in (None, 4)]
            for cache in caches:
                for precached in (False, True):
                    for resolve in ("hit", "miss"):
                        for update in (None, [1, 0, 0], [0, 1, 0], [0, 0, 1], [0, 0, 2], [1, 1, 3]):
                            cases.append({"stream": "restart", "controller": kind, "pairing": p, "cache": cache, "precached": precached, "resolve": resolve, "update": update})
    n = ctx.budget(450, len(cases))
    if len(cases) > n:
        unpaired = [c for c in cases if c["pairing"] is None]
        cases = unpaired + rng.sample([c for c in cases if c["pairing"] is not None], n)
    loop = simnet.VLoop()
    asyncio.set_event_loop(loop)
    try:
        with no_network():
            for case in cases:
                run_restart_case(ctx, loop, case)
                ctx.evaluations += 1
                ctx.nontrivial.add(("restart", str(case)))
                ctx.dist[f"restart:{case['controller']}:{'paired-' + case['pairing']['when'] if case['pairing'] else 'unpaired'}"] += 1
    finally:
        loop.close()
    ctx.sample(cases[0])


# ---------------------------------------------------------------- cache-driven start: records of every age in zeroconf's own cache
# One case = {controller: ip | coap | aggregate, enter: start | with, reap: bool, services: [...], pairing, cache, events: [...]}.
#   service  {n: device number (CS_IDS), via: i (_hap._tcp) | c (_hap._udp), c, s, ep: what the accessory announces, upper: TXT keys in upper case,
#             ttl: [PTR, SRV, TXT, A/AAAA] seconds, age: [PTR, SRV, TXT, A/AAAA] milliseconds the record was received BEFORE the start (null = not in
#             the cache), online: the accessory answers a query, bad: null | noid | ll | c# | type (a malformed / foreign service: ignored)}
#   events   [W, at, k, n, timeout_ms, find | reachable]   waiter k starts waiting for device n (at = -1: BEFORE the start, else ms after it began)
#            [R, at, j, kinds]    service j's records of `kinds` (letters p s t a) are received again, unchanged (a refresh)
#            [U, at, j, dc, ds, ep]  the accessory of service j changes c# / s# / endpoint and announces all its records
#            [E, at]              zeroconf's cache reaper runs
# The harness's book (CsWorld) follows from what the harness itself put on the network and from zeroconf's rules only:
#   * at the start every service of the controller's type whose PTR, SRV, TXT and address records are all unexpired is a valid advertisement
#     the start has to process: a waiter for its id is completed no later than the start (or its own registration);
#   * a browser event the stand-in delivered at t for a service whose SRV / TXT / address records are then unexpired is processed when the
#     0.5 s debounce ends; a query the controller itself sent for a service and that the accessory answered is processed with the answer;
#   * a service the controller knows of (valid PTR at the start, browser event later) whose other records are expired or missing is resolved
#     by one query (0.1 s round trip, as in the restart stream) when its accessory is on line;
#   * a device none of whose services is valid, whose accessory is silent and about which nothing arrives later must NOT wake anyone (bad
#     services never do); everything else (expired PTR still in the cache, a record expiring during the case, ...) may or may not.
HAP_TCP, HAP_UDP = "_hap._tcp.local.", "_hap._udp.local."
CS_HAP = {"i": HAP_TCP, "c": HAP_UDP}
CS_IDS = {7: IDS[7], 8: IDS[8], 9: "Aa:bB:cC:dD:eE:09", 10: "AA:BB:CC:DD:EE:0A", 11: "aa:bb:cc:dd:ee:0b"}
CS_KINDS = ("ptr", "srv", "txt", "a")
CS_LETTER = {"p": "ptr", "s": "srv", "t": "txt", "a": "a"}
CS_GUARD = 3000     # ms of real time a case may take; a record that expires inside this window is neither valid nor expired for the oracle
CS_TTLS = [[4500, 120, 4500, 120], [120, 120, 120, 120], [75, 60, 30, 17], [4500, 4500, 4500, 4500], [86400, 3600, 7200, 240], [10, 10, 10, 10], [4500, 120, 120, 4500], [600, 4500, 60, 4500]]
CS_LABELS = ["0", "1s", "25", "h-", "h", "h+", "60", "75", "90", "late", "x", "x+", "xx", "old", "-"]
CS_VALID = CS_LABELS[:10]
CS_COVERED = {"ip": (HAP_TCP,), "coap": (HAP_UDP,), "aggregate": (HAP_TCP, HAP_UDP)}


def cs_age(label, ttl):
    """age in ms of a record of the given TTL (s) for an age class; the classes below expiry leave the record CS_GUARD + 1 s to live and
    "just below half" stays below half for as long (real time passes between filling the cache and the start: a margin of 1 ms would not replay)"""
    ms = ttl * 1000
    late = ms - CS_GUARD - 1000
    a = {"0": 0, "1s": 1000, "25": ms // 4, "h-": ms // 2 - CS_GUARD - 1000, "h": ms // 2, "h+": ms // 2 + 1, "60": ms * 6 // 10, "75": ms * 3 // 4, "90": ms * 9 // 10,
         "late": late, "x": ms, "x+": ms + 1, "xx": ms * 3 // 2, "old": ms * 3, "-": None}[label]
    if a is not None and a < ms:
        a = max(0, min(a, late))
    return a


def cs_vals(svc):
    return (svc["c"], svc["s"], [a for a in EPS[svc["ep"]][0] if a.startswith("10.")][0], EPS[svc["ep"]][1])


def cs_name(svc):
    return f"dev{svc['n']:02d}.{CS_HAP[svc['via']]}"


def cs_records(svc, stamps):
    """zeroconf's own record objects for what the accessory of `svc` announces; stamps = {kind: (created_ms, ttl_s)} -> {kind: [records]}"""
    from zeroconf import DNSAddress, DNSPointer, DNSService, DNSText
    from zeroconf.asyncio import AsyncServiceInfo
    hap = CS_HAP[svc["via"]]
    out = {}
    if svc.get("bad") == "type":
        # a pointer under the HAP type whose instance name belongs to another service type
        if "ptr" in stamps:
            out["ptr"] = [DNSPointer(hap, 12, 1, stamps["ptr"][1], f"dev{svc['n']:02d}._http._tcp.local.", stamps["ptr"][0])]
        return out
    addrs, port = EPS[svc["ep"]][:2]
    props = {"id": CS_IDS[svc["n"]], "c#": str(svc["c"]), "s#": str(svc["s"]), "sf": "0", "ff": "0", "ci": "5", "md": "m"}
    bad = svc.get("bad")
    if bad == "noid":
        del props["id"]
    elif bad == "ll":
        addrs = ["169.254.7.7", "fe80::7"]
    elif bad == "c#":
        props["c#"] = "x"
    if svc.get("upper"):
        props = {k.upper(): v for k, v in props.items()}
    info = AsyncServiceInfo(hap, cs_name(svc), addresses=[ipaddress.ip_address(a).packed for a in addrs], port=port,
                            properties={k.encode(): v.encode() for k, v in props.items()}, weight=0, priority=0)

    def cls(r):
        return r.class_ | (0x8000 if r.unique else 0)
    if "ptr" in stamps:
        r = info.dns_pointer()
        out["ptr"] = [DNSPointer(r.name, r.type, cls(r), stamps["ptr"][1], r.alias, stamps["ptr"][0])]
    if "srv" in stamps:
        r = info.dns_service()
        out["srv"] = [DNSService(r.name, r.type, cls(r), stamps["srv"][1], r.priority, r.weight, r.port, r.server, stamps["srv"][0])]
    if "txt" in stamps:
        r = info.dns_text()
        out["txt"] = [DNSText(r.name, r.type, cls(r), stamps["txt"][1], r.text, stamps["txt"][0])]
    if "a" in stamps:
        out["a"] = [DNSAddress(r.name, r.type, cls(r), stamps["a"][1], r.address, scope_id=r.scope_id, created=stamps["a"][0]) for r in info.dns_addresses()]
    return out


class CsWorld:
    """The network side of a cache-start case - what every accessory announces, zeroconf's record cache, a stand-in for zeroconf's service
    browser (Added / Updated / Removed by zeroconf's own rules) - and the harness's book of what the controller has been given."""

    def __init__(self, loop, case, errors):
        from zeroconf import DNSCache, ServiceStateChange, current_time_millis
        from zeroconf._services import Signal
        self.loop, self.case, self.errors = loop, case, errors
        self.t0 = loop.time()
        self.clock = current_time_millis
        self.change = ServiceStateChange
        self.cache = DNSCache()
        self.signal = Signal()
        self.zc = mock.Mock(name="Zeroconf")
        self.zc.cache = self.cache
        self.svcs = [dict(s) for s in case["services"]]
        self.by_name = {}
        for j, s in enumerate(self.svcs):
            self.by_name[cs_name(s).lower()] = j
            if s.get("bad") == "type":
                self.by_name[f"dev{s['n']:02d}._http._tcp.local."] = j
        self.state = [dict.fromkeys(CS_KINDS, "absent") for _ in self.svcs]
        self.book = [{"avail": None, "vals": None, "may": False, "amb": False, "touched": False, "announced": [cs_vals(s)]} for s in self.svcs]
        self.covered = CS_COVERED[case["controller"]]
        self.started = False
        self.reach_tasks = set()
        self.queries = self.fired = 0
        self.now0 = None

    def vnow(self):
        return round((self.loop.time() - self.t0) * 1000)

    # ---- the book
    def complete(self, j):
        return not self.svcs[j].get("bad") and all(self.state[j][k] == "valid" for k in ("srv", "txt", "a"))

    def resolvable(self, j):
        """the cache holds no complete valid record set for the service, but its accessory answers the one query that takes (0.1 s)"""
        return not self.svcs[j].get("bad") and self.svcs[j]["online"] and not any(self.state[j][k] == "amb" for k in ("srv", "txt", "a"))

    def processed(self, j, t):
        if CS_HAP[self.svcs[j]["via"]] not in self.covered:
            return
        b = self.book[j]
        b["avail"] = t if b["avail"] is None else min(b["avail"], t)
        b["vals"] = cs_vals(self.svcs[j])

    # ---- the cache before the start
    def fill(self):
        self.now0 = now0 = self.clock()
        for j, s in enumerate(self.svcs):
            stamps = {k: (now0 - s["age"][i], s["ttl"][i]) for i, k in enumerate(CS_KINDS) if s["age"][i] is not None}
            recs = cs_records(s, stamps)
            for k, rs in recs.items():
                expiry = stamps[k][0] + stamps[k][1] * 1000
                self.state[j][k] = "valid" if expiry > now0 + CS_GUARD else "expired" if expiry <= now0 else "amb"
                if self.state[j][k] == "amb":
                    self.book[j]["may"] = self.book[j]["amb"] = True
                self.cache.async_add_records(rs)

    def at_start(self):
        """the advertisements the start finds valid in the cache"""
        for j in range(len(self.svcs)):
            st = self.state[j]
            if st["ptr"] == "valid" and self.complete(j):
                self.processed(j, self.vnow())
            elif st["ptr"] == "valid" and self.resolvable(j):
                self.processed(j, self.vnow() + 100)
            elif st["ptr"] in ("expired", "amb") and not self.svcs[j].get("bad"):
                self.book[j]["may"] = True      # the pointer has expired but is still in the cache
        self.started = True

    # ---- zeroconf's side
    def _service_of(self, rec):
        return self.by_name.get((rec.alias if rec.type == 12 else rec.name).lower())

    def fire(self, pend):
        for (name, type_), change in pend.items():
            j = self.by_name.get(name.lower())
            if self.started and j is not None and change is not self.change.Removed and type_ in self.covered and (self.complete(j) or self.resolvable(j)):
                self.processed(j, self.vnow() + (500 if self.complete(j) else 600))
            self.fired += 1
            try:
                self.signal.fire(zeroconf=self.zc, service_type=type_, name=name, state_change=change)
            except Exception as ex:  # noqa: BLE001
                self.errors.append(("callback", "browser", type(ex).__name__, repr(ex)[:160]))

    @staticmethod
    def _enqueue(pend, change, type_, name, ch):
        key = (name, type_)
        if change is ch.Added or (change is ch.Removed and pend.get(key) is not ch.Added) or (change is ch.Updated and key not in pend):
            pend[key] = change

    def reap(self):
        """zeroconf's periodic cache cleanup: expired records leave the cache, an expired pointer is reported as Removed"""
        pend = {}
        for rec in self.cache.async_expire(self.clock()):
            j = self._service_of(rec)
            if j is not None:
                kind = {12: "ptr", 33: "srv", 16: "txt"}.get(rec.type, "a")
                self.state[j][kind] = "absent"
            if rec.type == 12 and rec.name in (HAP_TCP, HAP_UDP):
                self._enqueue(pend, self.change.Removed, rec.name, rec.alias, self.change)
        self.fire(pend)

    def deliver(self, recs):
        """records arrive from the network: RecordManager.async_updates_from_response + ServiceBrowser.async_update_records"""
        ch = self.change
        now = self.clock()
        pend = {}
        flat = [r for rs in recs.values() for r in rs]
        for r in flat:
            old = self.cache.get(r)
            if r.type == 12:
                if old is None:
                    self._enqueue(pend, ch.Added, r.name, r.alias, ch)
                elif r.is_expired(now):
                    self._enqueue(pend, ch.Removed, r.name, r.alias, ch)
                continue
            if old is not None or r.is_expired(now):
                continue
            names = [x.name for x in self.cache.async_entries_with_server(r.name)] if r.type in (1, 28) else [r.name]
            for name in names:
                for type_ in (HAP_TCP, HAP_UDP):
                    if name.endswith(type_):
                        self._enqueue(pend, ch.Updated, type_, name, ch)
        # a unique record set replaces what was cached under the same name and type (RFC 6762 10.2)
        for k, rs in recs.items():
            if k != "ptr" and rs:
                stale = [x for x in self.cache.async_all_by_details(rs[0].name, rs[0].type, rs[0].class_) if x not in rs]
                if k == "a":
                    stale += [x for x in self.cache.async_all_by_details(rs[0].name, 28 if rs[0].type == 1 else 1, rs[0].class_) if x not in rs]
                if stale:
                    self.cache.async_remove_records(stale)
        self.cache.async_add_records([r for r in flat if r.type in (1, 28)])
        self.cache.async_add_records([r for r in flat if r.type not in (1, 28)])
        self.fire(pend)

    def announce(self, j, kinds):
        """the accessory of service j sends its current records of `kinds`"""
        s = self.svcs[j]
        now = self.clock()
        recs = cs_records(s, {k: (now, s["ttl"][CS_KINDS.index(k)]) for k in kinds})
        for k in recs:
            self.state[j][k] = "valid"
        self.book[j]["touched"] = True
        self.deliver(recs)

    def change_values(self, j, dc, ds, ep):
        s = self.svcs[j]
        s["c"], s["s"], s["ep"] = s["c"] + dc, s["s"] + ds, ep
        self.book[j]["announced"].append(cs_vals(s))
        self.announce(j, CS_KINDS)

    async def answer(self, info):
        """the network: one query for a service, answered 0.1 s later by an accessory that is on line.  Returns whether the answer is an
        advertisement the controller asked for itself in order to process it (a reachability probe of a caller is not)"""
        self.queries += 1
        probe = asyncio.current_task() in self.reach_tasks
        await asyncio.sleep(0.1)
        j = self.by_name.get(info.name.lower())
        if j is not None and self.svcs[j]["online"] and self.svcs[j].get("bad") != "type":
            self.announce(j, CS_KINDS)
            if self.complete(j) and not probe:
                self.processed(j, self.vnow())

    # ---- verdict per device
    def device(self, n):
        js = [j for j, s in enumerate(self.svcs) if s["n"] == n and CS_HAP[s["via"]] in self.covered]
        avails = [self.book[j]["avail"] for j in js if self.book[j]["avail"] is not None]
        never = []
        for j in js:
            s, b, st = self.svcs[j], self.book[j], self.state[j]
            never.append(bool(s.get("bad")) or (b["avail"] is None and not b["amb"] and not b["touched"] and not s["online"] and any(st[k] in ("expired", "absent") for k in ("srv", "txt", "a"))))
        return {"avail": min(avails) if avails else None, "never": all(never),
                "announced": [v[:2] for j in js for v in self.book[j]["announced"]]}


async def run_cache_start(loop, case, errors):
    import aiohomekit.controller.ble.controller as blemod
    import aiohomekit.zeroconf as zcmod
    from aiohomekit.controller.coap.controller import CoAPController
    from zeroconf.asyncio import AsyncServiceInfo
    kind = case["controller"]
    world = CsWorld(loop, case, errors)

    class BrowserStub:
        types = [HAP_TCP, HAP_UDP]

        def __init__(self):
            self.service_state_changed = world.signal.registration_interface

    class ScannerStub:
        discovered_devices_and_advertisement_data = {}

        def __init__(self, detection_callback=None, **kw):
            self.detection_callback = detection_callback

        async def start(self):
            return None

        async def stop(self):
            return None

    class Info(AsyncServiceInfo):
        async def async_request(self, zc, timeout, *a, **k):
            await world.answer(self)
            return self.load_from_cache(zc)
    azc = mock.Mock(name="AsyncZeroconf")
    azc.zeroconf = world.zc
    world.zc.listeners = [BrowserStub()]
    out, details, starts, tasks = {}, {}, {}, {}
    pairing = case.get("pairing")
    stack = contextlib.AsyncExitStack()

    def load():
        pid = CS_IDS[7].upper() if pairing.get("upper") else CS_IDS[7].lower()
        try:
            if loader("alias", pairing_data_for(pairing["conn"], pid)) is None:
                errors.append(("load-pairing", pairing["conn"], "None", "load_pairing returned no pairing"))
        except Exception as ex:  # noqa: BLE001
            errors.append(("load-pairing", pairing["conn"], type(ex).__name__, repr(ex)[:160]))

    async def waiter(k, n, timeout, api):
        did = CS_IDS[n].lower() if k % 2 else CS_IDS[n].upper()
        try:
            if api == "reachable":
                ok = await ctl.async_reachable(did, timeout / 1000)
                out[k] = ("found@" if ok is True else "notfound@" if ok is False else f"odd:{ok!r}@") + str(world.vnow())
            else:
                d = await ctl.async_find(did, timeout / 1000)
                if d is None:
                    out[k] = "none"
                else:
                    out[k] = f"found@{world.vnow()}"
                    details[k] = (d.description.id, d.description.config_num, d.description.state_num)
        except AccessoryNotFoundError:
            out[k] = f"notfound@{world.vnow()}"
        except asyncio.CancelledError:
            out[k] = "cancelled"
            raise
        except Exception as e:  # noqa: BLE001
            out[k] = "exc:" + type(e).__name__

    def start_waiter(ev):
        _, _, k, n, timeout, api = ev
        if k in tasks:
            return
        starts[k] = (world.vnow(), n, timeout, api)
        tasks[k] = asyncio.ensure_future(waiter(k, n, timeout, api))
        if api == "reachable":
            world.reach_tasks.add(tasks[k])
    with mock.patch.object(zcmod, "AsyncServiceBrowser", BrowserStub), mock.patch.object(zcmod, "AsyncServiceInfo", Info), mock.patch.object(blemod, "BleakScanner", ScannerStub):
        world.fill()
        if case.get("reap"):
            world.reap()
        cache = hist_cache({"cache": case.get("cache"), "pairing": pairing})
        if kind == "aggregate":
            ctl = Controller(async_zeroconf_instance=azc, char_cache=cache)
        else:
            ctl = (IpController if kind == "ip" else CoAPController)(char_cache=cache, zeroconf_instance=azc)
        loader = ctl.load_pairing
        if pairing and pairing["when"] == "before":
            load()
        events = sorted(case["events"], key=lambda e: e[1])
        for ev in events:
            if ev[0] == "W" and ev[1] < 0:
                start_waiter(ev)
        for _ in range(case.get("gap", 6)):
            await asyncio.sleep(0)
        world.at_start()
        try:
            if case.get("enter") == "with":
                await stack.enter_async_context(ctl)
            else:
                await ctl.async_start()
                stack.push_async_callback(ctl.async_stop)
        except Exception as ex:  # noqa: BLE001
            errors.append(("callback", "async_start", type(ex).__name__, repr(ex)[:160]))
        if pairing and pairing["when"] == "after":
            load()
        for _ in range(6):
            await asyncio.sleep(0)
        last = 0
        for ev in events:
            if ev[1] < 0:
                continue
            target = world.t0 + ev[1] / 1000
            if target > loop.time():
                await asyncio.sleep(target - loop.time())
            last = max(last, world.vnow())
            if ev[0] == "W":
                start_waiter(ev)
            elif ev[0] == "R":
                world.announce(ev[2], [CS_LETTER[x] for x in ev[3]])
            elif ev[0] == "U":
                world.change_values(ev[2], ev[3], ev[4], ev[5])
            elif ev[0] == "E":
                world.reap()
            for _ in range(6):
                await asyncio.sleep(0)
        end = max([last + 1300] + [ts + to + 700 for ts, _, to, _ in starts.values()])
        if world.t0 + end / 1000 > loop.time():
            await asyncio.sleep(world.t0 + end / 1000 - loop.time())
        for _ in range(6):
            await asyncio.sleep(0)
        recorded = []
        try:
            async for d in ctl.async_discover():
                ds = d.description
                recorded.append((ds.id, ds.config_num, ds.state_num, getattr(ds, "address", None), getattr(ds, "port", None), getattr(ds, "type", None)))
        except Exception as ex:  # noqa: BLE001
            errors.append(("callback", "async_discover", type(ex).__name__, repr(ex)[:160]))
        for k, t in tasks.items():
            if not t.done():
                out[k] = "pending"
        try:
            await stack.aclose()
        except Exception as ex:  # noqa: BLE001
            errors.append(("callback", "async_stop", type(ex).__name__, repr(ex)[:160]))
        me = asyncio.current_task()
        for _ in range(3):
            rest = [t for t in asyncio.all_tasks(loop) if t is not me and not t.done()]
            if not rest:
                break
            for t in rest:
                t.cancel()
            await asyncio.wait(rest, timeout=5)
    slow = world.clock() - world.now0 >= CS_GUARD - 500
    return out, details, starts, recorded, world, slow


def judge_cache_start(ctx, case, res, errors):
    out, details, starts, recorded, world, slow = res
    kind = case["controller"]
    if slow:
        # the case took longer in real time than the oracle's guard: what was valid may have expired meanwhile - nothing is judged
        ctx.dist["cache-start:inconclusive(slow)"] += 1
        return
    sv = [{k: s[k] for k in ("n", "via", "ttl", "age", "online", "bad")} for s in case["services"]]
    label = f"cache before the start: {sv} (ages in ms, TTLs in s, record order PTR/SRV/TXT/address), reaper ran: {bool(case.get('reap'))}, pairing: {case.get('pairing')}, events: {case['events']}"
    for what, via, exc, text in errors:
        if what == "callback":
            ctx.violation(f"callback/cache-start-{kind}/{exc}", f"{kind}: {via} raised {text} ({label})", case)
        else:
            ctx.violation(f"load-pairing/cache-start-{kind}/{exc}", f"{kind}: load_pairing raised {text} ({label})", case)
    for k in sorted(starts):
        ts, n, to, api = starts[k]
        dl = ts + to
        o = out.get(k, "pending")
        dev = world.device(n)
        did = CS_IDS[n].lower()
        bound = None if dev["avail"] is None else max(ts, dev["avail"])
        if not (o.startswith("found@") or o.startswith("notfound@")):
            ctx.violation(f"waiter/cache-start-{kind}/{o.split('@')[0]}", f"{kind}: waiter {k} ({api}) for {did} ended with {o} ({label})", case)
            break
        t = int(o.split("@")[1])
        if o.startswith("notfound@"):
            if bound is not None and bound < dl:
                ctx.violation(f"waiter/cache-start-{kind}/not-woken", f"{kind}: waiter {k} ({api}, registered at {ts} ms, timeout {to} ms) for {did} failed with not-found at {t} ms although a valid "
                              f"advertisement for that id was there to be processed at {dev['avail']} ms ({label})", case)
                break
            if t != dl:
                ctx.violation(f"waiter/cache-start-{kind}/wrong-outcome", f"{kind}: waiter {k} ({api}) for {did} failed with not-found at {t} ms, its timeout is at {dl} ms ({label})", case)
                break
        else:
            if dev["never"]:
                ctx.violation(f"waiter/cache-start-{kind}/woken-without-advertisement", f"{kind}: waiter {k} ({api}) for {did} was completed at {t} ms although no valid advertisement for that id exists ({label})", case)
                break
            if t > dl or (bound is not None and bound < dl and t > bound):
                ctx.violation(f"waiter/cache-start-{kind}/woken-late", f"{kind}: waiter {k} ({api}, registered at {ts} ms) for {did} was completed at {t} ms; the valid advertisement was there to be "
                              f"processed at {dev['avail']} ms, the timeout at {dl} ms ({label})", case)
                break
        if k in details and (details[k][0] != did or details[k][1:] not in dev["announced"]):
            ctx.violation(f"waiter/cache-start-{kind}/wrong-discovery", f"{kind}: waiter {k} for {did} was completed with a discovery for {details[k][0]} c#={details[k][1]} s#={details[k][2]}; "
                          f"announced (c#, s#): {dev['announced']} ({label})", case)
            break
    # what the controller was given is what it reports
    for j, s in enumerate(world.svcs):
        b = world.book[j]
        if b["avail"] is None or b["may"]:
            continue
        did = CS_IDS[s["n"]].lower()
        mine = [r for r in recorded if r[0] == did and r[5] in (None, CS_HAP[s["via"]])]
        if not mine:
            ctx.violation(f"discovery/cache-start-{kind}/not-recorded", f"{kind}: no discovery is reported for {did} although its valid advertisement was there to be processed at {b['avail']} ms ({label})", case)
            break
        if not any(r[1:5] == b["vals"] for r in mine):
            ctx.violation(f"discovery/cache-start-{kind}/stale", f"{kind}: the discovery of {did} reports {mine}, the accessory last announced {b['vals']} ({label})", case)
            break


def run_cache_start_case(ctx, loop, case):
    errors = []

    def on_loop_error(lp, context):
        # an exception that escaped a loop callback (the debounce timer, a call_soon'd callback).  A task whose exception nobody retrieved is
        # not one: the aggregate's async_find leaves the not-found of its other transports behind when two of them finish in one iteration
        if "handle" not in context:
            return
        ex = context.get("exception")
        errors.append(("callback", "loop callback", type(ex).__name__ if ex is not None else "error", (repr(ex) if ex is not None else str(context.get("message")))[:160]))
    loop._vt = float(int(loop._vt) + 2)
    loop.set_exception_handler(on_loop_error)
    try:
        res = loop.run_until_complete(run_cache_start(loop, case, errors))
    finally:
        loop.set_exception_handler(None)
    judge_cache_start(ctx, case, res, errors)
    return res


def cs_service(n, via, ttl, age, online=True, bad=None, c=3, s=4, ep=0, upper=False):
    return {"n": n, "via": via, "c": c, "s": s, "ep": ep, "upper": upper, "ttl": list(ttl), "age": list(age), "online": online, "bad": bad}


def cs_followup(rng, j, n, k0):
    """what may happen after the start: unchanged refreshes, a change, the reaper, late waiters (announcements at least 0.75 s apart)"""
    ev, t, k = [], 300, k0
    for _ in range(rng.randrange(1, 4)):
        t += rng.choice([750, 1000, 1900])
        r = rng.random()
        if r < 0.45:
            ev.append(["R", t, j, rng.choice(["p", "psta", "psta", "a", "sa", "t", "pt", "s"])])
        elif r < 0.75:
            ev.append(["U", t, j, *rng.choice([(1, 0, 0), (0, 1, 0), (0, 0, 1), (0, 0, 2), (1, 1, 3), (0, 2, 0)])])
        else:
            ev.append(["E", t])
        if rng.random() < 0.5 and k <= 6:
            ev.append(["W", t + rng.choice([0, 150, 450, 520, 640]), k, n, rng.choice([300, 2000, 6000]), "find"])
            k += 1
    return ev


def gen_cache_start(ctx, rng):
    cases = []
    # (1) one record kind of one service walks through every age class, the other kinds fresh or of any valid age; a fresh control
    #     service and an id nobody advertises next to it
    m = 0
    ttls = CS_TTLS if ctx.thorough() else CS_TTLS[:5]
    for kind in ("ip", "coap", "aggregate"):
        for ttl in ttls:
            for i in range(4):
                for lab in CS_LABELS:
                    m += 1
                    via = {"ip": "i", "coap": "c"}.get(kind) or "ic"[m % 2]
                    age = [cs_age("0" if m % 2 else rng.choice(CS_VALID), ttl[x]) for x in range(4)]
                    age[i] = cs_age(lab, ttl[i])
                    services = [cs_service(7, via, ttl, age, online=bool((m // 2) % 2), upper=bool(m % 3 == 0)),
                                cs_service(8, via, CS_TTLS[0], [0, 0, 0, 0], c=1, s=1, ep=1)]
                    before = kind != "aggregate" and (m // 4) % 2 == 0
                    api = "reachable" if kind != "aggregate" and m % 5 == 0 else "find"
                    ev = [["W", -1 if before else 200, 1, 7, 2000, api], ["W", -1 if before and m % 3 else 250, 2, 8, 2000, "find"], ["W", 200, 3, 9, 300, "find"]]
                    if m % 3 == 0:
                        ev += [["R", 1000, 0, "psta"[i]], ["W", 1450, 4, 7, 2000, "find"]]
                    cases.append({"stream": "cache-start", "family": f"walk:{CS_KINDS[i]}:{lab}", "controller": kind, "enter": "with" if m % 4 == 0 else "start", "reap": m % 7 == 0,
                                  "gap": 0 if m % 5 == 1 else 6, "services": services, "pairing": None, "cache": None, "events": ev})
    # (2) a whole response received at one instant: every record has the same age, the TTLs differ
    for kind in ("ip", "coap", "aggregate"):
        for ttl in (CS_TTLS[0], CS_TTLS[4]):
            marks = sorted({0, 1000} | {t * f + d for t in set(ttl) for f, d in ((500, -CS_GUARD - 1000), (500, 0), (500, 1), (1000, -CS_GUARD - 1000), (1000, 0), (1000, 1), (750, 0), (2000, 0))})
            for age in marks:
                for online in (True, False):
                    m += 1
                    via = {"ip": "i", "coap": "c"}.get(kind) or "ic"[m % 2]
                    before = kind != "aggregate" and m % 2 == 0
                    cases.append({"stream": "cache-start", "family": "one-instant", "controller": kind, "enter": "start", "reap": m % 5 == 0, "gap": 6,
                                  "services": [cs_service(7, via, ttl, [max(0, age)] * 4, online=online)], "pairing": None, "cache": None,
                                  "events": [["W", -1 if before else 200, 1, 7, 2000, "find"], ["W", 1450, 2, 7, 300, "find"]]})
    # (3) the pointer arrives after the start (browser: Added): the debounce then finds the other records in the cache at every age
    for kind in ("ip", "coap", "aggregate"):
        for ttl in (CS_TTLS[0], CS_TTLS[2]) if not ctx.thorough() else CS_TTLS:
            for i in (1, 2, 3):
                for lab in CS_LABELS:
                    for online in (True, False):
                        m += 1
                        via = {"ip": "i", "coap": "c"}.get(kind) or "ic"[m % 2]
                        age = [cs_age("0" if m % 2 else rng.choice(CS_VALID), ttl[x]) for x in range(4)]
                        age[0] = None if m % 3 else cs_age("xx", ttl[0])
                        age[i] = cs_age(lab, ttl[i])
                        before = kind != "aggregate" and (m // 2) % 2 == 0
                        cases.append({"stream": "cache-start", "family": f"late-pointer:{CS_KINDS[i]}:{lab}", "controller": kind, "enter": "start", "reap": m % 3 == 0, "gap": 6,
                                      "services": [cs_service(7, via, ttl, age, online=online, upper=bool(m % 5 == 0))], "pairing": None, "cache": None,
                                      "events": [["W", -1 if before else 200, 1, 7, 6000, "find"], ["R", 1000, 0, "p"], ["W", 1000 + rng.choice([0, 150, 450, 520, 640, 900]), 2, 7, 2000, "find"]]})
    # (4) random caches: 1..4 services, every record of its own age, valid / malformed / foreign-type services mixed, pairing loaded or not
    for _ in range(ctx.budget(800, 12000)):
        kind = rng.choice(["ip", "ip", "coap", "aggregate", "aggregate"])
        own = {"ip": "i", "coap": "c"}.get(kind)
        services = []
        for n in rng.sample([7, 7, 8, 9, 10], rng.randrange(1, 5)):
            if any(s["n"] == n for s in services):
                continue
            vias = [own if rng.random() < 0.85 else ("c" if own == "i" else "i")] if own else rng.choice([["i"], ["c"], ["i", "c"]])
            for via in vias:
                ttl = rng.choice(CS_TTLS)
                if rng.random() < 0.3:
                    a0 = rng.choice([0, 1000, 59000, 61000, 100000, 119000, 121000, 2249000, 2251000, 4000000, 4499000, 4501000, 9000000])
                    age = [a0] * 4
                else:
                    age = [cs_age(rng.choice(CS_VALID if rng.random() < 0.7 else CS_LABELS), ttl[x]) for x in range(4)]
                services.append(cs_service(n, via, ttl, age, online=rng.random() < 0.5, bad=rng.choice([None] * 14 + ["noid", "ll", "c#", "type"]),
                                           c=rng.randrange(1, 5), s=rng.randrange(1, 5), ep=rng.randrange(len(EPS)), upper=rng.random() < 0.3))
        ev, k = [], 1
        for n in rng.sample([7, 8, 9, 10, 11], rng.randrange(1, 4)):
            at = -1 if kind != "aggregate" and rng.random() < 0.5 else rng.choice([200, 250, 700])
            ev.append(["W", at, k, n, rng.choice([300, 2000, 6000]), "reachable" if kind != "aggregate" and rng.random() < 0.25 else "find"])
            k += 1
        if rng.random() < 0.6:
            j = rng.randrange(len(services))
            ev += cs_followup(rng, j, services[j]["n"], k)
        pairing = None
        if rng.random() < 0.25 and any(s["n"] == 7 for s in services):
            conn = {"ip": "IP", "coap": "CoAP"}.get(kind) or rng.choice(["IP", "CoAP"])
            pairing = {"conn": conn, "upper": rng.random() < 0.5, "when": "after" if kind == "aggregate" else rng.choice(["before", "after"])}
        cases.append({"stream": "cache-start", "family": "random", "controller": kind, "enter": rng.choice(["start", "with"]), "reap": rng.random() < 0.3, "gap": rng.choice([0, 1, 6]),
                      "services": services, "pairing": pairing, "cache": ({"c": rng.randrange(1, 5), "s": rng.choice([None, 2]), "key": False} if pairing and rng.random() < 0.6 else None),
                      "events": ev})
    return cases


async def cs_lifecycle_probes(loop, notes):
    """two lifecycles outside the generated ones, observed and noted only (never judged): the SAME mDNS controller object stopped and
    started again, and a caller of the aggregate controller that waits before async_start"""
    import aiohomekit.zeroconf as zcmod
    from zeroconf.asyncio import AsyncServiceInfo
    world = CsWorld(loop, {"controller": "ip", "services": [cs_service(7, "i", CS_TTLS[0], [None] * 4)], "events": []}, [])

    class BrowserStub:
        types = [HAP_TCP, HAP_UDP]

        def __init__(self):
            self.service_state_changed = world.signal.registration_interface

    class Info(AsyncServiceInfo):
        async def async_request(self, zc, timeout, *a, **k):
            await world.answer(self)
            return self.load_from_cache(zc)
    azc = mock.Mock(name="AsyncZeroconf")
    azc.zeroconf = world.zc
    world.zc.listeners = [BrowserStub()]
    with mock.patch.object(zcmod, "AsyncServiceBrowser", BrowserStub), mock.patch.object(zcmod, "AsyncServiceInfo", Info):
        world.fill()
        world.started = True
        ctl = IpController(char_cache=CharacteristicCacheMemory(), zeroconf_instance=azc)
        await ctl.async_start()
        await ctl.async_stop()
        await ctl.async_start()
        t = asyncio.ensure_future(ctl.async_find(CS_IDS[7], 5))
        await asyncio.sleep(1)
        world.announce(0, CS_KINDS)
        try:
            await t
            notes.append(f"cache-start probe: the same IpController object stopped and started again - a waiter pending when the accessory announces itself 1 s later is completed at {world.vnow()} ms")
        except AccessoryNotFoundError:
            notes.append(f"cache-start probe (observed, not judged): the same IpController object stopped and started again - browser events delivered to the re-registered handler are dropped "
                         f"(_running stays False after async_stop), a waiter pending when the accessory announces itself at 1000 ms fails with not-found at {world.vnow()} ms")
        await ctl.async_stop()
        top = Controller(async_zeroconf_instance=azc, char_cache=CharacteristicCacheMemory())
        t0 = world.vnow()
        try:
            await top.async_find(CS_IDS[7], 5)
        except AccessoryNotFoundError:
            if world.vnow() - t0 < 5000:
                notes.append(f"cache-start probe (observed, not judged): Controller.async_find before Controller.async_start (no transport registered yet) fails with not-found after {world.vnow() - t0} ms, "
                             "not at its 5000 ms timeout")


def cache_start_streams(ctx, rng):
    cases = gen_cache_start(ctx, rng)
    loop = simnet.VLoop()
    asyncio.set_event_loop(loop)
    try:
        with no_network():
            for case in cases:
                res = run_cache_start_case(ctx, loop, case)
                world = res[4]
                ctx.evaluations += 1
                ctx.nontrivial.add(("cache-start", str(case)))
                ctx.dist[f"cache-start:{case['family'].split(':')[0]}:{case['controller']}"] += 1
                for j, s in enumerate(world.svcs):
                    b = world.book[j]
                    if CS_HAP[s["via"]] in world.covered:
                        ctx.dist["cache-start:service:" + ("malformed" if s.get("bad") else "must-be-found" if b["avail"] is not None else "either" if not world.device(s["n"])["never"] else "must-not-be-found")] += 1
                ctx.dist["cache-start:queries-sent"] += world.queries
                ctx.dist["cache-start:browser-events"] += world.fired
            try:
                loop._vt = float(int(loop._vt) + 2)
                loop.run_until_complete(cs_lifecycle_probes(loop, ctx.notes))
            except Exception as ex:  # noqa: BLE001 - a probe, never a verdict
                ctx.notes.append(f"cache-start probe did not complete: {ex!r}"[:200])
    finally:
        loop.close()
    ctx.sample(cases[0])
    ctx.sample(cases[-1])


def replay(ctx, driver, c):
    n = len(ctx.violations)
    stream = c.get("stream")
    if stream == "waiter-micro":
        from harness.c19_micro import replay_micro
        r = replay_micro(ctx, driver, c)
        return [r] if r else []
    if stream not in ("histories", "restart", "waiters", "browser", "cache-start"):
        return None
    loop = simnet.VLoop()
    asyncio.set_event_loop(loop)
    try:
        with no_network():
            if stream == "histories":
                loop._vt = 2.0
                judge_history(ctx, c, loop.run_until_complete(run_history(loop, c)))
            elif stream == "restart":
                run_restart_case(ctx, loop, c)
            elif stream == "cache-start":
                run_cache_start_case(ctx, loop, c)
            elif stream == "waiters":
                evs = [ptok(t) for t in c["events"]]
                out, errors = loop.run_until_complete(run_schedule(loop, c["controller"], evs, c.get("pairing", "none")))
                if errors:
                    ctx.violation(f"callback/{c['controller']}/{c.get('pairing')}/{errors[0]}", f"detection callback raised {errors[0]}", c)
                if out != expected(evs):
                    ctx.violation(f"waiter/{c['controller']}/wrong-outcome", f"outcomes {out}, the property demands {expected(evs)}", c)
            else:
                evs = [ptok(t) for t in c["events"]]
                out, errors = loop.run_until_complete(run_browser_schedule(loop, evs))
                want = browser_expected(evs)[0]
                if errors:
                    ctx.violation(f"callback/browser/{errors[0]}", f"the browser callback raised {errors[0]}", c)
                if out != want:
                    ctx.violation("waiter/browser/wrong-outcome", f"outcomes {out}, the property demands {want}", c)
    finally:
        loop.close()
    return [v["signature"] + ": " + v["what"] for v in ctx.violations[n:]]
