"""C19 - device waiters are woken by advertisements; advertisement parsing is robust."""
from __future__ import annotations

import asyncio
import ipaddress
import itertools
import struct
from unittest import mock
from unittest.mock import MagicMock

try:
    import bleak  # noqa: F401
except Exception:  # noqa: BLE001
    pass

from harness import simnet
from harness.common import Ctx, Driver, compare_with_model, hx

from aiohomekit.characteristic_cache import CharacteristicCacheMemory
from aiohomekit.controller import Controller
from aiohomekit.controller.abstract import TransportType
from aiohomekit.controller.ble.controller import BleController
from aiohomekit.controller.ble.manufacturer_data import HomeKitAdvertisement
from aiohomekit.controller.ip.controller import IpController
from aiohomekit.exceptions import AccessoryNotFoundError
from aiohomekit.model import Accessories
from aiohomekit.model.characteristics import CharacteristicsTypes
from aiohomekit.model.services import ServicesTypes
from aiohomekit.zeroconf import HomeKitService

ID = "C19"
RULE = ("schedules over {waiter k starts with timeout t_k, advertisement for id x processed, waiter cancelled, clock advances} with 1..3 waiters and 1..2 ids, EXHAUSTIVE to depth 5 (quick) / 6 "
        "(thorough) on the mDNS controller, the BLE controller and the aggregate controller (virtual time), with no pairing / pairing with cached state / pairing without cached state loaded; "
        "TXT/address/manufacturer-data contents: every truncation of valid ones, random fields, upper/lower-case keys and ids, malformed numbers. non-trivial = distinct (controller, schedule) / input")
TRUSTED = ["zeroconf's AsyncServiceInfo accessors (duck-typed) and their IPv4-first ordering", "asyncio timers fire at their deadline under the virtual clock"]
ASSUMPTIONS = ["one model event = one harness action followed by running the loop to quiescence at that virtual time",
               "TXT numbers are plain decimal digit strings or non-numeric garbage (Python int()'s tolerance of sign/space/underscore is outside the model's domain)"]
EXPLANATION = "Lean theorems C19_* over the waiter automaton (woken, timeout, cancel, frame/order independence) and the two parsers; differential tie through IpController / BleController / Controller.async_find under virtual time"

IDS = {7: "AA:BB:CC:DD:EE:07", 8: "aa:bb:cc:dd:ee:08"}


class FakeInfo:
    def __init__(self, name, addrs, props, port=80, type_="_hap._tcp.local."):
        self.name = name + "." + type_
        self.type = type_
        self.port = port
        self._addrs = addrs
        self.decoded_properties = props

    def ip_addresses_by_version(self, v):
        return [ipaddress.ip_address(a) for a in self._addrs]


def mdns_info(did, upper_keys=False):
    props = {"id": did, "c#": "3", "s#": "1", "sf": "0", "ff": "0", "ci": "5", "md": "m"}
    if upper_keys:
        props = {k.upper(): v for k, v in props.items()}
    return FakeInfo("dev" + did[-2:], ["10.0.0.5"], props)


def ble_adv(did, gsn=1, cn=1, name="dev"):
    idb = bytes.fromhex(did.replace(":", ""))
    data = bytes([0x06, 0x31, 0x00]) + idb + struct.pack("<HHBB", 5, gsn, cn, 2) + b"\x01\x02\x03\x04"
    a = MagicMock()
    a.manufacturer_data = {76: data}
    a.rssi = -50
    d = MagicMock()
    d.name = name
    d.address = did.upper()
    return d, a


def cache_with(did):
    accs = Accessories.from_list([{"aid": 1, "services": [{"iid": 1000, "type": ServicesTypes.LIGHTBULB, "characteristics": [
        {"iid": 11, "type": CharacteristicsTypes.ON, "perms": ["pr", "pw", "ev"], "format": "bool", "value": False}]}]}])
    cache = CharacteristicCacheMemory()
    cache.async_create_or_update_map(did, 1, accs.serialize(), bytes(range(32)).hex(), 1)
    return cache


async def run_schedule(loop, kind, evs, pairing_state="none"):
    """evs: ('S', k, id, timeout_ms) | ('A', id) | ('C', k) | ('T', t_ms). Returns {k: outcome}, list of callback exceptions"""
    t0 = loop.time()
    errors = []
    tasks = {}
    if kind == "mdns":
        ctl = IpController(char_cache=CharacteristicCacheMemory(), zeroconf_instance=MagicMock())
        finder = ctl.async_find
    elif kind == "ble":
        cache = CharacteristicCacheMemory()
        if pairing_state == "cached":
            cache = cache_with(IDS[7])
        ctl = BleController(cache)
        if pairing_state != "none":
            ctl.load_pairing("alias", {"AccessoryPairingID": IDS[7], "AccessoryAddress": IDS[7], "Connection": "BLE", "iOSPairingId": "x", "iOSDeviceLTPK": "00" * 32})
        finder = ctl.async_find
    else:
        top = Controller(async_zeroconf_instance=MagicMock(), char_cache=CharacteristicCacheMemory())
        ipc_ = IpController(char_cache=top._char_cache, zeroconf_instance=MagicMock())
        blc = BleController(top._char_cache)
        top.transports[TransportType.IP] = ipc_
        top.transports[TransportType.BLE] = blc
        if pairing_state in ("ble-paired", "ip-paired"):
            # a pairing for the accessory most schedules wait for is loaded on ONE transport; advertisements keep arriving
            # on both (a Thread/BLE accessory that also shows up on the network, an IP accessory that also beacons)
            data = {"AccessoryPairingID": IDS[7], "iOSPairingId": "x", "iOSDeviceLTPK": "00" * 32, "iOSDeviceLTSK": "00" * 32, "AccessoryLTPK": "00" * 32}
            if pairing_state == "ble-paired":
                data.update({"AccessoryAddress": IDS[7], "Connection": "BLE"})
            else:
                data.update({"AccessoryIP": "10.0.0.9", "AccessoryIPs": ["10.0.0.9"], "AccessoryPort": 80, "Connection": "IP"})
            top.load_pairing("alias", data)
        finder = top.async_find
    out = {}

    async def waiter(k, did, timeout):
        try:
            d = await finder(did, timeout)
            out[k] = f"found@{round((loop.time() - t0) * 1000)}" if d is not None else "none"
        except AccessoryNotFoundError:
            out[k] = f"notfound@{round((loop.time() - t0) * 1000)}"
        except asyncio.CancelledError:
            out[k] = "cancelled"
            raise
        except Exception as e:  # noqa: BLE001
            out[k] = "exc:" + type(e).__name__
    n_adv = 0
    for ev in evs:
        if ev[0] == "S":
            # registration alternates between the two casings of the id
            did = IDS[ev[2]]
            did = did.lower() if ev[1] % 2 else did.upper()
            tasks[ev[1]] = asyncio.ensure_future(waiter(ev[1], did, ev[3] / 1000))
        elif ev[0] == "A":
            n_adv += 1
            did = IDS[ev[1]]
            try:
                if kind == "mdns":
                    ctl._async_handle_loaded_service_info(mdns_info(did, upper_keys=bool(n_adv % 2)))
                elif kind == "ble":
                    ctl._device_detected(*ble_adv(did.lower(), gsn=n_adv))
                else:
                    # alternate the transport that sees the device
                    if n_adv % 2:
                        ipc_._async_handle_loaded_service_info(mdns_info(did))
                    else:
                        blc._device_detected(*ble_adv(did.lower(), gsn=n_adv))
            except Exception as e:  # noqa: BLE001
                errors.append(type(e).__name__)
        elif ev[0] == "C":
            t = tasks.get(ev[1])
            if t and not t.done():
                t.cancel()
        elif ev[0] == "T":
            target = t0 + ev[1] / 1000
            if target > loop.time():
                await asyncio.sleep(target - loop.time())
        # run to quiescence at this instant
        for _ in range(6):
            await asyncio.sleep(0)
    pending = [k for k, t in tasks.items() if not t.done()]
    for k in pending:
        out[k] = "pending"
    for t in tasks.values():
        t.cancel()
    await asyncio.gather(*tasks.values(), return_exceptions=True)
    for k in pending:
        out[k] = "pending"
    return out, errors


def tok(ev):
    return ":".join(str(x) for x in ev)


def expected(evs):
    """the property, stated directly: a waiter ends with the first of {advertisement for its id (or already discovered at start), its own cancel, its deadline}"""
    now = 0
    discovered = set()
    pend = {}
    out = {}
    for ev in evs:
        if ev[0] == "S":
            if ev[2] in discovered:
                out[ev[1]] = f"found@{now}"
            else:
                pend[ev[1]] = (ev[2], now + ev[3])
        elif ev[0] == "A":
            discovered.add(ev[1])
            for k in [k for k, (i, _) in pend.items() if i == ev[1]]:
                out[k] = f"found@{now}"
                del pend[k]
        elif ev[0] == "C":
            if ev[1] in pend:
                out[ev[1]] = "cancelled"
                del pend[ev[1]]
        else:
            now = max(now, ev[1])
            for k in [k for k, (_, d) in pend.items() if d <= now]:
                out[k] = f"notfound@{pend[k][1]}"
                del pend[k]
    for k in pend:
        out[k] = "pending"
    return out


def gen_schedules(depth, rng, extra):
    alpha = [("S", 1, 7, 5000), ("S", 2, 7, 9000), ("S", 3, 8, 5000), ("A", 7), ("A", 8), ("C", 1), ("C", 3), ("T", 3000), ("T", 6000), ("T", 10000)]
    seqs = []
    for d in range(1, depth + 1):
        for seq in itertools.product(alpha, repeat=d):
            # each waiter starts at most once; time does not go backwards
            ks = [e[1] for e in seq if e[0] == "S"]
            ts = [e[1] for e in seq if e[0] == "T"]
            if len(ks) != len(set(ks)) or ts != sorted(ts) or len(set(ts)) != len(ts):
                continue
            if not any(e[0] == "S" for e in seq):
                continue
            seqs.append(list(seq))
    for _ in range(extra):
        n = rng.randrange(4, 14)
        seq = []
        started = set()
        t = 0
        for _ in range(n):
            r = rng.random()
            if r < 0.3 and len(started) < 3:
                k = rng.choice([x for x in (1, 2, 3) if x not in started])
                started.add(k)
                seq.append(("S", k, rng.choice([7, 8]), rng.choice([1000, 5000, 9000])))
            elif r < 0.55:
                seq.append(("A", rng.choice([7, 8])))
            elif r < 0.7:
                seq.append(("C", rng.choice([1, 2, 3])))
            else:
                t += rng.choice([500, 1000, 4000, 4500])
                seq.append(("T", t))
        if started:
            seqs.append(seq)
    return seqs


def run(ctx: Ctx, driver: Driver):
    rng = ctx.rng
    loop = simnet.VLoop()
    asyncio.set_event_loop(loop)
    depth = ctx.budget(4, 5)
    seqs = gen_schedules(depth, rng, ctx.budget(150, 3000))
    cases, outs, lines = [], [], []
    for kind in ("mdns", "ble", "aggregate"):
        sub = seqs if kind != "aggregate" else seqs[::3]
        for evs in sub:
            for pstate in ({"mdns": ("none",), "ble": ("none", "cached", "uncached"), "aggregate": ("none", "ble-paired", "ip-paired")}[kind]):
                if pstate != "none" and rng.random() < 0.6:
                    continue
                out, errors = loop.run_until_complete(run_schedule(loop, kind, evs, pstate))
                ctx.evaluations += 1
                case = {"stream": "waiters", "controller": kind, "pairing": pstate, "events": [tok(e) for e in evs]}
                ctx.nontrivial.add((kind, pstate, tuple(case["events"])))
                if errors:
                    ctx.violation(f"callback/{kind}/{pstate}/{errors[0]}", f"{kind} detection callback raised {errors[0]} (pairing state: {pstate})", case)
                for k, o in out.items():
                    if o.startswith("exc") or o == "none":
                        ctx.violation(f"waiter/{kind}/{o}", f"waiter {k} ended with {o}", case)
                    if o == "pending":
                        # a waiter still pending at the end must not be past its deadline
                        pass
                want = expected(evs)
                if out != want:
                    bad = sorted(k for k in set(out) | set(want) if out.get(k) != want.get(k))
                    k0 = bad[0]
                    sig = f"waiter/{kind}/" + ("not-woken" if str(want.get(k0)).startswith("found") else "wrong-outcome")
                    ctx.violation(sig, f"{kind}: waiter {k0} ended with {out.get(k0)} but the property demands {want.get(k0)} (schedule {[tok(e) for e in evs]})", case)
                s = " ".join(f"{k}={out[k]}" for k in sorted(out))
                cases.append(case)
                outs.append(s)
                lines.append("wt.run " + " ".join(tok(e) for e in evs))
                ctx.dist[f"waiters:{kind}"] += 1
    ctx.sample(cases[17])
    ctx.sample(cases[-1])
    compare_with_model(ctx, "waiters", cases, outs, lines, driver)
    browser_streams(ctx, driver, rng, loop)
    parse_streams(ctx, driver, rng)
    callback_robustness(ctx, rng, loop)
    loop.close()


# ---------------------------------------------------------------- the mDNS browser path (service state changes, 0.5 s resolve debounce)
def browser_expected(evs):
    """reference semantics of the browser callback: Added/Updated arms a 0.5 s resolve timer for the service unless one is
    pending; Removed cancels a pending one; when the timer fires the record is processed (= an advertisement for the id).
    Returns (outcomes per waiter, model events, tie) - tie = a timer fires at the very instant of a waiter's deadline."""
    now = 0
    timers = {}     # id -> fire time
    model = []
    flat = []       # ('S'|'A'|'C'|'T', ...) for the waiter reference
    tie = False
    deadlines = {}
    for ev in evs:
        if ev[0] == "S":
            flat.append(ev)
            deadlines[ev[1]] = now + ev[3]
        elif ev[0] in ("BA", "BU"):
            if ev[1] not in timers:
                timers[ev[1]] = now + 500
        elif ev[0] == "BR":
            timers.pop(ev[1], None)
        elif ev[0] == "C":
            flat.append(ev)
        elif ev[0] == "T":
            target = max(now, ev[1])
            for did, ft in sorted(timers.items(), key=lambda x: x[1]):
                if ft <= target:
                    if ft in deadlines.values():
                        tie = True
                    flat.append(("T", ft))
                    flat.append(("A", did))
                    del timers[did]
            flat.append(("T", target))
            now = target
    return expected(flat), flat, tie


async def run_browser_schedule(loop, evs):
    import aiohomekit.zeroconf as zcmod
    from zeroconf import ServiceStateChange
    t0 = loop.time()
    out = {}
    tasks = {}
    errors = []
    ctl = IpController(char_cache=CharacteristicCacheMemory(), zeroconf_instance=MagicMock())

    class Info(FakeInfo):
        def load_from_cache(self, zc, now=None):
            return True

    def mk_info(service_type, name):
        did = IDS[int(name.split(".")[0][-1])]
        i = mdns_info(did)
        return Info(i.name.split(".")[0], i._addrs, i.decoded_properties)

    async def waiter(k, did, timeout):
        try:
            d = await ctl.async_find(did, timeout)
            out[k] = f"found@{round((loop.time() - t0) * 1000)}" if d is not None else "none"
        except AccessoryNotFoundError:
            out[k] = f"notfound@{round((loop.time() - t0) * 1000)}"
        except asyncio.CancelledError:
            out[k] = "cancelled"
            raise
        except Exception as e:  # noqa: BLE001
            out[k] = "exc:" + type(e).__name__
    with mock.patch.object(zcmod, "AsyncServiceInfo", mk_info):
        for ev in evs:
            try:
                if ev[0] == "S":
                    tasks[ev[1]] = asyncio.ensure_future(waiter(ev[1], IDS[ev[2]], ev[3] / 1000))
                elif ev[0] in ("BA", "BU", "BR"):
                    change = {"BA": ServiceStateChange.Added, "BU": ServiceStateChange.Updated, "BR": ServiceStateChange.Removed}[ev[0]]
                    ctl._handle_service(MagicMock(), ctl.hap_type, f"dev{ev[1]}.{ctl.hap_type}", change)
                elif ev[0] == "C":
                    t = tasks.get(ev[1])
                    if t and not t.done():
                        t.cancel()
                elif ev[0] == "T":
                    target = t0 + ev[1] / 1000
                    if target > loop.time():
                        await asyncio.sleep(target - loop.time())
            except Exception as e:  # noqa: BLE001
                errors.append(type(e).__name__)
            for _ in range(6):
                await asyncio.sleep(0)
        pending = [k for k, t in tasks.items() if not t.done()]
        for t in tasks.values():
            t.cancel()
        await asyncio.gather(*tasks.values(), return_exceptions=True)
        for k in pending:
            out[k] = "pending"
        await ctl.async_stop() if hasattr(ctl, "_browser") else None
        for h in list(ctl._resolve_later.values()):
            h.cancel()
    return out, errors


def browser_streams(ctx, driver, rng, loop):
    alpha = [("S", 1, 7, 5000), ("S", 2, 7, 9000), ("BA", 7), ("BU", 7), ("BR", 7), ("BA", 8), ("dt", 200), ("dt", 400), ("dt", 700), ("dt", 3100)]
    depth = ctx.budget(5, 6)
    seqs = []
    for d in range(2, depth + 1):
        for seq in itertools.product(alpha, repeat=d):
            ks = [e[1] for e in seq if e[0] == "S"]
            if len(ks) != len(set(ks)) or not ks or not any(e[0] in ("BA", "BU") for e in seq):
                continue
            seqs.append(seq)
    if len(seqs) > ctx.budget(1500, 30000):
        seqs = rng.sample(seqs, ctx.budget(1500, 30000))
    cases, outs, lines = [], [], []
    skipped = 0
    for seq in seqs:
        now = 0
        evs = []
        for e in seq:
            if e[0] == "dt":
                now += e[1]
                evs.append(("T", now))
            else:
                evs.append(e)
        evs.append(("T", now + 12000))
        want, flat, tie = browser_expected(evs)
        if tie:
            skipped += 1
            continue
        out, errors = loop.run_until_complete(run_browser_schedule(loop, evs))
        ctx.evaluations += 1
        case = {"stream": "browser", "events": [tok(e) for e in evs]}
        ctx.nontrivial.add(("browser", tuple(case["events"])))
        if errors:
            ctx.violation(f"callback/browser/{errors[0]}", f"the browser callback raised {errors[0]}", case)
        if out != want:
            bad = sorted(k for k in set(out) | set(want) if out.get(k) != want.get(k))
            k0 = bad[0]
            sig = "waiter/browser/" + ("not-woken" if str(want.get(k0)).startswith("found") else "wrong-outcome")
            ctx.violation(sig, f"mDNS browser: waiter {k0} ended with {out.get(k0)} but the property demands {want.get(k0)} (service events {[tok(e) for e in evs]})", case)
        cases.append(case)
        outs.append(" ".join(f"{k}={out[k]}" for k in sorted(out)))
        lines.append("wt.run " + " ".join(tok(e) for e in flat))
        ctx.dist["browser"] += 1
    ctx.dist["browser:skipped-ties"] += skipped
    compare_with_model(ctx, "browser", cases, outs, lines, driver)


def parse_streams(ctx, driver, rng):
    # ---- BLE manufacturer data: every truncation of valid ones + random mutations
    cases, outs, lines = [], [], []
    valids = []
    for _ in range(ctx.budget(8, 60)):
        idb = bytes(rng.randrange(256) for _ in range(6))
        data = bytes([0x06, rng.randrange(256), rng.randrange(4)]) + idb + struct.pack("<HHBB", rng.randrange(40), rng.randrange(65536), rng.randrange(256), 2)
        if rng.random() < 0.6:
            data += bytes(rng.randrange(256) for _ in range(rng.choice([4, 4, 6, 1, 3])))
        valids.append(data)
    inputs = []
    for d in valids:
        inputs += [d[:k] for k in range(0, len(d) + 1)]
        for _ in range(4):
            b = bytearray(d)
            b[rng.randrange(len(b))] = rng.randrange(256)
            inputs.append(bytes(b))
    for data in inputs:
        ctx.evaluations += 1
        ctx.nontrivial.add(("ble-parse", data))
        case = {"stream": "ble-parse", "data": hx(data)}
        try:
            a = HomeKitAdvertisement.from_manufacturer_data("n", "AA", {76: data})
            out = f"{a.id.replace(':', '')} sf={int(a.status_flags)} ci={int(a.category)} s={a.state_num} c={a.config_num} sh={hx(a.setup_hash)}"
            if a.id != a.id.lower() or len(data) < 15:
                ctx.violation("parse/ble", f"accepted {hx(data)} as {a}", case)
        except ValueError:
            out = "ignored"
        except Exception as e:  # noqa: BLE001
            ctx.violation("parse/ble/" + type(e).__name__, f"from_manufacturer_data raised {type(e).__name__} on {hx(data)}", case)
            continue
        cases.append(case)
        outs.append(out)
        lines.append(f"wt.ble {hx(data)}")
    compare_with_model(ctx, "ble-parse", cases, outs, lines, driver)
    # ---- mDNS
    cases, outs, lines = [], [], []
    pool = [("o", "10.0.0.5"), ("o", "192.168.1.9"), ("l", "169.254.3.4"), ("u", "0.0.0.0"), ("o", "2001:db8::1"), ("l", "fe80::1"), ("u", "::")]
    for _ in range(ctx.budget(400, 8000)):
        v4 = [a for a in rng.sample(pool[:4], rng.randrange(0, 4))]
        v6 = [a for a in rng.sample(pool[4:], rng.randrange(0, 3))]
        addrs = v4 + v6  # zeroconf returns IPv4 first
        props = []
        did = rng.choice(["AA:BB:CC:DD:EE:FF", "aa:bb:cc:dd:ee:ff", "Aa:bB:00:11:22:33"])
        for key, val in (("id", did), ("c#", str(rng.randrange(100))), ("s#", str(rng.randrange(5))), ("sf", rng.choice(["0", "1"])), ("ff", rng.choice(["0", "1", "2"])), ("ci", str(rng.randrange(1, 30))), ("md", "Model")):
            r = rng.random()
            if r < 0.12:
                continue
            if r < 0.2:
                val = rng.choice(["abc", "", "x1", None])
            if rng.random() < 0.3:
                key = key.upper()
            props.append((key, val))
        ctx.evaluations += 1
        case = {"stream": "mdns-parse", "addrs": addrs, "props": props}
        ctx.nontrivial.add(("mdns-parse", tuple(addrs), tuple(props)))
        info = FakeInfo("dev", [a for _, a in addrs], dict(props))
        try:
            s = HomeKitService.from_service_info(info)
            out = f"{hx(s.id.encode())} {hx(s.address.encode())} {','.join(hx(a.encode()) for a in s.addresses)} c={s.config_num} s={s.state_num} ff={int(s.feature_flags)} sf={int(s.status_flags)} ci={int(s.category)}"
            usable = [a for k, a in addrs if k == "o"]
            if s.id != s.id.lower() or s.addresses != [str(ipaddress.ip_address(a)) for a in usable] or s.address != s.addresses[0]:
                ctx.violation("parse/mdns", f"record parsed to {s}", case)
        except ValueError:
            out = "ignored"
        except Exception as e:  # noqa: BLE001
            ctx.violation("parse/mdns/" + type(e).__name__, f"from_service_info raised {type(e).__name__}", case)
            continue
        # dict(props) keeps the last value of a repeated key; the model filters None values like the code
        dprops = list(dict(props).items())
        cases.append(case)
        outs.append(out)
        lines.append("wt.mdns " + " ".join(f"{k}~{hx(str(ipaddress.ip_address(a)).encode())}" for k, a in addrs) + " | " + " ".join(f"{hx(k.encode())}~{hx(v.encode()) if v is not None else 'none'}" for k, v in dprops))
    compare_with_model(ctx, "mdns-parse", cases, outs, lines, driver)


def callback_robustness(ctx, rng, loop):
    """no advertisement makes the scanner/browser callback raise, in any pairing-loaded state"""
    async def go():
        n = 0
        for pstate in ("none", "cached", "uncached"):
            cache = cache_with(IDS[7]) if pstate == "cached" else CharacteristicCacheMemory()
            ctl = BleController(cache)
            if pstate != "none":
                p = ctl.load_pairing("alias", {"AccessoryPairingID": IDS[7], "AccessoryAddress": IDS[7], "Connection": "BLE", "iOSPairingId": "x", "iOSDeviceLTPK": "00" * 32})
                p._process_disconnected_events = lambda: None
            idb = bytes.fromhex(IDS[7].replace(":", ""))
            good = bytes([0x06, 0x31, 0x00]) + idb + struct.pack("<HHBB", 5, 3, 1, 2) + b"\x01\x02\x03\x04"
            from harness.c18 import seal
            notif_unknown_iid = bytes([0x11, 0x36]) + idb + seal(2, 999, b"\x01", aid=idb)
            notif_known = bytes([0x11, 0x36]) + idb + seal(3, 11, b"\x01", aid=idb)
            payloads = [good[:k] for k in range(len(good) + 1)] + [notif_unknown_iid, notif_known, bytes([0x11]), bytes([0x11, 0x36]) + idb, b"", bytes([0x07, 1, 2]), bytes(rng.randrange(256) for _ in range(20))]
            shapes = [{76: data} for data in payloads] + [{}, {76: b""}, {77: good}, {76: b"", 77: good}, {6: b"\x06"}]
            for md in shapes:
                data = md.get(76, b"")
                a = MagicMock()
                a.manufacturer_data = md
                a.rssi = -50
                d = MagicMock()
                d.name = rng.choice(["dev", None, ""])
                d.address = IDS[7]
                n += 1
                try:
                    ctl._device_detected(d, a)
                except Exception as e:  # noqa: BLE001
                    ctx.violation(f"callback/ble/{pstate}/{type(e).__name__}", f"_device_detected raised {type(e).__name__} on {hx(data)[:60]} with pairing state {pstate}", {"stream": "callback", "pairing": pstate, "data": hx(data)})
                ctx.nontrivial.add(("callback", pstate, tuple(sorted(md)), data))
        # mDNS browser callback with malformed records and a loaded pairing
        ipctl = IpController(char_cache=CharacteristicCacheMemory(), zeroconf_instance=MagicMock())
        for props in ({}, {"id": None}, {"id": "AA:BB", "c#": "x"}, {"ID": "aa:bb:cc:dd:ee:07", "C#": "2"}, {"id": "aa:bb:cc:dd:ee:07", "ci": "abc"}, {"id": "aa:bb:cc:dd:ee:07", "sf": ""}):
            for addrs in ([], ["169.254.1.1"], ["0.0.0.0", "::"], ["10.0.0.1"], ["fe80::1", "10.0.0.2"]):
                n += 1
                try:
                    ipctl._async_handle_loaded_service_info(FakeInfo("dev", addrs, props))
                except Exception as e:  # noqa: BLE001
                    ctx.violation(f"callback/mdns/{type(e).__name__}", f"mDNS callback raised {type(e).__name__} on props={props} addrs={addrs}", {"stream": "callback", "props": {k: v for k, v in props.items()}, "addrs": addrs})
        return n
    ctx.evaluations += loop.run_until_complete(go())


def replay(ctx, driver, c):
    return None
