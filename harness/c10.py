"""C10 - reconnection keeps trying with bounded back-off and a single connector."""
from __future__ import annotations

from collections import Counter

from harness import rcsim
from harness.common import Ctx, Driver, compare_with_model, load_corpus, shrink_list

ID = "C10"
SIGS = {"attempt-while-connected", "two-connectors", "attempt-after-shutdown", "waiter-wrong-error", "waiter-unbounded", "retries-ended", "busy-loop", "backoff-too-short", "backoff-too-long", "address-excluded", "immediate-retry-same-address"}
RULE = ("fault sequences x schedules on the simulated network (virtual time, unpatched IpPairing/SecureHomeKitConnection against a scaffold accessory doing a real pair-verify): "
        "(A) EVERY sequence of pair-verify outcome classes {success, wrong pairing id, authentication error, other error, no answer} up to length 3 (quick) / 5 (thorough) "
        "x 1..3 advertised addresses x TCP outcomes {refused, timeout, connects to k-th address}, concrete accessory behaviour per class drawn from "
        "{bad signature, error TLV 1..7 at M2/M4, peer close at M1/M3, HTTP 470, malformed public key}; (B) EVERY schedule up to depth 3 (quick) / 4 (thorough) over "
        "{ensure-connection with/without own timeout, cancel caller, advance 0.75 s / 12 s, zeroconf update same/changed addresses, close, shutdown, accessory drops a connection, a reply that makes the request layer abandon the session (malformed JSON, HTTP 470)}; "
        "(C) random mixed histories incl. hour-long runs that reach the 60 s cap. non-trivial = distinct (addresses, history)")
TRUSTED = ["harness/simnet.py virtual-time loop and in-memory transport follow the asyncio contracts the code relies on", "harness/acc.py scaffold accessory (pair-verify via `cryptography`)",
           "aiohappyeyeballs.start_connection / loop.create_connection are replaced by the simulated network", "async_interrupt wakes the sleeping connector within the same virtual instant"]
ASSUMPTIONS = ["one model event = one harness action followed by running the loop to quiescence at that virtual instant",
               "timers that fall on the same virtual instant: a waiting caller's deadline is processed before the connector's timer (the caller's cancellation is requested before the connector task can finish); the harness uses odd-unit caller timeouts so other ties do not arise",
               "address lists are single-family: IPv4 literals, or (every fifth history) scoped link-local IPv6 addresses that the socket reports in another textual form, so that _normalize_host is exercised; happy-eyeballs interleaving across families is outside the model"]
EXPLANATION = ("Lean theorems C10_* over the supervisor automaton HapVerif.Reconnect (back-off table and bounds, single connector, what ends the retries, immediate retries need a new exclusion, every round after a sleep "
               "targets all addresses, waiting callers bounded and harmless, silence after close/shutdown) + constants regenerated from source + differential tie on attempt times/targets, census, waiter outcomes")


def cases_for(ctx):
    rng = ctx.rng
    cases = []
    for c in load_corpus(ID):
        cases.append((c["hosts"], c["events"], "corpus"))
    for h, e in rcsim.gen_fault_sequences(rng, ctx.budget(3, 5), sample=ctx.budget(None, 4000)):
        cases.append((h, e, "fault-seq"))
    for h, e in rcsim.gen_schedules(rng, ctx.budget(3, 4), sample=ctx.budget(700, 8000)):
        cases.append((h, e, "schedule"))
    for _ in range(ctx.budget(600, 12000)):
        h, e = rcsim.gen_random(rng)
        cases.append((h, e, "random"))
    for _ in range(ctx.budget(60, 1200)):
        h, e = rcsim.gen_random(rng, long_run=True)
        cases.append((h, e, "random-long"))
    return cases


def run_cases(ctx: Ctx, driver: Driver, pid, sigs, cases):
    impl, lines, cs = [], [], []
    cls = Counter()
    minimized = {}
    maxv = 0.0
    for i, (hosts, events, kind) in enumerate(cases):
        family = "v6" if (i % 5 == 4 and kind != "corpus") else "v4"
        sim = rcsim.run_scenario(hosts, events, seed=ctx.seed * 1000003 + i, family=family)
        ctx.dist["family:" + family] += 1
        ctx.evaluations += 1
        ctx.nontrivial.add((tuple(hosts), tuple(events)))
        ctx.dist["kind:" + kind] += 1
        ctx.dist["hosts:%d" % len(hosts)] += 1
        for e in events:
            f = e.split(":")
            ctx.dist["ev:" + (f[0] if f[0] != "v" else "v:" + f[1])] += 1
        ctx.dist["attempts"] += sim.stats.get("attempts", 0)
        ctx.dist["connections"] += sim.stats.get("connections", 0)
        maxv = max(maxv, sim.stats.get("virtual_seconds", 0))
        case = {"stream": "supervisor", "hosts": hosts, "events": events, "kind": kind, "seed": ctx.seed * 1000003 + i, "family": family}
        seen = set()
        for sig, text in sim.problems:
            if sig in sigs and sig not in seen:
                seen.add(sig)
                vcase = dict(case)
                if sig not in minimized and len(minimized) < 4:
                    # shrink the first history of each kind to a minimal one that still fails the same way
                    small = shrink_list(events, lambda evs, sig=sig: any(s2 == sig for s2, _ in rcsim.run_scenario(hosts, evs, seed=vcase["seed"], family=vcase["family"]).problems))
                    minimized[sig] = small
                    vcase["minimized_events"] = small
                    text = text + f" [minimal history: {' '.join(small)}]"
                ctx.violation(f"ip/{sig}", text, vcase)
        cs.append(case)
        impl.append(" ; ".join(x.strip() for x in sim.lines))
        lines.append(rcsim.model_line_of(hosts, sim))
    ctx.dist["max_virtual_seconds"] = int(maxv)
    if cs:
        ctx.sample(cs[min(7, len(cs) - 1)])
        ctx.sample(cs[-1])
    compare_with_model(ctx, "supervisor", cs, impl, lines, driver, canon=lambda s: " ; ".join(x.strip() for x in s.split(" ; ")))


def run(ctx: Ctx, driver: Driver):
    run_cases(ctx, driver, ID, SIGS, cases_for(ctx))
    ctx.notes.append("attempt timestamps are compared exactly (units of 1/8192 s); the observation after every event includes the open-connection census, the connector state, the task census, "
                     "the excluded-address set and every waiting caller's outcome and completion time")


def replay(ctx: Ctx, driver: Driver, case):
    run_cases(ctx, driver, ID, SIGS, [(case["hosts"], case["events"], "replay")])  # family follows the case index rule


def search(ctx: Ctx, driver: Driver, broken):
    """the tie is broken: look for an implementation-level failure on a wider, deeper set of histories"""
    rng = ctx.rng
    cases = [(h, e, "search") for h, e in (rcsim.gen_random(rng, long_run=(i % 5 == 0)) for i in range(ctx.budget(3000, 30000)))]
    run_cases(ctx, driver, ID, SIGS, cases)
