"""C10 - reconnection keeps trying with bounded back-off and a single connector."""
from __future__ import annotations

from collections import Counter

from harness import rcsim
from harness.common import Ctx, Driver, compare_with_model, load_corpus, shrink_list

ID = "C10"
SIGS = {"attempt-while-connected", "two-connectors", "attempt-after-shutdown", "waiter-wrong-error", "waiter-unbounded", "retries-ended", "busy-loop", "backoff-too-short", "backoff-too-long", "address-excluded", "immediate-retry-same-address",
        "attempt-after-close", "update-raised", "backoff-not-growing"}
RULE = ("fault sequences x schedules on the simulated network (virtual time, unpatched IpPairing/SecureHomeKitConnection against a scaffold accessory doing a real pair-verify): "
        "(A) EVERY sequence of pair-verify outcome classes {success, wrong pairing id, authentication error, other error, no answer} up to length 3 (quick) / 5 (thorough) "
        "x 1..3 advertised addresses x TCP outcomes {refused, timeout, connects to k-th address}, concrete accessory behaviour per class drawn from "
        "{bad signature, error TLV 1..7 at M2/M4, peer close at M1/M3, HTTP 470, malformed public key}; (B) EVERY schedule up to depth 3 (quick) / 4 (thorough) over "
        "{ensure-connection with/without own timeout, cancel caller, advance 0.75 s / 12 s, zeroconf update same/changed addresses, close, shutdown, accessory drops a connection, a reply that makes the request layer abandon the session (malformed JSON, HTTP 470)}; "
        "(C) random mixed histories incl. hour-long runs that reach the 60 s cap; "
        "(D) composite events - two or three actions issued back-to-back in ONE event-loop iteration (or 1..4 bare iterations apart), which 'one event, then quiescence' cannot produce: EVERY ordered pair over "
        "{close, shutdown, ensure-connection, a public request (get_characteristics), zeroconf update same/changed addresses, cancel caller, accessory drops a connection} in EVERY phase of the supervisor "
        "{idle, connected, TCP connect in flight, pair-verify unanswered, asleep in the back-off, ended by authentication failure, closed, closed while retrying, session lost}, spaced pairs, triples, and random histories "
        "with composite events spliced in; the Lean model has no composite event, so these histories are tied to the model only up to their first composite event and judged by the implementation-level oracles after it "
        "(single connector AT EVERY INSTANT - seen when the library creates the task - , census, waiter outcomes, silence after a close that covers every request made before it was called, never anything after shutdown; "
        "a request made WHILE a close is in progress may be ordered either way); "
        "(E) a sample of histories run with a damaged / altered pairing record (see C11); "
        "(F) request-carrying callers - sessions with 1..3 OVERLAPPING public requests of IpPairing (get/put_characteristics, list_accessories_and_characteristics, subscribe, unsubscribe, identify, list_pairings, image, "
        "async_populate_accessories_state; one on the wire, the others queued on the request slot) x {accessory answers at once, keeps its answers, answers late} x {what the next attempts meet: connects at once, refused once / three times, "
        "TCP time-out, reset in pair-verify, pair-verify unanswered, wrong pairing id, dropped at the first request} x {the session ends by: accessory close, accessory reset, 30 s request time-out, close(), cancellation of the caller on the wire, "
        "its own time-out, a zeroconf update, not at all} issued in the same loop iteration / a few iterations / an event / a pause later - every combination (thorough) or a sample of 150 (quick) - and random histories over that alphabet; "
        "judged by the same oracles plus: an accepted TCP connection on which the accessory has received nothing after 31 s while the pairing is not connected = the retries have ended; "
        "(G) zeroconf THROUGH THE SERVICE BROWSER of the real IpController that owns the pairing (load_pairing; ZeroconfController._handle_service with Added / Updated / Removed, 0.5 s resolve debounce, the harness fills and empties the "
        "record cache) on an address-aware network (a connect succeeds only to an address the accessory really has): {Added, Updated} x {goodbye 0.1 / 0.4 s later - inside the debounce - , 0.6 s later, none} x {session up and dropped, never reached} "
        "x {away 0.2 / 5 / 100 s} x {back on the same addresses, another address, an added address, partly moved} x {Added, Updated} - every combination (thorough) or a sample of 150 (quick) - and random mDNS lives (flapping, moves, power cuts, callers, "
        "requests, closes); `address-excluded` is judged against what the HARNESS announced through the browser (every announced address is tried within longest-list+1 rounds begun more than 1 s after the announcement). "
        "(H) callers that KEEP ASKING while every attempt fails - an accessory that stays unreachable for minutes (every connect refused / unanswered, every pair-verify spoilt, or reachable nowhere) x 8..70 callers arriving one per period "
        "(0.25 s .. 61 s: faster than, as fast as, slower than the caller's bounded 10 s wait) through _ensure_connected with / without their own time-out, get_characteristics or any other public request, some cancelled half a period later, "
        "after a lead time of 0 .. 300 s (back-off young .. at its cap), now and then a zeroconf update in between; judged - like EVERY history of every stream - by the LOWER bound of the delay, across events, from the network's own record "
        "of the attempts: unless zeroconf reported the device, something was closed, a session that had come up was lost or the accessory may have answered with an authentication error in between, an attempt that does not just move "
        "on to other addresses starts no earlier than 0.75 s after the failed attempt before it came to rest (`backoff-too-short`) and no earlier than the delay before it in the same streak of failures, up to the 60 s cap "
        "(`backoff-not-growing`) - a caller asking for the connection is no reason to retry early; "
        "(I) a sample of the close sweeps of C11 (a close / shutdown / cancel / drop / update in EVERY loop iteration of a connection set-up, measured per phase). "
        "non-trivial = distinct (addresses, history, record, subscriptions)")
TRUSTED = ["(stream G) the zeroconf record cache is a real DNSCache filled and emptied by the harness the way the mDNS listener would; AsyncServiceInfo.async_request is replaced by a cache lookup (no multicast query is ever sent); "
           "an unscripted TCP connect succeeds iff one of its targets is an address the accessory has at that moment",
           "(stream F) the scaffold accessory serves a small accessory database and answers / keeps / releases application requests as scripted",
           "harness/simnet.py virtual-time loop and in-memory transport follow the asyncio contracts the code relies on", "harness/acc.py scaffold accessory (pair-verify via `cryptography`)",
           "aiohappyeyeballs.start_connection / loop.create_connection are replaced by the simulated network", "async_interrupt wakes the sleeping connector within the same virtual instant",
           "the task factory of the simulated loop sees every task the library creates; connector tasks are recognised by their coroutine (`_reconnect`), as in the census at quiescence"]
ASSUMPTIONS = ["(lower bound of the delay) a failed attempt 'came to rest' at the last instant at which the simulated network saw it do anything (its TCP connect ended, the controller wrote on its connection, its connection was lost); "
               "the delay is counted from there to the start of the next attempt; a zeroconf update that arrived at any time during the round of attempts before it excuses an early retry; after a close, the loss of an established session, "
               "a session that came up, or an exchange the accessory may have ended with an authentication error (its scripted behaviour is an authentication error TLV, or it was honest and no session came up) the streak starts anew",
               "(streams F, G) application requests and browser callbacks have no model event: such a history is tied to the model up to the first of them and judged by the implementation-level oracles after it",
               "(stream G) an announcement made through the service browser counts as known to the pairing one second after the callback (the resolve debounce is 0.5 s); within that second a reconnect it hastens, "
               "or a re-opening of a pairing that was closed, is correct in either order; a list handed to the pairing directly (`d`) replaces the browser's as the reference",
               "(stream F) the first attempt after the loss of a session that had come up (request time-out, caller's own time-out with its request on the wire) is not a back-off retry",
               "one model event = one harness action followed by running the loop to quiescence at that virtual instant (composite events, stream D, are outside the model: implementation-level oracles only)",
               "a request for the connection made after close() was called but before it returned is concurrent with the close: the close may cover it (nothing runs afterwards) or it may count as a new request (the pairing re-opens) - "
               "the unchanged library does either, depending on how far the close has got; what is demanded in both cases is a single connector at every instant, the census, bounded waits and no request surviving a shutdown",
               "timers that fall on the same virtual instant: a waiting caller's deadline is processed before the connector's timer (the caller's cancellation is requested before the connector task can finish); the harness uses odd-unit caller timeouts so other ties do not arise",
               "address lists are single-family: IPv4 literals, or (every fifth history) scoped link-local IPv6 addresses that the socket reports in another textual form, so that _normalize_host is exercised; happy-eyeballs interleaving across families is outside the model"]
EXPLANATION = ("Lean theorems C10_* over the supervisor automaton HapVerif.Reconnect (back-off table and bounds, single connector, what ends the retries, immediate retries need a new exclusion, every round after a sleep "
               "targets all addresses, waiting callers bounded and harmless, silence after close/shutdown) + constants regenerated from source + differential tie on attempt times/targets, census, waiter outcomes")


def cases_for(ctx):
    rng = ctx.rng
    cases = []
    for c in load_corpus(ID):
        cases.append((c["hosts"], c["events"], "corpus"))
    for h, e in rcsim.gen_fault_sequences(rng, ctx.budget(3, 5), sample=ctx.budget(None, 4000)):
        cases.append((h, e, "fault-seq"))
    for h, e in rcsim.gen_schedules(rng, ctx.budget(3, 4), sample=ctx.budget(700, 8000)):
        cases.append((h, e, "schedule"))
    for _ in range(ctx.budget(600, 12000)):
        h, e = rcsim.gen_random(rng)
        cases.append((h, e, "random"))
    for _ in range(ctx.budget(60, 1200)):
        h, e = rcsim.gen_random(rng, long_run=True)
        cases.append((h, e, "random-long"))
    cases += composite_cases(ctx, ctx.budget(150, 3000), ctx.budget(120, 3000), ctx.budget(100, 3000))
    for h, e, rec in rcsim.gen_record_histories(rng, ctx.budget(40, 1500)):
        cases.append((h, e, "record", {"record": rec}))
    cases += session_cases(ctx, ctx.budget(100, 4000), ctx.budget(150, None))
    cases += [(h, e, kind) for h, e, kind in rcsim.gen_polling_histories(rng, ctx.budget(150, 1500))]
    cases += rcsim.gen_close_sweeps(rng, sample=ctx.budget(150, 1500))
    return cases


def session_cases(ctx, n_random, grid_sample):
    """streams F (request-carrying callers) and G (zeroconf through the service browser of the real controller)"""
    out = [(h, e, "requests-" + sub) for h, e, sub in rcsim.gen_request_histories(ctx.rng, n_random, grid_sample)]
    out += [(h, e, "browser-" + sub, {"family": "v4"}) for h, e, sub in rcsim.gen_browser_histories(ctx.rng, n_random, grid_sample)]
    return out


def composite_cases(ctx, n_spaced, n_triples, n_random):
    return [(h, e, "composite-" + kind, {"phase": phase}) for h, e, kind, phase in rcsim.gen_composites(ctx.rng, n_spaced, n_triples, n_random)]


def run_cases(ctx: Ctx, driver: Driver, pid, sigs, cases):
    impl, lines, cs = [], [], []
    cls = Counter()
    minimized = {}
    maxv = 0.0
    for i, tup in enumerate(cases):
        hosts, events, kind = tup[:3]
        extra = tup[3] if len(tup) > 3 else {}
        record = extra.get("record")
        subs = extra.get("subs")  # the subscriptions to restore in every new session (None = the default, one characteristic)
        family = extra.get("family") or ("v6" if (i % 5 == 4 and kind != "corpus") else "v4")
        seed = extra["seed"] if extra.get("seed") is not None else ctx.seed * 1000003 + i
        sim = rcsim.run_scenario(hosts, events, seed=seed, family=family, record=record, subs=subs)
        ctx.dist["family:" + family] += 1
        ctx.evaluations += 1
        ctx.nontrivial.add(((tuple(hosts), tuple(events)) if record is None else (tuple(hosts), tuple(events), record)) + (() if subs is None else (tuple(map(tuple, subs)),)))
        ctx.dist["kind:" + kind] += 1
        ctx.dist["hosts:%d" % len(hosts)] += 1
        if record is not None:
            ctx.dist["record:" + record] += 1
        if extra.get("phase"):
            ctx.dist["composite-in-phase:" + extra["phase"]] += 1
        if subs is not None:
            ctx.dist["subscriptions-to-restore:%d-on-%d-accessories" % (len(subs), len({a for a, _ in subs}))] += 1
        if extra.get("sweep"):
            sw = extra["sweep"]
            ctx.dist["sweep-phase:%s(window=%d)" % (sw["phase"], sw["window"])] += 1
            ctx.dist["sweep-action:" + sw["action"]] += 1
            ctx.dist["sweep-offset:%d" % sw["offset"]] += 1
        if kind.startswith("polling"):
            ctx.dist["polling:callers"] += sum(1 for e in events if e[0] in "egr" and e[1] == ":")
            ctx.dist["polling:zeroconf-updates-in-between"] += sum(1 for e in events if e == "s" or e.startswith("d:"))
        for e in events:
            reqs = [x.split(":")[2] for x in e.split("+") if x.startswith("r:")]
            if reqs:
                ctx.dist["overlapping-requests:%d" % len(reqs)] += 1
                for a in reqs:
                    ctx.dist["request-api:" + a] += 1
            if "+" in e:
                ctx.dist["ev:composite"] += 1
                acts = [x.split(":")[0] for x in e.split("+")]
                ctx.dist["composite:" + "+".join(a for a in acts if a != ".")] += 1
                ctx.dist["composite-gap:%d" % acts.count(".")] += 1
                continue
            f = e.split(":")
            ctx.dist["ev:" + (f[0] if f[0] != "v" else "v:" + f[1])] += 1
        if sim.stats.get("record_refused"):
            ctx.dist["record-refused-at-construction:" + sim.stats["record_refused"]] += 1
        for key in ("requests", "secure_sessions_lost", "browser_callbacks", "removed_in_debounce"):
            if sim.stats.get(key):
                ctx.dist["session:" + key] += sim.stats[key]
        ctx.dist["attempts"] += sim.stats.get("attempts", 0)
        ctx.dist["connections"] += sim.stats.get("connections", 0)
        maxv = max(maxv, sim.stats.get("virtual_seconds", 0))
        case = {"stream": "supervisor", "hosts": hosts, "events": events, "kind": kind, "seed": seed, "family": family}
        if record is not None:
            case["record"] = record
        if subs is not None:
            case["subs"] = subs
        seen = set()
        for sig, text in sim.problems:
            if sig not in sigs:
                ctx.dist["other-oracle:" + sig] += 1  # the other property's business (C10 <-> C11), or noted only
            if sig in sigs and sig not in seen:
                seen.add(sig)
                vcase = dict(case)
                if sig not in minimized and len(minimized) < 4:
                    # shrink the first history of each kind to a minimal one that still fails the same way
                    small = shrink_list(events, lambda evs, sig=sig: any(s2 == sig for s2, _ in rcsim.run_scenario(hosts, evs, seed=vcase["seed"], family=vcase["family"], record=record, subs=subs).problems))
                    minimized[sig] = small
                    vcase["minimized_events"] = small
                    text = text + f" [minimal history: {' '.join(small)}]"
                if record is not None:
                    text = text + f" [pairing record variant: {record}]"
                ctx.violation(f"ip/{sig}", text, vcase)
        upto = sim.model_upto
        if upto is not None:
            # composite events / an unscripted connection under a record that cannot work: the model speaks about the history before that
            ctx.dist["model-tie-prefix-only"] += 1
            if upto == 0:
                continue
        cs.append(case)
        impl.append(" ; ".join(x.strip() for x in sim.lines[:upto]))
        lines.append("rc.run " + ",".join(str(h) for h in hosts) + " " + " ".join(sim.model_events[:upto]))
    ctx.dist["max_virtual_seconds"] = int(maxv)
    if cs:
        ctx.sample(cs[min(7, len(cs) - 1)])
        ctx.sample(cs[-1])
    compare_with_model(ctx, "supervisor", cs, impl, lines, driver, canon=lambda s: " ; ".join(x.strip() for x in s.split(" ; ")))


def run(ctx: Ctx, driver: Driver):
    run_cases(ctx, driver, ID, SIGS, cases_for(ctx))
    ctx.notes.append("attempt timestamps are compared exactly (units of 1/8192 s); the observation after every event includes the open-connection census, the connector state, the task census, "
                     "the excluded-address set and every waiting caller's outcome and completion time")


def replay_tuple(case):
    """the case as run_cases takes it: same addresses, history, pairing-record variant, address family and accessory key seed"""
    return (case["hosts"], case["events"], "replay", {"record": case.get("record"), "family": case.get("family"), "seed": case.get("seed"), "subs": case.get("subs")})


def replay(ctx: Ctx, driver: Driver, case):
    n = len(ctx.violations)
    run_cases(ctx, driver, ID, SIGS, [replay_tuple(case)])
    return [v["signature"] + ": " + v["what"] for v in ctx.violations[n:]]


def search(ctx: Ctx, driver: Driver, broken):
    """the tie is broken: look for an implementation-level failure on a wider, deeper set of histories"""
    rng = ctx.rng
    cases = [(h, e, "search") for h, e in (rcsim.gen_random(rng, long_run=(i % 5 == 0)) for i in range(ctx.budget(3000, 30000)))]
    cases += composite_cases(ctx, ctx.budget(1500, 6000), ctx.budget(1500, 6000), ctx.budget(1000, 6000))
    cases += session_cases(ctx, ctx.budget(1500, 6000), None)
    cases += [(h, e, kind) for h, e, kind in rcsim.gen_polling_histories(rng, ctx.budget(600, 6000))]
    cases += rcsim.gen_close_sweeps(rng, sample=None)
    run_cases(ctx, driver, ID, SIGS, cases)
