"""Differential validation of the Lean 'Real' primitives against cryptography/hashlib (run inside every
check that relies on them)."""
from __future__ import annotations

import hashlib

from cryptography.exceptions import InvalidSignature, InvalidTag
from cryptography.hazmat.primitives import hashes, serialization
from cryptography.hazmat.primitives.asymmetric import ed25519, x25519
from cryptography.hazmat.primitives.ciphers.aead import ChaCha20Poly1305
from cryptography.hazmat.primitives.kdf.hkdf import HKDF

from harness.common import hx

RAW = dict(encoding=serialization.Encoding.Raw, format=serialization.PublicFormat.Raw)


def hk(ikm, salt, info, n=32):
    return HKDF(algorithm=hashes.SHA512(), length=n, salt=salt, info=info).derive(ikm)


def validate(ctx, driver, n=12):
    """returns number of ops compared; mismatches are recorded on ctx as stream 'crypto'"""
    rng = ctx.rng
    rb = lambda k: bytes(rng.randrange(256) for _ in range(k))  # noqa: E731
    lines, exp, cases = [], [], []

    def add(line, e):
        lines.append(line)
        exp.append(e)
        cases.append({"stream": "crypto", "op": line[:200]})

    for i in range(n):
        m = rb(rng.choice([0, 1, 111, 112, 127, 128, 129, 300]))
        add(f"sha512 {hx(m)}", hashlib.sha512(m).hexdigest())
        ikm, salt, info = rb(32), rb(rng.choice([8, 12, 24])), rb(rng.choice([10, 28]))
        add(f"hkdf {hx(ikm)} {hx(salt)} {hx(info)} 32", hk(ikm, salt, info).hex())
        k, nonce, aad, pt = rb(32), rb(12), rb(rng.choice([0, 2, 6])), rb(rng.choice([0, 1, 15, 16, 17, 63, 64, 65, 200]))
        ct = ChaCha20Poly1305(k).encrypt(nonce, pt, aad)
        add(f"seal {hx(k)} {hx(nonce)} {hx(aad)} {hx(pt)}", hx(ct))
        add(f"open {hx(k)} {hx(nonce)} {hx(aad)} {hx(ct)}", "ok " + hx(pt))
        bad = bytearray(ct)
        bad[rng.randrange(len(bad))] ^= 1 << rng.randrange(8)
        add(f"open {hx(k)} {hx(nonce)} {hx(aad)} {hx(bad)}", "fail")
        sk1, sk2 = rb(32), rb(32)
        p2 = x25519.X25519PrivateKey.from_private_bytes(sk2).public_key().public_bytes(**RAW)
        sh = x25519.X25519PrivateKey.from_private_bytes(sk1).exchange(x25519.X25519PublicKey.from_public_bytes(p2))
        add(f"x25519 {hx(sk1)} {hx(p2)}", sh.hex())
        add(f"x25519 {hx(sk2)} 0900000000000000000000000000000000000000000000000000000000000000", p2.hex())
        esk = rb(32)
        e = ed25519.Ed25519PrivateKey.from_private_bytes(esk)
        epk = e.public_key().public_bytes(**RAW)
        msg = rb(rng.choice([0, 1, 70, 100]))
        sig = e.sign(msg)
        add(f"edpub {hx(esk)}", epk.hex())
        add(f"edsign {hx(esk)} {hx(msg)}", sig.hex())
        add(f"edverify {hx(epk)} {hx(msg)} {hx(sig)}", "true")
        bs = bytearray(sig)
        bs[rng.randrange(64)] ^= 1 << rng.randrange(8)
        try:
            ed25519.Ed25519PublicKey.from_public_bytes(epk).verify(bytes(bs), msg)
            r = "true"
        except InvalidSignature:
            r = "false"
        add(f"edverify {hx(epk)} {hx(msg)} {hx(bs)}", r)
    if not driver.available:
        ctx.notes.append("crypto: driver unavailable")
        return 0
    outs = driver.run(lines)
    for c, e, o in zip(cases, exp, outs):
        if e != o:
            ctx.mismatch("crypto", c, e, o)
    ctx.streams["crypto"] += len(lines)
    ctx.traces += len(lines)
    return len(lines)
