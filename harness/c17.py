"""C17 - HAP PDUs are fragmented, reassembled and attributed correctly (BLE, CoAP)."""
from __future__ import annotations

import asyncio
import itertools
import struct

from cryptography.hazmat.primitives.ciphers.aead import ChaCha20Poly1305

from harness import cryptoval
from harness.common import Ctx, Driver, compare_with_model, hx, load_corpus

import aiohomekit.controller.ble.client as bc
import aiohomekit.controller.coap.pdu as cp
import aiohomekit.pdu as bp
from aiohomekit.controller.ble.key import DecryptionKey, EncryptionKey
from aiohomekit.exceptions import EncryptionError

ID = "C17"
RULE = ("BLE requests: exhaustive fragment sizes 8..64 x body lengths 0..200 (11457 cells) + realistic sizes {20,155,244,496,512} x lengths <=5000, plain and encrypted; "
        "BLE responses: ALL fragmentations (first piece + compositions of the rest) of bodies <=9 bytes, random above, wrong tid / missing continuation flag / unknown status / "
        "truncated headers; CoAP: all batches of 1..4 (quick) / 1..6 (thorough) items over 5 outcome kinds with varying body lengths, plus malformed tails. "
        "BLE client histories: 2..6 requests on ONE real AIOHomeKitBleakClient (fake bleak backend only: ATT_MTU 23..517 reported / not yet acquired, GATT table with handles, iid descriptors, "
        "max_write_without_response_size) through ble_request / char_write / char_read / drive_pairing_state_machine over 1..3 characteristics, plain and encrypted in every order, body lengths around "
        "every fragment boundary of both modes: every GATT write fits the size negotiated FOR THAT REQUEST, a conformant accessory reassembles it, the caller gets the accessory's answer; "
        "CoAP connection batches: get_accessory_info + histories of write_/read_characteristics, subscribe_to, unsubscribe_from with 1..6 items in any order over databases of every permission mix x format: "
        "the accessory receives for the i-th item its own instance id with its own value (request-side attribution), nothing dropped silently, then per-item outcomes / values under the right id. "
        "non-trivial = distinct (stream, shape) where shape = (fs,len) cell, fragmentation composition, outcome vector, plain/encrypted order x MTU class, or per-item permission vector")
TRUSTED = ["cryptography ChaCha20Poly1305 as the reference accessory cipher", "Python struct"]
ASSUMPTIONS = ["GATT transport (bleak) is replaced by a scripted characteristic: write_gatt_char records, read_gatt_char returns the next scripted fragment",
               "client histories: bleak's platform backend is replaced (BleakClient(backend=...)); the size one GATT write may carry is max(ATT_MTU, 100) - 3 (HAP-BLE minimum ATT_MTU 100 when the stack reports less or nothing), "
               "or the characteristic's max_write_without_response_size if the stack reports a larger one",
               "CoAP connection batches: the aiocoap client context is replaced by an in-memory accessory; the session keys are installed directly (pair-verify is C01's subject)"]
EXPLANATION = "Lean theorems C17_* over models of encode_pdu/decode_pdu/_read_pdu/CoAP batch codec; differential tie on the real functions"


def nonce(c):
    return struct.pack("<LQ", 0, c)


class _Handle:
    properties = ["read", "write"]


class _Client:
    address = "AA"

    def __init__(self, fs, reads=()):
        self.fs = fs
        self.writes = []
        self.reads = list(reads)
        self.nread = 0

    def determine_fragment_size(self, overhead, handle):
        return self.fs - overhead

    async def write_gatt_char(self, handle, data, response):
        self.writes.append(bytes(data))

    async def read_gatt_char(self, handle):
        if not self.reads:
            raise _Starved()
        self.nread += 1
        return self.reads.pop(0)


class _Starved(Exception):
    pass


def frs(l):
    return " ".join(hx(f) for f in l) if l else "."


def ref_reassemble(frags, tid):
    """conformant accessory: returns (opcode, tid, iid, body) or None"""
    f0 = frags[0]
    if len(f0) < 5:
        return None
    ctrl, op, t, iid = struct.unpack("<BBBH", f0[:5])
    if ctrl != 0 or t != tid:
        return None
    if len(f0) == 5:
        return (op, t, iid, b"") if len(frags) == 1 else None
    if len(f0) < 7:
        return None
    ln = struct.unpack("<H", f0[5:7])[0]
    data = f0[7:]
    for f in frags[1:]:
        if len(f) < 2 or f[0] != 0x80 or f[1] != tid:
            return None
        data += f[2:]
    if len(data) != ln:
        return None
    return (op, t, iid, data)


def run(ctx: Ctx, driver: Driver):
    rng = ctx.rng
    loop = asyncio.new_event_loop()
    cryptoval.validate(ctx, driver, 4)
    for c in load_corpus(ID):
        replay(ctx, driver, c)

    # ------------------------------------------------------------ BLE requests (encode_pdu / _write_pdu)
    cases, outs, lines = [], [], []
    cells = [(fs, L) for fs in range(8, 65) for L in range(0, 201)]
    cells += [(fs, L) for fs in (20, 155, 244, 496, 512) for L in ([0, 1, fs - 8, fs - 7, fs - 6, 2 * fs - 9, 2 * fs - 8, 5000] + [rng.randrange(0, 5001) for _ in range(ctx.budget(6, 200))])]
    opcodes = list(bp.OpCode)
    for n, (fs, L) in enumerate(cells):
        op = opcodes[n % len(opcodes)]
        tid = rng.randrange(0, 256)
        iid = rng.choice([0, 1, 255, 256, 0x1234, 65535])
        body = bytes((i * 7 + L) % 256 for i in range(L))
        encrypted = (n % 9 == 0)
        ctx.evaluations += 1
        case = {"stream": "ble-req", "fs": fs, "len": L, "opcode": op.value, "tid": tid, "iid": iid, "enc": encrypted}
        try:
            if encrypted:
                key = bytes(rng.randrange(256) for _ in range(32))
                ctr = rng.choice([0, 1, 300, 2 ** 32])
                ek = EncryptionKey(key)
                ek.counter = ctr
                cl = _Client(fs + 16)
                loop.run_until_complete(bc._write_pdu(cl, ek, op, _Handle(), iid, body, tid))
                writes = cl.writes
                plain = []
                for i, w in enumerate(writes):
                    plain.append(ChaCha20Poly1305(key).decrypt(nonce(ctr + i), w, b""))
                fits = all(len(w) <= fs + 16 for w in writes)
                case.update(key=hx(key), ctr=ctr)
            else:
                cl = _Client(fs)
                loop.run_until_complete(bc._write_pdu(cl, None, op, _Handle(), iid, body, tid))
                writes = plain = cl.writes
                fits = all(len(w) <= fs for w in writes)
        except Exception as e:  # noqa: BLE001
            ctx.violation("ble-req/" + type(e).__name__, f"_write_pdu raised {type(e).__name__} for fs={fs} len={L}", case)
            continue
        r = ref_reassemble(plain, tid)
        ctx.nontrivial.add(("ble-req", fs, L if L <= 200 else 201 + L // 500, encrypted))
        if not fits:
            ctx.violation("ble-req/too-large", f"a fragment exceeds the negotiated size fs={fs} (len={L})", case)
        elif r != (op.value, tid, iid, body):
            ctx.violation("ble-req/reassembly", f"a conformant accessory does not reassemble the request (fs={fs}, len={L}) to the same opcode/tid/iid/body", case)
        cases.append(case)
        outs.append(frs(writes))
        if encrypted:
            lines.append(f"pdu.encenc {hx(key)} {ctr} {op.value} {tid} {iid} {fs} {hx(body)}")
        else:
            lines.append(f"pdu.enc {op.value} {tid} {iid} {fs} {hx(body)}")
        ctx.dist["ble-req" + (":enc" if encrypted else "")] += 1
    ctx.sample(cases[777])
    compare_with_model(ctx, "ble-req", cases, outs, lines, driver)

    # ------------------------------------------------------------ BLE responses (_read_pdu)
    cases, outs, lines = [], [], []

    def one_read(kind, tid, frags, want, key=None, ctr=0, wire=None):
        """want = (status, body, consumed) or 'error' or None (no oracle)"""
        ctx.evaluations += 1
        case = {"stream": "ble-resp", "kind": kind, "tid": tid, "frags": [hx(f) for f in (wire or frags)]}
        if key:
            case.update(key=hx(key), ctr=ctr)
        cl = _Client(512, wire or frags)
        dk = None
        if key:
            dk = DecryptionKey(key)
            dk.counter = ctr
        try:
            st, data = loop.run_until_complete(bc._read_pdu(cl, dk, _Handle(), tid))
            out = f"ok {st.value} {hx(data)} {cl.nread}"
            got = (st.value, bytes(data), cl.nread)
        except _Starved:
            out = f"err index {cl.nread}"
            got = "starved"
        except struct.error:
            out = f"err struct {cl.nread}"
            got = "error"
        except EncryptionError:
            out = f"err encryption {cl.nread}"
            got = "error"
        except ValueError:
            out = f"err value {cl.nread}"
            got = "error"
        except Exception as e:  # noqa: BLE001
            out = f"exc {type(e).__name__}"
            got = "exc"
            ctx.violation("ble-resp/" + type(e).__name__, f"_read_pdu raised {type(e).__name__} ({kind})", case)
        if key:
            out += f" ctr={dk.counter}"
        if want is not None and got != "exc" and got != want:
            ctx.violation("ble-resp/" + kind, f"{kind}: _read_pdu gave {str(got)[:80]} but the accessory sent {str(want)[:80]}", case)
        cases.append(case)
        outs.append(out)
        if key:
            lines.append(f"pdu.readenc {hx(key)} {ctr} {tid} " + " ".join(hx(f) for f in wire))
        else:
            lines.append(f"pdu.read {tid} " + " ".join(hx(f) for f in frags))
        ctx.dist["ble-resp:" + kind] += 1

    def compositions(rest):
        if not rest:
            yield []
            return
        for r in range(len(rest)):
            for comp in itertools.combinations(range(1, len(rest)), r):
                pts = (0,) + comp + (len(rest),)
                yield [rest[a:b] for a, b in zip(pts, pts[1:])]

    maxL = ctx.budget(8, 11)
    for L in range(0, maxL + 1):
        body = bytes(range(1, L + 1))
        for k in range(0, L + 1):
            for parts in compositions(body[k:]):
                tid = 9 + (L + k) % 200
                st = (L + k + len(parts)) % 7
                frags = [struct.pack("<BBBH", 2, tid, st, L) + body[:k]] + [bytes([0x80 | (len(p) % 2) * 2, tid]) + p for p in parts]
                ctx.nontrivial.add(("ble-resp", L, k, tuple(len(p) for p in parts)))
                one_read("fragmentation", tid, frags, (st, body, len(frags)))
    for _ in range(ctx.budget(400, 8000)):
        L = rng.choice([0, 1, 2, 100, 500, 505, 2000, rng.randrange(0, 3000)])
        body = bytes(rng.randrange(256) for _ in range(L))
        fs = rng.choice([20, 155, 244, 496, 512])
        tid = rng.randrange(0, 256)
        st = rng.randrange(0, 7)
        k = min(L, rng.choice([0, fs - 5, rng.randrange(0, fs)]))
        rest = body[k:]
        parts = []
        while rest:
            n = rng.choice([fs - 2, rng.randrange(1, fs)])
            parts.append(rest[:n])
            rest = rest[n:]
        first = struct.pack("<BBBH", 2, tid, st, L) + body[:k]
        if L == 0 and rng.random() < 0.5:
            first = struct.pack("<BBB", 2, tid, st)
        frags = [first] + [bytes([rng.choice([0x80, 0x82, 0xFF]), tid]) + p for p in parts]
        mode = rng.randrange(10)
        ctx.nontrivial.add(("ble-resp-rand", mode, min(len(parts), 6), L == 0))
        if mode <= 3:
            one_read("random-frag", tid, frags, (st, body, len(frags)))
        elif mode == 4:
            key = bytes(rng.randrange(256) for _ in range(32))
            ctr = rng.choice([0, 5, 2 ** 32 + 1])
            wire = [ChaCha20Poly1305(key).encrypt(nonce(ctr + i), f, b"") for i, f in enumerate(frags)]
            one_read("encrypted", tid, frags, (st, body, len(frags)), key=key, ctr=ctr, wire=wire)
        elif mode == 5 and len(frags) > 1:
            i = rng.randrange(1, len(frags))
            bad = bytearray(frags[i])
            bad[1] = (bad[1] + 1 + rng.randrange(255)) % 256
            frags[i] = bytes(bad)
            one_read("cont-wrong-tid", tid, frags, "error")
        elif mode == 6 and len(frags) > 1:
            i = rng.randrange(1, len(frags))
            bad = bytearray(frags[i])
            bad[0] &= 0x7F
            frags[i] = bytes(bad)
            one_read("cont-no-flag", tid, frags, "error")
        elif mode == 7:
            bad = bytearray(frags[0])
            bad[1] = (bad[1] + 1 + rng.randrange(255)) % 256
            frags[0] = bytes(bad)
            one_read("first-wrong-tid", tid, frags, "error")
        elif mode == 8:
            key = bytes(rng.randrange(256) for _ in range(32))
            ctr = rng.choice([0, 7])
            wire = [ChaCha20Poly1305(key).encrypt(nonce(ctr + i), f, b"") for i, f in enumerate(frags)]
            i = rng.randrange(len(wire))
            b = bytearray(wire[i])
            b[rng.randrange(len(b))] ^= 1 << rng.randrange(8)
            wire[i] = bytes(b)
            one_read("encrypted-corrupt", tid, frags, "error", key=key, ctr=ctr, wire=wire)
        else:
            # malformed: truncation / unknown status / garbage
            j = rng.randrange(len(frags))
            f = bytearray(frags[j])
            t = rng.randrange(3)
            if t == 0:
                f = f[:rng.randrange(0, min(len(f), 6) + 1)]
            elif t == 1 and len(f) > 2:
                f[2] = rng.randrange(7, 256)
            else:
                f = bytearray(rng.randrange(256) for _ in range(rng.randrange(0, 8)))
            frags[j] = bytes(f)
            one_read("malformed", tid, frags, None)
    ctx.sample(cases[5])
    compare_with_model(ctx, "ble-resp", cases, outs, lines, driver)

    # ------------------------------------------------------------ CoAP batches
    cases, outs, lines = [], [], []
    kinds = ["ok0", "okn", "err", "tid", "ctl"]
    maxN = ctx.budget(4, 6)
    for N in range(1, maxN + 1):
        for combo in itertools.product(kinds, repeat=N):
            if N >= 5 and rng.random() < 0.6:
                continue
            data = b""
            exp = []
            for i, k in enumerate(combo):
                body = bytes([i + 1]) * rng.choice([1, 2, 3, 40, 300])
                if k == "ok0":
                    data += struct.pack("<BBBH", 2, i, 0, 0)
                    exp.append("b:-")
                elif k == "okn":
                    data += struct.pack("<BBBH", rng.choice([2, 0x12, 0x83]), i, 0, len(body)) + body
                    exp.append("b:" + hx(body))
                elif k == "err":
                    s = rng.randrange(1, 7)
                    data += struct.pack("<BBBH", 2, i, s, len(body)) + body
                    exp.append(f"s:{s}")
                elif k == "tid":
                    data += struct.pack("<BBBH", 2, (i + 1 + rng.randrange(255)) % 256, 0, len(body)) + body
                    exp.append("s:256")
                else:
                    data += struct.pack("<BBBH", rng.choice([0, 4, 6, 0x0A, 0x80]), i, 0, len(body)) + body
                    exp.append("s:257")
            ctx.evaluations += 1
            case = {"stream": "coap-dec", "start": 0, "data": hx(data), "combo": list(combo)}
            out = impl_coap_dec(0, data)
            ctx.nontrivial.add(("coap", combo))
            if out.startswith("exc"):
                ctx.violation("coap/" + out, f"decode_all_pdus raised {out}", case)
            elif out != "ok " + " ".join(exp):
                ctx.violation("coap/positional", f"batch {combo}: decoded {out[:120]} but the accessory's per-item outcomes are {' '.join(exp)[:120]}", case)
            cases.append(case)
            outs.append(out)
            lines.append(f"coap.dec 0 {hx(data)}")
            ctx.dist["coap-dec"] += 1
    for _ in range(ctx.budget(500, 10000)):
        # malformed / truncated batches (outside the property; correspondence only) and other start tids
        n = rng.randrange(1, 4)
        data = b""
        for i in range(n):
            body = bytes(rng.randrange(256) for _ in range(rng.randrange(0, 6)))
            data += struct.pack("<BBBH", rng.choice([2, 2, 0]), rng.choice([i, i, rng.randrange(256)]), rng.choice([0, 0, rng.randrange(0, 9)]), rng.choice([len(body), len(body), rng.randrange(0, 9)])) + body
        if rng.random() < 0.5:
            data = data[:rng.randrange(0, len(data) + 1)]
        start = rng.choice([0, 0, 1, 250])
        out = impl_coap_dec(start, data)
        ctx.evaluations += 1
        cases.append({"stream": "coap-dec", "start": start, "data": hx(data)})
        outs.append(out)
        lines.append(f"coap.dec {start} {hx(data)}")
        ctx.dist["coap-dec-malformed:" + out.split()[0]] += 1
    ctx.sample(cases[40])
    compare_with_model(ctx, "coap-dec", cases, outs, lines, driver, canon=lambda s: s if not s.startswith("exc") else "err " + {"error": "struct", "ValueError": "value"}.get(s.split()[1], s.split()[1]))
    # CoAP request encoding + attribution
    cases, outs, lines = [], [], []
    ops = list(cp.OpCode)
    for _ in range(ctx.budget(300, 5000)):
        n = rng.randrange(0, 7)
        iids = [rng.choice([1, 10, 255, 256, 65535, rng.randrange(65536)]) for _ in range(n)]
        datas = [bytes(rng.randrange(256) for _ in range(rng.choice([0, 1, 3, 300]))) for _ in range(n)]
        op = rng.choice(ops)
        enc = cp.encode_all_pdus(op, iids, datas)
        ctx.evaluations += 1
        case = {"stream": "coap-enc", "opcode": op.value, "items": [[i, hx(d)] for i, d in zip(iids, datas)]}
        # oracle: conformant accessory parse
        off = 0
        parsed = []
        okp = True
        while off < len(enc):
            c, o, t, iid, ln = struct.unpack("<BBBHH", enc[off:off + 7])
            parsed.append((c, o, t, iid, enc[off + 7:off + 7 + ln]))
            off += 7 + ln
        if parsed != [(0, op.value, i, iid, d) for i, (iid, d) in enumerate(zip(iids, datas))]:
            ctx.violation("coap/request", "batch request does not parse back to the requested items with tids 0..n-1", case)
        cases.append(case)
        outs.append(hx(enc))
        lines.append(f"coap.enc {op.value} " + " ".join(f"{i}:{hx(d)}" for i, d in zip(iids, datas)))
        ctx.nontrivial.add(("coap-enc", n))
    compare_with_model(ctx, "coap-enc", cases, outs, lines, driver)
    attribution_oracle(ctx)
    coap_batch_end_to_end(ctx)
    ble_client_histories(ctx)
    coap_connection_batches(ctx)
    loop.close()


def impl_coap_dec(start, data):
    try:
        r = cp.decode_all_pdus(start, data)
        return "ok " + " ".join(("b:" + hx(x)) if isinstance(x, (bytes, bytearray)) else f"s:{x.value}" for x in r)
    except struct.error:
        return "err struct"
    except ValueError:
        return "err value"
    except Exception as e:  # noqa: BLE001
        return "exc " + type(e).__name__


def coap_batch_end_to_end(ctx: Ctx):
    """EncryptionContext.post_all end to end (real ChaCha20-Poly1305 both ways): a conformant accessory decrypts the batch,
    answers every item under the transaction id the request gave it (per-item outcomes scripted), and the i-th result must
    belong to the i-th item.  The library's random source is pinned to values at both ends of the tid range, so any use of
    it for batch transaction ids is exercised at the wrap."""
    import asyncio
    import random as _random
    from unittest import mock

    from cryptography.hazmat.primitives.ciphers.aead import ChaCha20Poly1305

    import aiohomekit.controller.coap.connection as coapc
    rng = ctx.rng
    k_c2a, k_a2c = bytes(range(32)), bytes(range(32, 64))

    async def one(iids, datas, outcomes, pinned):
        class Resp:
            def __init__(self, payload):
                self.payload = payload
                self.code = coapc.Code.CHANGED
        seen = {}

        class CoapCtx:
            def request(self, msg):
                plain = ChaCha20Poly1305(k_c2a).decrypt(struct.pack("=4xQ", 0), bytes(msg.payload), b"")
                out = b""
                off = 0
                items = []
                while off < len(plain):
                    control, opcode, tid, iid, ln = struct.unpack("<BBBHH", plain[off:off + 7])
                    items.append((tid, iid, plain[off + 7:off + 7 + ln]))
                    off += 7 + ln
                seen["items"] = items
                for (tid, iid, body), oc in zip(items, outcomes):
                    if oc == "ok0":
                        out += struct.pack("<BBBH", 0b10, tid, 0, 0)
                    elif oc == "okn":
                        b = bytes([1, 2, iid & 0xFF, tid])
                        out += struct.pack("<BBBH", 0b10, tid, 0, len(b)) + b
                    else:
                        out += struct.pack("<BBBH", 0b10, tid, int(oc[1:]), 0)
                f = asyncio.get_event_loop().create_future()
                f.set_result(Resp(ChaCha20Poly1305(k_a2c).encrypt(struct.pack("=4xQ", 0), out, b"")))

                class R:
                    response = f
                return R()

            async def shutdown(self):
                pass
        ectx = coapc.EncryptionContext(ChaCha20Poly1305(k_a2c), ChaCha20Poly1305(k_c2a), ChaCha20Poly1305(bytes(32)), "coap://x/", CoapCtx())
        seq = iter(pinned)
        with mock.patch.object(coapc.random if hasattr(coapc, "random") else _random, "randint", lambda a, b: min(max(next(seq, a), a), b)):
            res = await ectx.post_all(cp.OpCode.CHAR_READ, iids, datas)
        return res, seen.get("items")

    loop = asyncio.new_event_loop()
    try:
        for trial in range(ctx.budget(60, 800)):
            n = rng.randrange(1, 7)
            iids = rng.sample(range(1, 300), n)
            datas = [bytes(rng.randrange(256) for _ in range(rng.choice([0, 0, 1, 5]))) for _ in range(n)]
            outcomes = [rng.choice(["ok0", "okn", "okn", "e6", "e2"]) for _ in range(n)]
            pinned = [rng.choice([254, 253, 252, 251, 250, 1, 2, 128])] * 4
            ctx.evaluations += 1
            case = {"stream": "coap-batch", "iids": iids, "outcomes": outcomes, "pinned_random": pinned[0]}
            try:
                res, items = loop.run_until_complete(one(iids, datas, outcomes, pinned))
            except Exception as e:  # noqa: BLE001
                ctx.violation("coap/batch-raised", f"post_all of {n} items raised {type(e).__name__}: {e}", case)
                continue
            want = []
            for (tid, iid, body), oc in zip(items or [], outcomes):
                want.append(b"" if oc == "ok0" else (bytes([1, 2, iid & 0xFF, tid]) if oc == "okn" else cp.PDUStatus(int(oc[1:]))))
            if items is None or [i for _, i, _ in items] != iids or [b for _, _, b in items] != datas:
                ctx.violation("coap/batch-request", f"the batch request does not carry the requested items in order: {items}", case)
            elif list(res) != want:
                tids = [t for t, _, _ in items]
                ctx.violation("coap/batch-positional", f"batch of {n} items sent under tids {tids}, the accessory answered {outcomes} item by item under those tids; post_all returned {[r if isinstance(r, bytes) else r.name for r in res]}", case)
            ctx.nontrivial.add(("coap-batch", n, tuple(outcomes), pinned[0] > 200))
            ctx.dist["coap-batch"] += 1
    finally:
        loop.close()


def attribution_oracle(ctx: Ctx):
    """the result -> (aid, iid) mappers of the CoAP connection key the i-th result by the i-th requested id"""
    from aiohomekit.controller.coap.connection import CoAPHomeKitConnection
    rng = ctx.rng

    class _Char:
        """stands for a characteristic of the accessory database: the decoded value is the raw value, tagged"""
        def __init__(self):
            self.raw_value = None

        @property
        def value(self):
            return ("decoded", bytes(self.raw_value))

    class _Info:
        known = True

        def find_characteristic_by_iid(self, iid):
            return _Char() if self.known and iid % 3 else None

    conn = CoAPHomeKitConnection.__new__(CoAPHomeKitConnection)
    conn.info = _Info()
    for _ in range(ctx.budget(400, 4000)):
        n = rng.randrange(1, 7)
        ids = [(rng.choice([1, 2]), rng.randrange(1, 50)) for _ in range(n)]
        if len(set(ids)) != n:
            continue
        conn.info.known = rng.random() < 0.6
        # ok with an empty body, ok with a body that carries this item's own value (distinct per position), or an error
        results = [rng.choice([b"", b"", bytes([1, 3, 0xA0 + i, i, rng.randrange(256)]), bytes([1, 1, i]), cp.PDUStatus.INVALID_REQUEST, cp.PDUStatus.TID_MISMATCH,
                               cp.PDUStatus.BAD_CONTROL, cp.PDUStatus.INSUFFICIENT_AUTHORIZATION]) for i in range(n)]
        ctx.evaluations += 1
        case = {"stream": "coap-attr", "ids": ids, "results": [r.value if not isinstance(r, bytes) else "ok:" + hx(r) for r in results]}
        w = conn._write_characteristics_exit([(a, i, 0) for a, i in ids], results)
        want_w = {k: -r.value for k, r in zip(ids, results) if not isinstance(r, bytes)}
        if {k: v["status"] for k, v in w.items()} != want_w:
            ctx.violation("coap/attribution-write", "write results are not keyed by the requested ids in order", case)
        r = conn._read_characteristics_exit(ids, results)
        want_r = {k: (-x.value if not isinstance(x, bytes) else "value") for k, x in zip(ids, results)}
        got_r = {k: (v["status"] if "status" in v else "value") for k, v in r.items()}
        if got_r != want_r:
            ctx.violation("coap/attribution-read", "read results are not keyed by the requested ids in order", case)
        else:
            # every successful item reports the value of its own response body - nothing carried over from a neighbour
            for k, x in zip(ids, results):
                if isinstance(x, bytes):
                    own = bytes(x[2:])
                    got_v = r[k].get("value")
                    want_v = b"" if not x else (("decoded", own) if (conn.info.known and k[1] % 3) else own)
                    if got_v != want_v:
                        ctx.violation("coap/attribution-read-value", f"read of {ids} answered {case['results']}: the value reported for {k} is {got_v!r}, its own response body means {want_v!r}", case)
                        break
        for name in ("_subscribe_to_exit", "_unsubscribe_from_exit"):
            if hasattr(conn, name):
                s = getattr(conn, name)(ids, results)
                got = {k: v["status"] for k, v in s.items()}
                if got != want_w:
                    ctx.violation("coap/attribution-" + name, "subscribe results are not keyed by the requested ids in order", case)
        ctx.nontrivial.add(("coap-attr", tuple(case["results"])))
        ctx.dist["coap-attr"] += 1


def replay(ctx, driver, c):
    nv, nm = len(ctx.violations), len(ctx.mismatches)
    loop = asyncio.new_event_loop()
    try:
        if c["stream"] == "ble-req":
            body = bytes((i * 7 + c["len"]) % 256 for i in range(c["len"]))
            cl = _Client(c["fs"])
            loop.run_until_complete(bc._write_pdu(cl, None, bp.OpCode(c["opcode"]), _Handle(), c["iid"], body, c["tid"]))
            if not all(len(w) <= c["fs"] for w in cl.writes):
                return "fragment too large"
            if ref_reassemble(cl.writes, c["tid"]) != (c["opcode"], c["tid"], c["iid"], body):
                return "request not reassembled by a conformant accessory"
            compare_with_model(ctx, "ble-req", [c], [frs(cl.writes)], [f"pdu.enc {c['opcode']} {c['tid']} {c['iid']} {c['fs']} {hx(body)}"], driver)
        elif c["stream"] == "ble-resp" and "key" not in c:
            frags = [bytes.fromhex(f) if f != "-" else b"" for f in c["frags"]]
            cl = _Client(512, frags)
            try:
                st, data = loop.run_until_complete(bc._read_pdu(cl, None, _Handle(), c["tid"]))
                out = f"ok {st.value} {hx(data)} {cl.nread}"
            except _Starved:
                out = f"err index {cl.nread}"
            except struct.error:
                out = f"err struct {cl.nread}"
            except ValueError:
                out = f"err value {cl.nread}"
            compare_with_model(ctx, "ble-resp", [c], [out], [f"pdu.read {c['tid']} " + " ".join(hx(f) for f in frags)], driver)
        elif c["stream"] == "coap-dec":
            data = bytes.fromhex(c["data"]) if c["data"] != "-" else b""
            out = impl_coap_dec(c.get("start", 0), data)
            compare_with_model(ctx, "coap-dec", [c], [out], [f"coap.dec {c.get('start', 0)} {hx(data)}"], driver)
        elif c["stream"] in ("ble-client", "coap-conn"):
            try:
                bad = loop.run_until_complete((_ble_client_history if c["stream"] == "ble-client" else _coap_conn_history)(c))
            except Exception as e:  # noqa: BLE001
                return f"history could not be completed: {type(e).__name__}: {e}"[:300]
            if bad:
                return bad[1]
    finally:
        loop.close()
    if len(ctx.violations) > nv:
        return ctx.violations[-1]["what"]
    if len(ctx.mismatches) > nm:
        return "model/implementation mismatch: " + str(ctx.mismatches[-1])[:300]
    return None


# ====================================================================================================================
# BLE: histories of requests on ONE real AIOHomeKitBleakClient.  Only what bleak's backend provides is faked (address,
# mtu_size, the GATT table with handles / descriptors / max_write_without_response_size, write_gatt_char,
# read_gatt_char, read_gatt_descriptor); the fragment size of every request comes from the client wrapper itself.
# ====================================================================================================================
HAP_MIN_ATT_MTU = 100  # HAP-BLE: controller and accessory support an ATT_MTU of at least 100; a stack that reports less (or nothing yet) is taken at that minimum
ATT_HEADER = 3
AEAD_TAG = 16
HAP_BASE = "-0000-1000-8000-0026bb765291"
PAIRING_SERVICE = "00000055" + HAP_BASE
PAIRING_CHARS = ("0000004c" + HAP_BASE, "0000004e" + HAP_BASE, "00000050" + HAP_BASE)
IID_DESCRIPTOR = "dc46f0fe-81d2-4616-b5d9-6abdd796939a"
BLE_ENTRIES = ("request", "request", "char_write", "char_read", "pairing")


def _tlv8(tag, val):
    val = bytes(val)
    if not val:
        return bytes([tag, 0])
    return b"".join(bytes([tag, len(val[o:o + 255])]) + val[o:o + 255] for o in range(0, len(val), 255))


def _tlv8_parse(buf):
    """independent TLV8 reader: [(tag, value)], consecutive items of one tag after a 255-byte item are one value; None if malformed"""
    out, off, last = [], 0, None
    buf = bytes(buf)
    while off < len(buf):
        if off + 2 > len(buf) or off + 2 + buf[off + 1] > len(buf):
            return None
        t, ln = buf[off], buf[off + 1]
        v = buf[off + 2:off + 2 + ln]
        if last is not None and last[0] == t and last[2] == 255:
            last[1] += v
            last[2] = ln
        else:
            last = [t, v, ln]
            out.append(last)
        off += 2 + ln
    return [(t, v) for t, v, _ in out]


def _pattern(n, salt):
    return bytes((i * 7 + salt * 13 + n) % 256 for i in range(n))


def _session_key(seed, n, direction):
    return bytes((seed * 17 + n * 29 + direction * 101 + j * 3) % 256 for j in range(32))


class _BleAccessory:
    """a conformant HAP-BLE accessory behind the GATT table of the case: reassembles requests per characteristic with its own
    code, opens / seals fragments with its own AEAD and counters, answers with a scripted status / body fragmented at a size of
    its own choosing, and keeps the log the oracles read"""

    def __init__(self, case):
        self.case = case
        self.step = 0
        self.desc = {}  # descriptor handle -> value
        self.session = None  # [c2a aead, a2c aead, rx counter, tx counter]
        self.partial = {}  # characteristic handle -> [opcode, tid, iid, expected length, data]
        self.outbox = {}  # characteristic handle -> fragments to hand out on GATT reads
        self.writes = []  # (characteristic handle, length on the radio, with-response flag)
        self.requests = []  # (characteristic handle, opcode, tid, iid, body)
        self.problems = []
        self.reply = None  # (handle, opcode, tid, iid, body) -> (status, body, fragment size, short header)

    def start_session(self, c2a, a2c):
        self.session = [ChaCha20Poly1305(c2a), ChaCha20Poly1305(a2c), 0, 0]

    def end_session(self):
        self.session = None

    def gatt_write(self, handle, value, response):
        self.writes.append((handle, len(value), bool(response)))
        if self.session is not None:
            try:
                value = self.session[0].decrypt(nonce(self.session[2]), value, b"")
            except Exception:  # noqa: BLE001
                self.problems.append(f"GATT write #{len(self.writes)} ({len(value)} bytes) does not authenticate under the session key with counter {self.session[2]}")
                return
            self.session[2] += 1
        st = self.partial.get(handle)
        if st is None:
            if len(value) < 5:
                self.problems.append(f"first fragment of {len(value)} bytes is shorter than the 5-byte request header")
                return
            ctrl, op, tid, iid = struct.unpack("<BBBH", value[:5])
            if ctrl & 0x8E:
                self.problems.append(f"first fragment has control byte 0x{ctrl:02x} (continuation / response bits set)")
                return
            if len(value) == 5:
                return self._complete(handle, op, tid, iid, b"")
            if len(value) < 7:
                self.problems.append("first fragment ends inside the body length field")
                return
            ln = struct.unpack("<H", value[5:7])[0]
            st = self.partial[handle] = [op, tid, iid, ln, bytes(value[7:])]
        else:
            if len(value) < 2 or not value[0] & 0x80:
                self.problems.append("a fragment inside a transaction lacks the continuation flag")
                return
            if value[1] != st[1]:
                self.problems.append(f"continuation fragment carries tid {value[1]}, the transaction was opened with tid {st[1]}")
                return
            st[4] += bytes(value[2:])
        if len(st[4]) > st[3]:
            self.problems.append(f"{len(st[4])} body bytes arrived, the header announced {st[3]}")
            del self.partial[handle]
        elif len(st[4]) == st[3]:
            del self.partial[handle]
            self._complete(handle, st[0], st[1], st[2], st[4])

    def _complete(self, handle, op, tid, iid, body):
        self.requests.append((handle, op, tid, iid, body))
        status, rbody, rfs, short = self.reply(handle, op, tid, iid, body)
        if not rbody and short:
            frags = [struct.pack("<BBB", 0x02, tid, status)]
        else:
            k = max(0, rfs - 5)
            frags = [struct.pack("<BBBH", 0x02, tid, status, len(rbody)) + rbody[:k]]
            frags += [bytes([0x82, tid]) + rbody[o:o + rfs - 2] for o in range(k, len(rbody), rfs - 2)]
        if self.session is not None:
            sealed = []
            for f in frags:
                sealed.append(self.session[1].encrypt(nonce(self.session[3]), f, b""))
                self.session[3] += 1
            frags = sealed
        self.outbox[handle] = frags

    def gatt_read(self, handle):
        q = self.outbox.get(handle)
        if not q:
            raise _Starved()
        return q.pop(0)


class _Radio:
    """what bleak's platform backend provides to BleakClient - nothing of the client wrapper is replaced"""

    def __init__(self, address_or_ble_device, **kwargs):
        world = kwargs["c17_world"]
        self.address = address_or_ble_device
        self.name = address_or_ble_device
        self.world = world
        self.services = world["services"]
        kind, mtu = world["mtu_kind"], world["mtu"]
        self._reported = 23 if kind == "unacquired" else mtu
        if kind != "no-attr":
            self._mtu_size = None if kind == "unacquired" else mtu  # BlueZ style: None until the MTU has been acquired
        self.is_connected = True

    @property
    def mtu_size(self):
        return self._reported

    async def write_gatt_char(self, characteristic, data, response):
        self.world["acc"].gatt_write(characteristic.handle, bytes(data), response)

    async def read_gatt_char(self, characteristic, **kwargs):
        return bytearray(self.world["acc"].gatt_read(characteristic.handle))

    async def read_gatt_descriptor(self, descriptor, **kwargs):
        return bytearray(self.world["acc"].desc[descriptor.handle])

    async def disconnect(self):
        self.is_connected = False
        return True


def _ble_world(case, acc):
    from bleak.backends.characteristic import BleakGATTCharacteristic
    from bleak.backends.descriptor import BleakGATTDescriptor
    from bleak.backends.service import BleakGATTService, BleakGATTServiceCollection
    coll = BleakGATTServiceCollection()
    for n, uuid in enumerate(case["services"]):
        coll.add_service(BleakGATTService(None, 1 + 100 * n, uuid))
    for c in case["chars"]:
        svc = coll.services[1 + 100 * c["svc"]]

        def mw(c=c):
            return c["mwwrs"] if acc.step < c.get("late_from", 1 << 30) else c["mwwrs_late"]
        ch = BleakGATTCharacteristic(None, c["handle"], c["uuid"], list(c["props"]), mw, svc)
        coll.add_characteristic(ch)
        coll.add_descriptor(BleakGATTDescriptor(None, c["handle"] + 1, IID_DESCRIPTOR, ch))
        acc.desc[c["handle"] + 1] = struct.pack("<H", c["iid"])
    return {"services": coll, "acc": acc, "mtu": case["mtu"], "mtu_kind": case["mtu_kind"]}


def _ble_limit(case, c, step):
    """the largest value one GATT write may carry for this request, from what the stack reports - not from the library"""
    att = HAP_MIN_ATT_MTU if case["mtu_kind"] == "unacquired" else max(case["mtu"], HAP_MIN_ATT_MTU)
    mw = c["mwwrs"] if step < c.get("late_from", 1 << 30) else c["mwwrs_late"]
    return max(att - ATT_HEADER, mw or 0)


async def _ble_client_history(case):
    """-> (signature, what, step index) of the first violated requirement, or None"""
    import random as _random
    import warnings
    from unittest import mock

    from aiohomekit.controller.ble.bleak import AIOHomeKitBleakClient
    acc = _BleAccessory(case)
    world = _ble_world(case, acc)
    with warnings.catch_warnings():
        warnings.simplefilter("ignore")
        client = AIOHomeKitBleakClient("C1:70:00:%02X:%02X:%02X" % (case["mtu"] % 256, case["mtu"] // 256, case["libseed"] % 256), backend=_Radio, c17_world=world)
    sessions = 0
    ek = dk = None
    with mock.patch.object(bc, "random", _random.Random(case["libseed"])):
        for n, s in enumerate(case["steps"]):
            acc.step = n
            c = case["chars"][s["char"]]
            entry = s["entry"]
            secure = bool(s["secure"]) and entry != "pairing"
            if secure and ek is None:
                sessions += 1
                c2a, a2c = _session_key(case["libseed"], sessions, 0), _session_key(case["libseed"], sessions, 1)
                ek, dk = EncryptionKey(c2a), DecryptionKey(a2c)
                acc.start_session(c2a, a2c)
            elif not secure and ek is not None:
                ek = dk = None
                acc.end_session()
            del acc.writes[:], acc.requests[:], acc.problems[:]
            acc.partial.clear()
            acc.outbox.clear()
            limit = _ble_limit(case, c, n)
            kind = ("encrypted" if secure else "plain") + " " + entry
            where = f"step {n} ({kind} on handle {c['handle']}, ATT_MTU {case['mtu']}/{case['mtu_kind']}, history {[('E' if x['secure'] and x['entry'] != 'pairing' else 'P') + str(x['char']) for x in case['steps'][:n + 1]]})"
            body = _pattern(s["len"], n)
            rvalue = _pattern(s["rlen"], n + 40)
            rfs = max(8, s["rfs"])
            # ---- what the caller asks for, what a conformant accessory must therefore see, and what it answers
            if entry == "request":
                want_op, want_body = s["opcode"], body
                script = [(s["rst"], rvalue)]
            elif entry == "char_write":
                want_op, want_body = bp.OpCode.CHAR_WRITE.value, None
                script = [(s["rst"], _tlv8(0x01, rvalue) if s["rst"] == 0 else b"")]
            elif entry == "char_read":
                want_op, want_body = bp.OpCode.CHAR_READ.value, b""
                script = [(s["rst"], _tlv8(0x01, rvalue) if s["rst"] == 0 else b"")]
            else:
                want_op, want_body = bp.OpCode.CHAR_WRITE.value, None
                inner = _tlv8(0x06, b"\x02") + _tlv8(0x03, rvalue)
                pf = s.get("pfrag", 0)
                if pf and len(inner) > pf:
                    chunks = [inner[o:o + pf] for o in range(0, len(inner), pf)]
                    script = [(0, _tlv8(0x01, _tlv8(0x0C, ch))) for ch in chunks[:-1]] + [(0, _tlv8(0x01, _tlv8(0x0D, chunks[-1])))]
                else:
                    script = [(0, _tlv8(0x01, inner))]
            served = []

            def reply(handle, op, tid, iid, rb, script=script, served=served, rfs=rfs, short=s.get("short", False)):
                st, b = script[min(len(served), len(script) - 1)]
                served.append((st, b))
                return st, b, rfs, short
            acc.reply = reply
            result = raised = None
            try:
                handle = await client.get_characteristic(case["services"][c["svc"]].upper(), c["uuid"].upper(), c["iid"])
                if handle.handle != c["handle"]:
                    return ("ble-client/wrong-characteristic", f"{where}: get_characteristic(iid={c['iid']}) resolved to GATT handle {handle.handle}, the characteristic with that instance id is handle {c['handle']}", n)
                if entry == "request":
                    result = await bc.ble_request(client, ek, dk, bp.OpCode(s["opcode"]), handle, c["iid"], body if (body or not s.get("none_body")) else None)
                elif entry == "char_write":
                    result = await bc.char_write(client, ek, dk, handle, c["iid"], body)
                elif entry == "char_read":
                    result = await bc.char_read(client, ek, dk, handle, c["iid"])
                else:
                    def machine(body=body):
                        got = yield ([(0x06, b"\x01"), (0x03, body)] if body else [(0x06, b"\x01")]), []
                        return got
                    result = await bc.drive_pairing_state_machine(client, c["uuid"].upper(), machine())
            except _Starved:
                raised = "starved"
            except bc.PDUStatusError as e:
                raised = ("status", e.status if isinstance(e.status, int) else getattr(e.status, "value", e.status))
            except Exception as e:  # noqa: BLE001
                raised = ("exc", f"{type(e).__name__}: {e}"[:200])
            # ---- request side: every GATT write fits what was negotiated for THIS request; the accessory reassembles the request
            wrong = [h for h, _, _ in acc.writes if h != c["handle"]]
            if wrong:
                return ("ble-client/wrong-characteristic", f"{where}: fragments were written to GATT handle(s) {sorted(set(wrong))}", n)
            big = [ln for _, ln, _ in acc.writes if ln > limit]
            if big:
                return ("ble-client/too-large", f"{where}: body {s['len']} bytes: GATT writes of {[ln for _, ln, _ in acc.writes]} bytes, but one write can carry at most {limit} bytes"
                        f" (ATT_MTU - 3{', each fragment including its 16-byte tag' if secure else ''})", n)
            if acc.problems:
                return ("ble-client/reassembly", f"{where}: body {s['len']} bytes: the accessory cannot take the request: {acc.problems[0]}", n)
            if not acc.requests or acc.partial:
                return ("ble-client/reassembly", f"{where}: body {s['len']} bytes: the accessory never saw a complete request ({len(acc.writes)} writes, raised={raised})", n)
            for k, (h, op, tid, iid, got) in enumerate(acc.requests):
                if want_body is not None:
                    ok = got == want_body
                else:
                    tl = _tlv8_parse(got)
                    d = dict(tl) if tl is not None else {}
                    if entry == "char_write":
                        ok = d.get(0x09) == b"\x01" and d.get(0x01, b"") == body and set(d) <= {0x01, 0x09}
                    elif k == 0:
                        inner_req = dict(_tlv8_parse(d.get(0x01, b"")) or [])
                        ok = d.get(0x09) == b"\x01" and inner_req.get(0x06) == b"\x01" and inner_req.get(0x03, b"") == body
                    else:  # acknowledgement of a pairing-level fragment
                        ok = d.get(0x09) == b"\x01" and d.get(0x01) == bytes([0x0C, 0])
                if (op, iid) != (want_op, c["iid"]) or not ok:
                    return ("ble-client/reassembly", f"{where}: body {s['len']} bytes: the accessory reassembles opcode {op} iid {iid} body {hx(got)[:80]}.. ({len(got)} bytes),"
                            f" the caller asked for opcode {want_op} iid {c['iid']} and its own {s['len']}-byte body", n)
            if len(acc.requests) != len(script) and not (entry == "pairing" and raised):
                return ("ble-client/reassembly", f"{where}: the accessory saw {len(acc.requests)} requests for one call that needs {len(script)}", n)
            # ---- response side: the caller gets the accessory's status and body
            if raised == "starved":
                return ("ble-client/response", f"{where}: the library read more fragments than the accessory's response has", n)
            if raised and raised[0] == "exc":
                return ("ble-client/" + raised[1].split(":")[0], f"{where}: body {s['len']} bytes, response {s['rlen']} bytes in fragments of <= {rfs}: raised {raised[1]}", n)
            if entry == "request":
                want = (s["rst"], rvalue)
                got = (result[0].value, bytes(result[1])) if result is not None else raised
            elif entry in ("char_write", "char_read"):
                want = rvalue if s["rst"] == 0 else ("status", s["rst"])
                got = bytes(result) if result is not None else raised
            else:
                want = {0x06: b"\x02", 0x03: rvalue}
                got = {int(k): bytes(v) for k, v in result.items()} if isinstance(result, dict) else (result if result is not None else raised)
            if got != want:
                return ("ble-client/response", f"{where}: the accessory answered status {s['rst']} with {s['rlen']} value bytes in fragments of <= {rfs}; the caller got {str(got)[:120]}", n)
            if any(acc.outbox.values()):
                return ("ble-client/response", f"{where}: the caller returned before reading all fragments of the response (the next request would read a stale fragment)", n)
    return None


def _gen_ble_history(rng, trial):
    mtu_kind = rng.choice(["attr", "attr", "no-attr", "unacquired"])
    mtu = rng.choice([23, 64, 100, 104, 158, 185, 247, 251, 515, 517, rng.randrange(23, 518)])
    att = HAP_MIN_ATT_MTU if mtu_kind == "unacquired" else max(mtu, HAP_MIN_ATT_MTU)
    services = [PAIRING_SERVICE] + ["%08x" % t + HAP_BASE for t in rng.sample([0x3E, 0x43, 0x49, 0x8A], rng.randrange(1, 3))]
    chars, handle, iid = [], 10, rng.choice([1, 9, 250, 4000])
    for u in PAIRING_CHARS:
        chars.append({"svc": 0, "uuid": u})
    for sv in range(1, len(services)):
        us = ["%08x" % t + HAP_BASE for t in rng.sample([0x25, 0x08, 0x13, 0x23, 0x2F, 0xCE], rng.randrange(1, 4))]
        if rng.random() < 0.3:
            us.append(us[0])  # two characteristics of one type in one service: told apart by their instance id descriptors only
        chars += [{"svc": sv, "uuid": u} for u in us]
    for c in chars:
        handle += rng.choice([3, 4, 7])
        iid += rng.choice([1, 1, 2, 17])
        mw = rng.choice([20, 20, att - 3, att - 3, 0, rng.choice([att - 3, 244, 512])])
        c.update(handle=handle, iid=iid, props=rng.choice([["read", "write"], ["read", "write"], ["read", "write", "write-without-response"], ["write-without-response", "read"]]), mwwrs=mw)
        if rng.random() < 0.2:
            c.update(late_from=rng.randrange(1, 4), mwwrs_late=max(mw, rng.choice([att - 3, 244])))
    nsteps = rng.randrange(2, 7)
    focus = rng.sample(range(len(chars)), min(len(chars), rng.choice([1, 1, 2, 3])))  # few characteristics, so that each one is used repeatedly
    # orders of plain / encrypted: every pattern appears over the trials (trial number gives the bit pattern, low bit first)
    pattern = [(trial >> k) & 1 for k in range(nsteps)] if trial % 3 else [rng.randrange(2) for _ in range(nsteps)]
    steps = []
    for n in range(nsteps):
        ci = rng.choice(focus)
        c = chars[ci]
        entry = rng.choice(BLE_ENTRIES)
        if entry == "pairing" and (c["svc"] != 0 or [x["uuid"] for x in chars].count(c["uuid"]) != 1):
            entry = "char_write"
        limit = max(att - 3, c["mwwrs_late"] if n >= c.get("late_from", 1 << 30) else c["mwwrs"])
        f = rng.choice([limit, limit - AEAD_TAG])
        edge = rng.choice([f - 7, f - 7, 2 * f - 9, 3 * f - 11, 4 * f - 13]) + rng.choice([-1, 0, 0, 1, 2]) - rng.choice([0, 0, 0, 3, 5, 7, 9])
        ln = rng.choice([0, 1, edge, edge, edge, edge, rng.randrange(0, 3 * limit), rng.randrange(0, 2600)])
        ln = max(0, min(ln, 3000))
        st = {"char": ci, "secure": bool(pattern[n]), "entry": entry, "opcode": rng.choice(list(bp.OpCode)).value, "len": ln,
              "rlen": rng.choice([0, 0, 1, 2, 90, rng.randrange(0, 700)]), "rst": rng.choice([0, 0, 0, 0, rng.randrange(1, 7)]),
              "rfs": rng.choice([limit, limit - AEAD_TAG, 20, rng.randrange(8, 200)]), "short": rng.random() < 0.3, "none_body": rng.random() < 0.5}
        if entry == "pairing":
            st["pfrag"] = rng.choice([0, 0, 50, 120, 255, 300])
            st["len"] = min(st["len"], 1200)
        if entry in ("char_read",):
            st["len"] = 0
        steps.append(st)
    return {"stream": "ble-client", "mtu": mtu, "mtu_kind": mtu_kind, "libseed": rng.randrange(1 << 16), "services": services, "chars": chars, "steps": steps}


def _grid_ble_histories(rng):
    """every order of plain / encrypted requests of length 2 and 3 on ONE characteristic (and alternating over two), for every way the stack reports the ATT_MTU,
    every request longer than one fragment of either mode"""
    for mtu_kind, mtu in (("unacquired", 23), ("attr", 23), ("attr", 100), ("no-attr", 158), ("attr", 247), ("no-attr", 517)):
        att = HAP_MIN_ATT_MTU if mtu_kind == "unacquired" else max(mtu, HAP_MIN_ATT_MTU)
        for nsteps in (2, 3):
            for bits in itertools.product((False, True), repeat=nsteps):
                for nchar in (1, 2):
                    mw = rng.choice([20, att - 3, 0])
                    chars = [{"svc": 0, "uuid": PAIRING_CHARS[k], "handle": 20 + 3 * k, "iid": 7 + k, "props": ["read", "write"], "mwwrs": mw} for k in range(3)]
                    chars += [{"svc": 1, "uuid": "%08x" % t + HAP_BASE, "handle": 40 + 3 * k, "iid": 30 + k, "props": ["read", "write"], "mwwrs": mw} for k, t in enumerate((0x25, 0x08))]
                    steps = []
                    for n, secure in enumerate(bits):
                        ln = rng.choice([att - 3 - 7 + 1, att - 3 - AEAD_TAG - 7 + 1, 2 * (att - 3) - 9 - rng.randrange(0, 20), 5 * att // 2])
                        entry = rng.choice(["request", "char_write"])
                        steps.append({"char": 3 + (n % nchar), "secure": secure, "entry": entry, "opcode": rng.choice([1, 2, 4]), "len": ln, "rlen": rng.choice([0, 3, 200]), "rst": 0,
                                      "rfs": rng.choice([att - 3, att - 3 - AEAD_TAG]), "short": False, "none_body": False})
                    yield {"stream": "ble-client", "mtu": mtu, "mtu_kind": mtu_kind, "libseed": rng.randrange(1 << 16), "services": [PAIRING_SERVICE, "00000043" + HAP_BASE], "chars": chars, "steps": steps}


def ble_client_histories(ctx: Ctx):
    rng = ctx.rng
    loop = asyncio.new_event_loop()
    try:
        grid = list(_grid_ble_histories(rng))
        for trial in range(len(grid) + ctx.budget(500, 8000)):
            case = grid[trial] if trial < len(grid) else _gen_ble_history(rng, trial)
            ctx.evaluations += len(case["steps"])
            try:
                bad = loop.run_until_complete(_ble_client_history(case))
            except Exception as e:  # noqa: BLE001 - nothing the library does may take the check down
                bad = ("ble-client/" + type(e).__name__, f"history could not be completed: {type(e).__name__}: {e}"[:300], 0)
            if bad:
                case["steps"] = case["steps"][:bad[2] + 1]
                ctx.violation(bad[0], bad[1], case)
            modes = "".join("E" if s["secure"] and s["entry"] != "pairing" else "P" for s in case["steps"])
            ctx.nontrivial.add(("ble-client", modes, case["mtu_kind"], min(case["mtu"], 100) if case["mtu"] <= 100 else case["mtu"] // 64 * 64))
            same = {}
            for s in case["steps"]:
                same.setdefault(s["char"], set()).add("E" if s["secure"] and s["entry"] != "pairing" else "P")
                ctx.dist["ble-client:" + s["entry"] + (":enc" if s["secure"] and s["entry"] != "pairing" else "")] += 1
            ctx.dist["ble-client-history:" + ("both modes on one characteristic" if any(len(v) == 2 for v in same.values()) else "one mode per characteristic")] += 1
            if trial == 3:
                ctx.sample(case)
    finally:
        loop.close()


# ====================================================================================================================
# CoAP: batches through the public CoAPHomeKitConnection entry points against an in-memory accessory that opens the
# request with its own AEAD, decodes the batch with its own decoder and records what it received per item.
# ====================================================================================================================
COAP_FMT = {  # format -> (GATT presentation format, struct code)
    "bool": (0x01, "<?"), "uint8": (0x04, "<B"), "uint16": (0x06, "<H"), "uint32": (0x08, "<I"), "uint64": (0x0A, "<Q"), "int": (0x10, "<i"),
    "float": (0x14, "<f"), "string": (0x19, None), "data": (0x1B, None), "raw": (None, None)}
# permission mixes: secure read 0x10, secure write 0x20, timed write 0x08, additional authorization 0x04, hidden 0x40, events 0x80 / 0x100, broadcast 0x200;
# 0x01 / 0x02 are the INSECURE read / write bits and give no right inside the session
COAP_PROPS = [0x10 | 0x80, 0x20, 0x30 | 0x80, 0x30 | 0x80, 0x38 | 0x80, 0x28, 0x70 | 0x80, 0x50, 0x34, 0x00, 0x01 | 0x02, 0x10 | 0x02 | 0x80 | 0x100 | 0x200, 0x20 | 0x01]
COAP_K_C2A, COAP_K_A2C, COAP_K_EVT = bytes(range(60, 92)), bytes(range(120, 152)), bytes(range(7, 39))
COAP_OPS = {"write": 0x02, "read": 0x03, "sub": 0x0B, "unsub": 0x0C}


def _coap_arg(fmt, j):
    """the Python value a caller passes for the JSON form kept in the case"""
    return bytes.fromhex(j) if fmt == "raw" else j


def _coap_raw(fmt, j):
    """the bytes an accessory stores for it - encoded here, not by the library"""
    code = COAP_FMT[fmt][1]
    if code is not None:
        return struct.pack(code, j)
    return j.encode("utf-8") if fmt == "string" else bytes.fromhex(j)


def _coap_same(fmt, got, raw):
    """does the value the library reports mean the bytes `raw` of the accessory?"""
    code = COAP_FMT[fmt][1]
    try:
        if code is not None:
            want = struct.unpack(code, raw)[0]
            return type(got) in (bool, int, float) and (got is want if fmt == "bool" else (not isinstance(got, bool) and got == want))
        if fmt == "string":
            return got == raw.decode("utf-8")
        return (isinstance(got, (bytes, bytearray)) and bytes(got) == raw) or (isinstance(got, str) and fmt == "data" and bytes.fromhex(got) == raw)
    except Exception:  # noqa: BLE001
        return False


def _coap_gen_value(rng, fmt):
    if fmt == "bool":
        return rng.random() < 0.5
    if fmt in ("uint8", "uint16", "uint32", "uint64"):
        top = 2 ** {"uint8": 8, "uint16": 16, "uint32": 32, "uint64": 64}[fmt] - 1
        return rng.choice([0, 1, top, rng.randint(0, top)])
    if fmt == "int":
        return rng.choice([0, -1, 2 ** 31 - 1, -2 ** 31, rng.randint(-100000, 100000)])
    if fmt == "float":
        return rng.randint(-1440, 1440) / 4  # exact in binary32
    if fmt == "string":
        return "".join(rng.choice("abcXYZ 09-é") for _ in range(rng.choice([1, 3, 12, 40, 300])))
    return bytes(rng.randrange(256) for _ in range(rng.choice([1, 2, 4, 9, 270]))).hex()


def _coap_database(layout):
    """the accessory database as the TLV8 body of a database read"""
    accs = []
    for aid in sorted({c["aid"] for c in layout}):
        sv = []
        for s in sorted({c["svc"] for c in layout if c["aid"] == aid}):
            cs = []
            for c in layout:
                if (c["aid"], c["svc"]) != (aid, s):
                    continue
                t = _tlv8(0x04, struct.pack("<H", c["type"])) + _tlv8(0x05, struct.pack("<H", c["iid"])) + _tlv8(0x0A, struct.pack("<H", c["props"]))
                if COAP_FMT[c["fmt"]][0] is not None:
                    t += _tlv8(0x0C, struct.pack("<BbHBH", COAP_FMT[c["fmt"]][0], 0, 0x2700, 1, 0))
                cs.append(_tlv8(0x13, t))
            sv.append(_tlv8(0x15, _tlv8(0x07, struct.pack("<H", 2000 + s)) + _tlv8(0x06, struct.pack("<H", 0x43 + s)) + _tlv8(0x14, b"\x00\x00".join(cs))))
        accs.append(_tlv8(0x19, _tlv8(0x1A, struct.pack("<H", aid)) + _tlv8(0x16, b"\x00\x00".join(sv))))
    return _tlv8(0x18, b"\x00\x00".join(accs))


class _CoapAccessory:
    """conformant HAP-over-CoAP accessory + the aiocoap client context in front of it (request(msg).response, shutdown())"""

    def __init__(self, layout):
        self.by_iid = {c["iid"]: c for c in layout}
        self.values = {c["iid"]: _coap_raw(c["fmt"], c["value"]) for c in layout}
        self.db = _coap_database(layout)
        self.dec, self.enc = ChaCha20Poly1305(COAP_K_C2A), ChaCha20Poly1305(COAP_K_A2C)
        self.rx = self.tx = 0
        self.script = {}  # iid -> status to answer with during the current operation
        self.posts = []  # per POST of the current operation: list of [opcode, tid, iid, body, status answered, response body]
        self.problems = []

    def request(self, msg):
        import types

        from aiocoap.numbers.codes import Code
        out = b""
        try:
            plain = self.dec.decrypt(struct.pack("<4xQ", self.rx), bytes(msg.payload), b"")
            self.rx += 1
        except Exception:  # noqa: BLE001
            self.problems.append(f"request does not authenticate under the session key with counter {self.rx}")
            plain = None
        items = []
        off = 0
        while plain is not None and off < len(plain):
            if off + 7 > len(plain):
                self.problems.append("request ends inside a PDU header")
                break
            control, opcode, tid, iid, ln = struct.unpack("<BBBHH", plain[off:off + 7])
            if off + 7 + ln > len(plain):
                self.problems.append("request ends inside a PDU body")
                break
            body = plain[off + 7:off + 7 + ln]
            off += 7 + ln
            if control != 0:
                self.problems.append(f"request PDU with control byte 0x{control:02x}")
            st, rb = self.serve(opcode, iid, body)
            items.append([opcode, tid, iid, body, st, rb])
            out += struct.pack("<BBBH", 0x02, tid, st, len(rb)) + rb
        self.posts.append(items)
        payload = self.enc.encrypt(struct.pack("<4xQ", self.tx), out, b"")
        self.tx += 1
        fut = asyncio.get_running_loop().create_future()
        fut.set_result(types.SimpleNamespace(code=Code.CHANGED, payload=payload))
        return types.SimpleNamespace(response=fut)

    async def shutdown(self):
        pass

    def serve(self, opcode, iid, body):
        c = self.by_iid.get(iid)
        if opcode == 0x09:
            return 0, self.db
        st = self.script.get(iid)
        if c is None:
            return st or 4, b""
        if opcode == 0x03:
            st = st if st is not None else (0 if c["props"] & 0x10 else 6)
            return st, (_tlv8(0x01, self.values[iid]) if st == 0 else b"")
        if opcode == 0x02:
            st = st if st is not None else (0 if c["props"] & 0x20 else 6)
            if st == 0:
                tl = _tlv8_parse(body)
                v = dict(tl).get(0x01) if tl is not None else None
                code = COAP_FMT[c["fmt"]][1]
                if v is None or (code is not None and len(v) != struct.calcsize(code)):
                    return 6, b""  # a value this characteristic cannot hold
                self.values[iid] = v
            return st, b""
        if opcode in (0x0B, 0x0C):
            return (st if st is not None else (0 if c["props"] & 0x80 else 6)), b""
        return 1, b""


def _status_of(entry):
    if entry is None:
        return None
    return entry.get("status") if isinstance(entry, dict) else "?"


async def _coap_conn_history(case):
    """-> (signature, what, op index) of the first violated requirement, or None"""
    import aiohomekit.controller.coap.connection as coapc
    layout = case["layout"]
    acc = _CoapAccessory(layout)
    conn = coapc.CoAPHomeKitConnection(None, "fd00::17", 5683)
    # an established session (what pair-verify leaves behind); from here on everything is the library's own code
    conn.enc_ctx = coapc.EncryptionContext(ChaCha20Poly1305(COAP_K_A2C), ChaCha20Poly1305(COAP_K_C2A), ChaCha20Poly1305(COAP_K_EVT), "coap://[fd00::17]:5683/", acc)
    fmt = {c["iid"]: c["fmt"] for c in layout}
    props = {c["iid"]: c["props"] for c in layout}
    # ---- database sweep: per service one batch read of the readable characteristics; value i belongs to characteristic i
    acc.script = {int(k): v for k, v in case.get("sweep_err", {}).items()}
    try:
        dump = await conn.get_accessory_info()
    except Exception as e:  # noqa: BLE001
        return ("coap-conn/sweep-" + type(e).__name__, f"get_accessory_info raised {type(e).__name__}: {e}"[:300], -1)
    if acc.problems:
        return ("coap-conn/request", f"database sweep: {acc.problems[0]}", -1)
    seen = {}
    for a in dump:
        for s in a["services"]:
            for ch in s["characteristics"]:
                seen[(a["aid"], ch["iid"])] = ch
    for c in layout:
        ent = seen.get((c["aid"], c["iid"]))
        if ent is None:
            return ("coap-conn/sweep-attribution", f"database sweep: characteristic {c['aid']}.{c['iid']} of the accessory's database is missing from the result", -1)
        served = [it for post in acc.posts for it in post if it[0] == 0x03 and it[2] == c["iid"]]
        answered = served[-1][4] if served else None
        if answered == 0:
            if "value" not in ent or not _coap_same(c["fmt"], ent["value"], acc.values[c["iid"]]):
                return ("coap-conn/sweep-attribution", f"database sweep: the accessory answered the read of iid {c['iid']} ({c['fmt']}) with {hx(acc.values[c['iid']])[:40]}, the database reports {ent.get('value', '(nothing)')!r:.60} for it "
                        f"(batches: {[[(it[2], it[4]) for it in post] for post in acc.posts if post and post[0][0] == 0x03]})", -1)
        elif "value" in ent and ent["value"] is not None:
            return ("coap-conn/sweep-attribution", f"database sweep: iid {c['iid']} was {'refused with status ' + str(answered) if served else 'never read'}, yet the database reports the value {ent['value']!r:.60} for it", -1)
    # ---- operations on the one connection
    for n, op in enumerate(case["ops"]):
        kind = op["op"]
        acc.script = {int(k): v for k, v in op.get("script", {}).items()}
        del acc.posts[:], acc.problems[:]
        items = [tuple(it) for it in op["items"]]
        ids = [(a, i) for a, i, *_ in items]
        label = f"op {n}: {kind} of " + ", ".join(f"{a}.{i}" + (f"={v!r:.24}" if kind == "write" else "") + f"[{fmt.get(i, 'unknown')},0x{props.get(i, 0):x}]" for a, i, *v in items)
        result = raised = None
        try:
            if kind == "write":
                result = await conn.write_characteristics([(a, i, _coap_arg(fmt[i], v)) for a, i, v in items])
            elif kind == "read":
                arg = ids if op.get("as", "list") == "list" else (tuple(ids) if op["as"] == "tuple" else dict.fromkeys(ids).keys())
                result = await conn.read_characteristics(arg)
            elif kind == "sub":
                result = await conn.subscribe_to(ids)
            else:
                result = await conn.unsubscribe_from(ids)
        except Exception as e:  # noqa: BLE001
            raised = f"{type(e).__name__}: {e}"[:200]
        need = {"write": 0x20, "read": 0x10, "sub": 0x80, "unsub": 0x80}[kind]
        refusable = {i for _, i in ids if not props.get(i, 0) & need}  # items a controller may turn down itself: the database says the accessory would
        if acc.problems:
            return ("coap-conn/request", f"{label}: {acc.problems[0]}", n)
        got = [it for post in acc.posts for it in post]
        # request side: what the accessory received, item by item, is what the caller asked for - under the item's own instance id
        want = [(i, _tlv8(0x01, _coap_raw(fmt[i], v[0])) if kind == "write" else b"") for _, i, *v in items]
        recv = ", ".join(f"iid {it[2]} <- {hx(it[3])[:28]}" for it in got) or "nothing"
        delivered = set()
        wanted = dict(want)
        for it in got:
            if it[0] != COAP_OPS[kind]:
                return ("coap-conn/request-attribution", f"{label}: the accessory received opcode 0x{it[0]:02x} for iid {it[2]}", n)
            if it[2] not in wanted or it[2] in delivered:
                return ("coap-conn/request-attribution", f"{label}: the accessory received ({recv}); the PDU for iid {it[2]} is {'a second one for that item' if it[2] in delivered else 'for an instance id that was not requested'}", n)
            if kind == "write":
                tl = _tlv8_parse(it[3])
                v = dict(tl).get(0x01) if tl is not None else None
                mine = dict(_tlv8_parse(wanted[it[2]]))[0x01]
                if v != mine:
                    whose = [f"{a}.{i}" for a, i, x in items if i != it[2] and _coap_raw(fmt[i], x) == v]
                    return ("coap-conn/request-attribution", f"{label}: the accessory received ({recv}): iid {it[2]} carries {hx(v or b'')[:40]}"
                            + (f", which is the value given for {whose[0]}" if whose else "") + f"; the caller's value for it encodes as {hx(mine)[:40]}", n)
            delivered.add(it[2])
        missing = [i for _, i in ids if i not in delivered]
        if raised is not None:
            if not (set(missing) & refusable):
                return ("coap-conn/raised", f"{label}: raised {raised} (the accessory received: {recv})", n)
            continue  # the call failed as a whole because of an item the controller refuses itself: nothing was attributed to anybody
        if not isinstance(result, dict):
            return ("coap-conn/result", f"{label}: returned {result!r:.80}", n)
        for i in missing:
            key = next(k for k in ids if k[1] == i)
            if i not in refusable:
                return ("coap-conn/request-dropped", f"{label}: the accessory received ({recv}): nothing for iid {i}, which the accessory's database allows", n)
            if _status_of(result.get(key)) in (None, 0):
                return ("coap-conn/request-dropped", f"{label}: iid {i} was never sent (the accessory received: {recv}) and the result {result!r:.120} reports no error for it", n)
        # response side: the outcome the accessory gave for an item is the outcome reported for that item
        for key in result:
            if key not in ids:
                return ("coap-conn/attribution", f"{label}: the result has an entry for {key}, which was not requested", n)
        answered = {it[2]: it for it in got}
        for key in ids:
            it = answered.get(key[1])
            if it is None:
                continue
            ent = result.get(key)
            if it[4] != 0:
                if _status_of(ent) != -it[4]:
                    return ("coap-conn/attribution", f"{label}: the accessory refused iid {key[1]} with status {it[4]} (per item: {[(x[2], x[4]) for x in got]}); the result reports {ent!r:.80} for it", n)
            elif kind == "read":
                if not isinstance(ent, dict) or "value" not in ent or not _coap_same(fmt[key[1]], ent["value"], dict(_tlv8_parse(it[5]))[0x01]):
                    return ("coap-conn/attribution", f"{label}: the accessory answered iid {key[1]} with the value {hx(dict(_tlv8_parse(it[5]))[0x01])[:40]} (per item: {[(x[2], x[4]) for x in got]}); "
                            f"the result reports {ent!r:.80} for it", n)
            elif ent is not None and _status_of(ent) not in (None, 0):
                return ("coap-conn/attribution", f"{label}: the accessory accepted iid {key[1]} (per item: {[(x[2], x[4]) for x in got]}); the result reports {ent!r:.80} for it", n)
    return None


def _gen_coap_history(rng):
    nchar = rng.randrange(6, 13)
    fmts = list(COAP_FMT)
    rng.shuffle(fmts)
    prs = list(COAP_PROPS)
    rng.shuffle(prs)
    iids = rng.sample(range(2, 400), nchar) if rng.random() < 0.8 else rng.sample([2, 255, 256, 257, 1000, 4660, 65535, 65534, 300, 301, 302, 9], nchar)
    two = rng.random() < 0.3
    layout = []
    for k in range(nchar):
        f = fmts[k % len(fmts)]
        layout.append({"aid": 2 if two and k >= nchar // 2 else 1, "svc": rng.randrange(0, 3), "iid": iids[k], "type": 0x100 + k, "fmt": f, "props": prs[k % len(prs)] if rng.random() < 0.85 else rng.choice(COAP_PROPS),
                       "value": _coap_gen_value(rng, f)})
    # every service has a readable characteristic (an accessory information / name at least): the sweep of a service without one is an EMPTY batch, outside the property's 1..6 items
    for c in layout:
        if not any(o["props"] & 0x10 for o in layout if (o["aid"], o["svc"]) == (c["aid"], c["svc"])):
            home = [o for o in layout if o["aid"] == c["aid"] and o["props"] & 0x10]
            if home:
                c["svc"] = home[0]["svc"]
            else:
                c["props"] = 0x10 | 0x80
    readable = [c["iid"] for c in layout if c["props"] & 0x10]
    sweep_err = {str(i): rng.randrange(1, 7) for i in readable if rng.random() < 0.15}
    ops = []
    for _ in range(rng.randrange(2, 6)):
        kind = rng.choice(["write", "write", "write", "read", "read", "sub", "unsub"])
        n = rng.randrange(1, 7)
        chosen = rng.sample(layout, min(n, len(layout)))  # any order, independent of the database order
        if rng.random() < 0.25:
            chosen.sort(key=lambda c: c["iid"], reverse=rng.random() < 0.5)
        need = {"write": 0x20, "read": 0x10, "sub": 0x80, "unsub": 0x80}[kind]
        items = [[c["aid"], c["iid"]] + ([_coap_gen_value(rng, c["fmt"])] if kind == "write" else []) for c in chosen]
        if kind != "write" and rng.random() < 0.2:
            items.insert(rng.randrange(len(items) + 1), [1, 500 + rng.randrange(50)])  # an instance id the database does not have
            items = items[:6]
        script = {str(c["iid"]): rng.randrange(1, 7) for c in chosen if rng.random() < (0.2 if c["props"] & need else 0.5)}
        op = {"op": kind, "items": items, "script": script}
        if kind == "read":
            op["as"] = rng.choice(["list", "list", "tuple", "keys"])
        ops.append(op)
    return {"stream": "coap-conn", "layout": layout, "sweep_err": sweep_err, "ops": ops}


def _grid_coap_histories(rng):
    """every entry point x every vector over {the database allows the item, it does not} for batches of 1..4 items (positions of a refusable item: all),
    on a database with every permission mix and every format"""
    fmts = list(COAP_FMT)
    for kind, need in (("write", 0x20), ("read", 0x10), ("sub", 0x80), ("unsub", 0x80)):
        for n in range(1, 5):
            vectors = list(itertools.product((True, False), repeat=n))
            for g in range(0, len(vectors), 4):
                rng.shuffle(fmts)
                iids = rng.sample(range(2, 600), len(COAP_PROPS))
                layout = [{"aid": 1, "svc": k % 2, "iid": iids[k], "type": 0x200 + k, "fmt": fmts[k % len(fmts)], "props": p, "value": _coap_gen_value(rng, fmts[k % len(fmts)])} for k, p in enumerate(COAP_PROPS)]
                for c in layout:
                    if not c["props"] & 0x10:
                        c["svc"] = 0  # COAP_PROPS[0] is readable: no service without a readable characteristic
                ops = []
                for vec in vectors[g:g + 4]:
                    yes = rng.sample([c for c in layout if c["props"] & need], n)
                    no = rng.sample([c for c in layout if not c["props"] & need], n)
                    chosen = [yes[k] if ok else no[k] for k, ok in enumerate(vec)]
                    ops.append({"op": kind, "items": [[c["aid"], c["iid"]] + ([_coap_gen_value(rng, c["fmt"])] if kind == "write" else []) for c in chosen],
                                "script": {str(c["iid"]): rng.randrange(1, 7) for c in chosen if rng.random() < 0.2}, "as": "list"})
                yield {"stream": "coap-conn", "layout": layout, "sweep_err": {}, "ops": ops}


def coap_connection_batches(ctx: Ctx):
    rng = ctx.rng
    loop = asyncio.new_event_loop()
    try:
        ctx.notes.append("coap-conn: generated databases give every service a readable characteristic and batches have 1..6 items: an EMPTY batch (the sweep of a service without a readable "
                         "characteristic, read_/write_characteristics([]), subscribe_to([]), read_characteristics(<generator>)) is answered with an empty payload that decode_all_pdus cannot "
                         "decode (struct.error on the unchanged tree) - outside the property's quantifier, not gated")
        grid = list(_grid_coap_histories(rng))
        for trial in range(len(grid) + ctx.budget(300, 5000)):
            case = grid[trial] if trial < len(grid) else _gen_coap_history(rng)
            ctx.evaluations += 1 + len(case["ops"])
            try:
                bad = loop.run_until_complete(_coap_conn_history(case))
            except Exception as e:  # noqa: BLE001 - nothing the library does may take the check down
                bad = ("coap-conn/" + type(e).__name__, f"history could not be completed: {type(e).__name__}: {e}"[:300], len(case["ops"]))
            if bad:
                case["ops"] = case["ops"][:bad[2] + 1]
                ctx.violation(bad[0], bad[1], case)
            pr = {c["iid"]: c["props"] for c in case["layout"]}
            for op in case["ops"]:
                need = {"write": 0x20, "read": 0x10, "sub": 0x80, "unsub": 0x80}[op["op"]]
                shape = tuple(bool(pr.get(it[1], 0) & need) for it in op["items"])
                ctx.nontrivial.add(("coap-conn", op["op"], shape, tuple(sorted(op.get("script", {}).values()))[:3]))
                ctx.dist["coap-conn:" + op["op"] + (":with an item the database does not allow" if not all(shape) else "")] += 1
            if trial == 2:
                ctx.sample(case)
    finally:
        loop.close()
