"""C17 - HAP PDUs are fragmented, reassembled and attributed correctly (BLE, CoAP)."""
from __future__ import annotations

import asyncio
import itertools
import struct

from cryptography.hazmat.primitives.ciphers.aead import ChaCha20Poly1305

from harness import cryptoval
from harness.common import Ctx, Driver, compare_with_model, hx, load_corpus

import aiohomekit.controller.ble.client as bc
import aiohomekit.controller.coap.pdu as cp
import aiohomekit.pdu as bp
from aiohomekit.controller.ble.key import DecryptionKey, EncryptionKey
from aiohomekit.exceptions import EncryptionError

ID = "C17"
RULE = ("BLE requests: exhaustive fragment sizes 8..64 x body lengths 0..200 (11457 cells) + realistic sizes {20,155,244,496,512} x lengths <=5000, plain and encrypted; "
        "BLE responses: ALL fragmentations (first piece + compositions of the rest) of bodies <=9 bytes, random above, wrong tid / missing continuation flag / unknown status / "
        "truncated headers; CoAP: all batches of 1..4 (quick) / 1..6 (thorough) items over 5 outcome kinds with varying body lengths, plus malformed tails. "
        "non-trivial = distinct (stream, shape) where shape = (fs,len) cell, fragmentation composition, or outcome vector")
TRUSTED = ["cryptography ChaCha20Poly1305 as the reference accessory cipher", "Python struct"]
ASSUMPTIONS = ["GATT transport (bleak) is replaced by a scripted characteristic: write_gatt_char records, read_gatt_char returns the next scripted fragment"]
EXPLANATION = "Lean theorems C17_* over models of encode_pdu/decode_pdu/_read_pdu/CoAP batch codec; differential tie on the real functions"


def nonce(c):
    return struct.pack("<LQ", 0, c)


class _Handle:
    properties = ["read", "write"]


class _Client:
    address = "AA"

    def __init__(self, fs, reads=()):
        self.fs = fs
        self.writes = []
        self.reads = list(reads)
        self.nread = 0

    def determine_fragment_size(self, overhead, handle):
        return self.fs - overhead

    async def write_gatt_char(self, handle, data, response):
        self.writes.append(bytes(data))

    async def read_gatt_char(self, handle):
        if not self.reads:
            raise _Starved()
        self.nread += 1
        return self.reads.pop(0)


class _Starved(Exception):
    pass


def frs(l):
    return " ".join(hx(f) for f in l) if l else "."


def ref_reassemble(frags, tid):
    """conformant accessory: returns (opcode, tid, iid, body) or None"""
    f0 = frags[0]
    if len(f0) < 5:
        return None
    ctrl, op, t, iid = struct.unpack("<BBBH", f0[:5])
    if ctrl != 0 or t != tid:
        return None
    if len(f0) == 5:
        return (op, t, iid, b"") if len(frags) == 1 else None
    if len(f0) < 7:
        return None
    ln = struct.unpack("<H", f0[5:7])[0]
    data = f0[7:]
    for f in frags[1:]:
        if len(f) < 2 or f[0] != 0x80 or f[1] != tid:
            return None
        data += f[2:]
    if len(data) != ln:
        return None
    return (op, t, iid, data)


def run(ctx: Ctx, driver: Driver):
    rng = ctx.rng
    loop = asyncio.new_event_loop()
    cryptoval.validate(ctx, driver, 4)
    for c in load_corpus(ID):
        replay(ctx, driver, c)

    # ------------------------------------------------------------ BLE requests (encode_pdu / _write_pdu)
    cases, outs, lines = [], [], []
    cells = [(fs, L) for fs in range(8, 65) for L in range(0, 201)]
    cells += [(fs, L) for fs in (20, 155, 244, 496, 512) for L in ([0, 1, fs - 8, fs - 7, fs - 6, 2 * fs - 9, 2 * fs - 8, 5000] + [rng.randrange(0, 5001) for _ in range(ctx.budget(6, 200))])]
    opcodes = list(bp.OpCode)
    for n, (fs, L) in enumerate(cells):
        op = opcodes[n % len(opcodes)]
        tid = rng.randrange(0, 256)
        iid = rng.choice([0, 1, 255, 256, 0x1234, 65535])
        body = bytes((i * 7 + L) % 256 for i in range(L))
        encrypted = (n % 9 == 0)
        ctx.evaluations += 1
        case = {"stream": "ble-req", "fs": fs, "len": L, "opcode": op.value, "tid": tid, "iid": iid, "enc": encrypted}
        try:
            if encrypted:
                key = bytes(rng.randrange(256) for _ in range(32))
                ctr = rng.choice([0, 1, 300, 2 ** 32])
                ek = EncryptionKey(key)
                ek.counter = ctr
                cl = _Client(fs + 16)
                loop.run_until_complete(bc._write_pdu(cl, ek, op, _Handle(), iid, body, tid))
                writes = cl.writes
                plain = []
                for i, w in enumerate(writes):
                    plain.append(ChaCha20Poly1305(key).decrypt(nonce(ctr + i), w, b""))
                fits = all(len(w) <= fs + 16 for w in writes)
                case.update(key=hx(key), ctr=ctr)
            else:
                cl = _Client(fs)
                loop.run_until_complete(bc._write_pdu(cl, None, op, _Handle(), iid, body, tid))
                writes = plain = cl.writes
                fits = all(len(w) <= fs for w in writes)
        except Exception as e:  # noqa: BLE001
            ctx.violation("ble-req/" + type(e).__name__, f"_write_pdu raised {type(e).__name__} for fs={fs} len={L}", case)
            continue
        r = ref_reassemble(plain, tid)
        ctx.nontrivial.add(("ble-req", fs, L if L <= 200 else 201 + L // 500, encrypted))
        if not fits:
            ctx.violation("ble-req/too-large", f"a fragment exceeds the negotiated size fs={fs} (len={L})", case)
        elif r != (op.value, tid, iid, body):
            ctx.violation("ble-req/reassembly", f"a conformant accessory does not reassemble the request (fs={fs}, len={L}) to the same opcode/tid/iid/body", case)
        cases.append(case)
        outs.append(frs(writes))
        if encrypted:
            lines.append(f"pdu.encenc {hx(key)} {ctr} {op.value} {tid} {iid} {fs} {hx(body)}")
        else:
            lines.append(f"pdu.enc {op.value} {tid} {iid} {fs} {hx(body)}")
        ctx.dist["ble-req" + (":enc" if encrypted else "")] += 1
    ctx.sample(cases[777])
    compare_with_model(ctx, "ble-req", cases, outs, lines, driver)

    # ------------------------------------------------------------ BLE responses (_read_pdu)
    cases, outs, lines = [], [], []

    def one_read(kind, tid, frags, want, key=None, ctr=0, wire=None):
        """want = (status, body, consumed) or 'error' or None (no oracle)"""
        ctx.evaluations += 1
        case = {"stream": "ble-resp", "kind": kind, "tid": tid, "frags": [hx(f) for f in (wire or frags)]}
        if key:
            case.update(key=hx(key), ctr=ctr)
        cl = _Client(512, wire or frags)
        dk = None
        if key:
            dk = DecryptionKey(key)
            dk.counter = ctr
        try:
            st, data = loop.run_until_complete(bc._read_pdu(cl, dk, _Handle(), tid))
            out = f"ok {st.value} {hx(data)} {cl.nread}"
            got = (st.value, bytes(data), cl.nread)
        except _Starved:
            out = f"err index {cl.nread}"
            got = "starved"
        except struct.error:
            out = f"err struct {cl.nread}"
            got = "error"
        except EncryptionError:
            out = f"err encryption {cl.nread}"
            got = "error"
        except ValueError:
            out = f"err value {cl.nread}"
            got = "error"
        except Exception as e:  # noqa: BLE001
            out = f"exc {type(e).__name__}"
            got = "exc"
            ctx.violation("ble-resp/" + type(e).__name__, f"_read_pdu raised {type(e).__name__} ({kind})", case)
        if key:
            out += f" ctr={dk.counter}"
        if want is not None and got != "exc" and got != want:
            ctx.violation("ble-resp/" + kind, f"{kind}: _read_pdu gave {str(got)[:80]} but the accessory sent {str(want)[:80]}", case)
        cases.append(case)
        outs.append(out)
        if key:
            lines.append(f"pdu.readenc {hx(key)} {ctr} {tid} " + " ".join(hx(f) for f in wire))
        else:
            lines.append(f"pdu.read {tid} " + " ".join(hx(f) for f in frags))
        ctx.dist["ble-resp:" + kind] += 1

    def compositions(rest):
        if not rest:
            yield []
            return
        for r in range(len(rest)):
            for comp in itertools.combinations(range(1, len(rest)), r):
                pts = (0,) + comp + (len(rest),)
                yield [rest[a:b] for a, b in zip(pts, pts[1:])]

    maxL = ctx.budget(8, 11)
    for L in range(0, maxL + 1):
        body = bytes(range(1, L + 1))
        for k in range(0, L + 1):
            for parts in compositions(body[k:]):
                tid = 9 + (L + k) % 200
                st = (L + k + len(parts)) % 7
                frags = [struct.pack("<BBBH", 2, tid, st, L) + body[:k]] + [bytes([0x80 | (len(p) % 2) * 2, tid]) + p for p in parts]
                ctx.nontrivial.add(("ble-resp", L, k, tuple(len(p) for p in parts)))
                one_read("fragmentation", tid, frags, (st, body, len(frags)))
    for _ in range(ctx.budget(400, 8000)):
        L = rng.choice([0, 1, 2, 100, 500, 505, 2000, rng.randrange(0, 3000)])
        body = bytes(rng.randrange(256) for _ in range(L))
        fs = rng.choice([20, 155, 244, 496, 512])
        tid = rng.randrange(0, 256)
        st = rng.randrange(0, 7)
        k = min(L, rng.choice([0, fs - 5, rng.randrange(0, fs)]))
        rest = body[k:]
        parts = []
        while rest:
            n = rng.choice([fs - 2, rng.randrange(1, fs)])
            parts.append(rest[:n])
            rest = rest[n:]
        first = struct.pack("<BBBH", 2, tid, st, L) + body[:k]
        if L == 0 and rng.random() < 0.5:
            first = struct.pack("<BBB", 2, tid, st)
        frags = [first] + [bytes([rng.choice([0x80, 0x82, 0xFF]), tid]) + p for p in parts]
        mode = rng.randrange(10)
        ctx.nontrivial.add(("ble-resp-rand", mode, min(len(parts), 6), L == 0))
        if mode <= 3:
            one_read("random-frag", tid, frags, (st, body, len(frags)))
        elif mode == 4:
            key = bytes(rng.randrange(256) for _ in range(32))
            ctr = rng.choice([0, 5, 2 ** 32 + 1])
            wire = [ChaCha20Poly1305(key).encrypt(nonce(ctr + i), f, b"") for i, f in enumerate(frags)]
            one_read("encrypted", tid, frags, (st, body, len(frags)), key=key, ctr=ctr, wire=wire)
        elif mode == 5 and len(frags) > 1:
            i = rng.randrange(1, len(frags))
            bad = bytearray(frags[i])
            bad[1] = (bad[1] + 1 + rng.randrange(255)) % 256
            frags[i] = bytes(bad)
            one_read("cont-wrong-tid", tid, frags, "error")
        elif mode == 6 and len(frags) > 1:
            i = rng.randrange(1, len(frags))
            bad = bytearray(frags[i])
            bad[0] &= 0x7F
            frags[i] = bytes(bad)
            one_read("cont-no-flag", tid, frags, "error")
        elif mode == 7:
            bad = bytearray(frags[0])
            bad[1] = (bad[1] + 1 + rng.randrange(255)) % 256
            frags[0] = bytes(bad)
            one_read("first-wrong-tid", tid, frags, "error")
        elif mode == 8:
            key = bytes(rng.randrange(256) for _ in range(32))
            ctr = rng.choice([0, 7])
            wire = [ChaCha20Poly1305(key).encrypt(nonce(ctr + i), f, b"") for i, f in enumerate(frags)]
            i = rng.randrange(len(wire))
            b = bytearray(wire[i])
            b[rng.randrange(len(b))] ^= 1 << rng.randrange(8)
            wire[i] = bytes(b)
            one_read("encrypted-corrupt", tid, frags, "error", key=key, ctr=ctr, wire=wire)
        else:
            # malformed: truncation / unknown status / garbage
            j = rng.randrange(len(frags))
            f = bytearray(frags[j])
            t = rng.randrange(3)
            if t == 0:
                f = f[:rng.randrange(0, min(len(f), 6) + 1)]
            elif t == 1 and len(f) > 2:
                f[2] = rng.randrange(7, 256)
            else:
                f = bytearray(rng.randrange(256) for _ in range(rng.randrange(0, 8)))
            frags[j] = bytes(f)
            one_read("malformed", tid, frags, None)
    ctx.sample(cases[5])
    compare_with_model(ctx, "ble-resp", cases, outs, lines, driver)

    # ------------------------------------------------------------ CoAP batches
    cases, outs, lines = [], [], []
    kinds = ["ok0", "okn", "err", "tid", "ctl"]
    maxN = ctx.budget(4, 6)
    for N in range(1, maxN + 1):
        for combo in itertools.product(kinds, repeat=N):
            if N >= 5 and rng.random() < 0.6:
                continue
            data = b""
            exp = []
            for i, k in enumerate(combo):
                body = bytes([i + 1]) * rng.choice([1, 2, 3, 40, 300])
                if k == "ok0":
                    data += struct.pack("<BBBH", 2, i, 0, 0)
                    exp.append("b:-")
                elif k == "okn":
                    data += struct.pack("<BBBH", rng.choice([2, 0x12, 0x83]), i, 0, len(body)) + body
                    exp.append("b:" + hx(body))
                elif k == "err":
                    s = rng.randrange(1, 7)
                    data += struct.pack("<BBBH", 2, i, s, len(body)) + body
                    exp.append(f"s:{s}")
                elif k == "tid":
                    data += struct.pack("<BBBH", 2, (i + 1 + rng.randrange(255)) % 256, 0, len(body)) + body
                    exp.append("s:256")
                else:
                    data += struct.pack("<BBBH", rng.choice([0, 4, 6, 0x0A, 0x80]), i, 0, len(body)) + body
                    exp.append("s:257")
            ctx.evaluations += 1
            case = {"stream": "coap-dec", "start": 0, "data": hx(data), "combo": list(combo)}
            out = impl_coap_dec(0, data)
            ctx.nontrivial.add(("coap", combo))
            if out.startswith("exc"):
                ctx.violation("coap/" + out, f"decode_all_pdus raised {out}", case)
            elif out != "ok " + " ".join(exp):
                ctx.violation("coap/positional", f"batch {combo}: decoded {out[:120]} but the accessory's per-item outcomes are {' '.join(exp)[:120]}", case)
            cases.append(case)
            outs.append(out)
            lines.append(f"coap.dec 0 {hx(data)}")
            ctx.dist["coap-dec"] += 1
    for _ in range(ctx.budget(500, 10000)):
        # malformed / truncated batches (outside the property; correspondence only) and other start tids
        n = rng.randrange(1, 4)
        data = b""
        for i in range(n):
            body = bytes(rng.randrange(256) for _ in range(rng.randrange(0, 6)))
            data += struct.pack("<BBBH", rng.choice([2, 2, 0]), rng.choice([i, i, rng.randrange(256)]), rng.choice([0, 0, rng.randrange(0, 9)]), rng.choice([len(body), len(body), rng.randrange(0, 9)])) + body
        if rng.random() < 0.5:
            data = data[:rng.randrange(0, len(data) + 1)]
        start = rng.choice([0, 0, 1, 250])
        out = impl_coap_dec(start, data)
        ctx.evaluations += 1
        cases.append({"stream": "coap-dec", "start": start, "data": hx(data)})
        outs.append(out)
        lines.append(f"coap.dec {start} {hx(data)}")
        ctx.dist["coap-dec-malformed:" + out.split()[0]] += 1
    ctx.sample(cases[40])
    compare_with_model(ctx, "coap-dec", cases, outs, lines, driver, canon=lambda s: s if not s.startswith("exc") else "err " + {"error": "struct", "ValueError": "value"}.get(s.split()[1], s.split()[1]))
    # CoAP request encoding + attribution
    cases, outs, lines = [], [], []
    ops = list(cp.OpCode)
    for _ in range(ctx.budget(300, 5000)):
        n = rng.randrange(0, 7)
        iids = [rng.choice([1, 10, 255, 256, 65535, rng.randrange(65536)]) for _ in range(n)]
        datas = [bytes(rng.randrange(256) for _ in range(rng.choice([0, 1, 3, 300]))) for _ in range(n)]
        op = rng.choice(ops)
        enc = cp.encode_all_pdus(op, iids, datas)
        ctx.evaluations += 1
        case = {"stream": "coap-enc", "opcode": op.value, "items": [[i, hx(d)] for i, d in zip(iids, datas)]}
        # oracle: conformant accessory parse
        off = 0
        parsed = []
        okp = True
        while off < len(enc):
            c, o, t, iid, ln = struct.unpack("<BBBHH", enc[off:off + 7])
            parsed.append((c, o, t, iid, enc[off + 7:off + 7 + ln]))
            off += 7 + ln
        if parsed != [(0, op.value, i, iid, d) for i, (iid, d) in enumerate(zip(iids, datas))]:
            ctx.violation("coap/request", "batch request does not parse back to the requested items with tids 0..n-1", case)
        cases.append(case)
        outs.append(hx(enc))
        lines.append(f"coap.enc {op.value} " + " ".join(f"{i}:{hx(d)}" for i, d in zip(iids, datas)))
        ctx.nontrivial.add(("coap-enc", n))
    compare_with_model(ctx, "coap-enc", cases, outs, lines, driver)
    attribution_oracle(ctx)
    coap_batch_end_to_end(ctx)
    loop.close()


def impl_coap_dec(start, data):
    try:
        r = cp.decode_all_pdus(start, data)
        return "ok " + " ".join(("b:" + hx(x)) if isinstance(x, (bytes, bytearray)) else f"s:{x.value}" for x in r)
    except struct.error:
        return "err struct"
    except ValueError:
        return "err value"
    except Exception as e:  # noqa: BLE001
        return "exc " + type(e).__name__


def coap_batch_end_to_end(ctx: Ctx):
    """EncryptionContext.post_all end to end (real ChaCha20-Poly1305 both ways): a conformant accessory decrypts the batch,
    answers every item under the transaction id the request gave it (per-item outcomes scripted), and the i-th result must
    belong to the i-th item.  The library's random source is pinned to values at both ends of the tid range, so any use of
    it for batch transaction ids is exercised at the wrap."""
    import asyncio
    import random as _random
    from unittest import mock

    from cryptography.hazmat.primitives.ciphers.aead import ChaCha20Poly1305

    import aiohomekit.controller.coap.connection as coapc
    rng = ctx.rng
    k_c2a, k_a2c = bytes(range(32)), bytes(range(32, 64))

    async def one(iids, datas, outcomes, pinned):
        class Resp:
            def __init__(self, payload):
                self.payload = payload
                self.code = coapc.Code.CHANGED
        seen = {}

        class CoapCtx:
            def request(self, msg):
                plain = ChaCha20Poly1305(k_c2a).decrypt(struct.pack("=4xQ", 0), bytes(msg.payload), b"")
                out = b""
                off = 0
                items = []
                while off < len(plain):
                    control, opcode, tid, iid, ln = struct.unpack("<BBBHH", plain[off:off + 7])
                    items.append((tid, iid, plain[off + 7:off + 7 + ln]))
                    off += 7 + ln
                seen["items"] = items
                for (tid, iid, body), oc in zip(items, outcomes):
                    if oc == "ok0":
                        out += struct.pack("<BBBH", 0b10, tid, 0, 0)
                    elif oc == "okn":
                        b = bytes([1, 2, iid & 0xFF, tid])
                        out += struct.pack("<BBBH", 0b10, tid, 0, len(b)) + b
                    else:
                        out += struct.pack("<BBBH", 0b10, tid, int(oc[1:]), 0)
                f = asyncio.get_event_loop().create_future()
                f.set_result(Resp(ChaCha20Poly1305(k_a2c).encrypt(struct.pack("=4xQ", 0), out, b"")))

                class R:
                    response = f
                return R()

            async def shutdown(self):
                pass
        ectx = coapc.EncryptionContext(ChaCha20Poly1305(k_a2c), ChaCha20Poly1305(k_c2a), ChaCha20Poly1305(bytes(32)), "coap://x/", CoapCtx())
        seq = iter(pinned)
        with mock.patch.object(coapc.random if hasattr(coapc, "random") else _random, "randint", lambda a, b: min(max(next(seq, a), a), b)):
            res = await ectx.post_all(cp.OpCode.CHAR_READ, iids, datas)
        return res, seen.get("items")

    loop = asyncio.new_event_loop()
    try:
        for trial in range(ctx.budget(60, 800)):
            n = rng.randrange(1, 7)
            iids = rng.sample(range(1, 300), n)
            datas = [bytes(rng.randrange(256) for _ in range(rng.choice([0, 0, 1, 5]))) for _ in range(n)]
            outcomes = [rng.choice(["ok0", "okn", "okn", "e6", "e2"]) for _ in range(n)]
            pinned = [rng.choice([254, 253, 252, 251, 250, 1, 2, 128])] * 4
            ctx.evaluations += 1
            case = {"stream": "coap-batch", "iids": iids, "outcomes": outcomes, "pinned_random": pinned[0]}
            try:
                res, items = loop.run_until_complete(one(iids, datas, outcomes, pinned))
            except Exception as e:  # noqa: BLE001
                ctx.violation("coap/batch-raised", f"post_all of {n} items raised {type(e).__name__}: {e}", case)
                continue
            want = []
            for (tid, iid, body), oc in zip(items or [], outcomes):
                want.append(b"" if oc == "ok0" else (bytes([1, 2, iid & 0xFF, tid]) if oc == "okn" else cp.PDUStatus(int(oc[1:]))))
            if items is None or [i for _, i, _ in items] != iids or [b for _, _, b in items] != datas:
                ctx.violation("coap/batch-request", f"the batch request does not carry the requested items in order: {items}", case)
            elif list(res) != want:
                tids = [t for t, _, _ in items]
                ctx.violation("coap/batch-positional", f"batch of {n} items sent under tids {tids}, the accessory answered {outcomes} item by item under those tids; post_all returned {[r if isinstance(r, bytes) else r.name for r in res]}", case)
            ctx.nontrivial.add(("coap-batch", n, tuple(outcomes), pinned[0] > 200))
            ctx.dist["coap-batch"] += 1
    finally:
        loop.close()


def attribution_oracle(ctx: Ctx):
    """the result -> (aid, iid) mappers of the CoAP connection key the i-th result by the i-th requested id"""
    from aiohomekit.controller.coap.connection import CoAPHomeKitConnection
    rng = ctx.rng

    class _Char:
        """stands for a characteristic of the accessory database: the decoded value is the raw value, tagged"""
        def __init__(self):
            self.raw_value = None

        @property
        def value(self):
            return ("decoded", bytes(self.raw_value))

    class _Info:
        known = True

        def find_characteristic_by_iid(self, iid):
            return _Char() if self.known and iid % 3 else None

    conn = CoAPHomeKitConnection.__new__(CoAPHomeKitConnection)
    conn.info = _Info()
    for _ in range(ctx.budget(400, 4000)):
        n = rng.randrange(1, 7)
        ids = [(rng.choice([1, 2]), rng.randrange(1, 50)) for _ in range(n)]
        if len(set(ids)) != n:
            continue
        conn.info.known = rng.random() < 0.6
        # ok with an empty body, ok with a body that carries this item's own value (distinct per position), or an error
        results = [rng.choice([b"", b"", bytes([1, 3, 0xA0 + i, i, rng.randrange(256)]), bytes([1, 1, i]), cp.PDUStatus.INVALID_REQUEST, cp.PDUStatus.TID_MISMATCH,
                               cp.PDUStatus.BAD_CONTROL, cp.PDUStatus.INSUFFICIENT_AUTHORIZATION]) for i in range(n)]
        ctx.evaluations += 1
        case = {"stream": "coap-attr", "ids": ids, "results": [r.value if not isinstance(r, bytes) else "ok:" + hx(r) for r in results]}
        w = conn._write_characteristics_exit([(a, i, 0) for a, i in ids], results)
        want_w = {k: -r.value for k, r in zip(ids, results) if not isinstance(r, bytes)}
        if {k: v["status"] for k, v in w.items()} != want_w:
            ctx.violation("coap/attribution-write", "write results are not keyed by the requested ids in order", case)
        r = conn._read_characteristics_exit(ids, results)
        want_r = {k: (-x.value if not isinstance(x, bytes) else "value") for k, x in zip(ids, results)}
        got_r = {k: (v["status"] if "status" in v else "value") for k, v in r.items()}
        if got_r != want_r:
            ctx.violation("coap/attribution-read", "read results are not keyed by the requested ids in order", case)
        else:
            # every successful item reports the value of its own response body - nothing carried over from a neighbour
            for k, x in zip(ids, results):
                if isinstance(x, bytes):
                    own = bytes(x[2:])
                    got_v = r[k].get("value")
                    want_v = b"" if not x else (("decoded", own) if (conn.info.known and k[1] % 3) else own)
                    if got_v != want_v:
                        ctx.violation("coap/attribution-read-value", f"read of {ids} answered {case['results']}: the value reported for {k} is {got_v!r}, its own response body means {want_v!r}", case)
                        break
        for name in ("_subscribe_to_exit", "_unsubscribe_from_exit"):
            if hasattr(conn, name):
                s = getattr(conn, name)(ids, results)
                got = {k: v["status"] for k, v in s.items()}
                if got != want_w:
                    ctx.violation("coap/attribution-" + name, "subscribe results are not keyed by the requested ids in order", case)
        ctx.nontrivial.add(("coap-attr", tuple(case["results"])))
        ctx.dist["coap-attr"] += 1


def replay(ctx, driver, c):
    nv, nm = len(ctx.violations), len(ctx.mismatches)
    loop = asyncio.new_event_loop()
    try:
        if c["stream"] == "ble-req":
            body = bytes((i * 7 + c["len"]) % 256 for i in range(c["len"]))
            cl = _Client(c["fs"])
            loop.run_until_complete(bc._write_pdu(cl, None, bp.OpCode(c["opcode"]), _Handle(), c["iid"], body, c["tid"]))
            if not all(len(w) <= c["fs"] for w in cl.writes):
                return "fragment too large"
            if ref_reassemble(cl.writes, c["tid"]) != (c["opcode"], c["tid"], c["iid"], body):
                return "request not reassembled by a conformant accessory"
            compare_with_model(ctx, "ble-req", [c], [frs(cl.writes)], [f"pdu.enc {c['opcode']} {c['tid']} {c['iid']} {c['fs']} {hx(body)}"], driver)
        elif c["stream"] == "ble-resp" and "key" not in c:
            frags = [bytes.fromhex(f) if f != "-" else b"" for f in c["frags"]]
            cl = _Client(512, frags)
            try:
                st, data = loop.run_until_complete(bc._read_pdu(cl, None, _Handle(), c["tid"]))
                out = f"ok {st.value} {hx(data)} {cl.nread}"
            except _Starved:
                out = f"err index {cl.nread}"
            except struct.error:
                out = f"err struct {cl.nread}"
            except ValueError:
                out = f"err value {cl.nread}"
            compare_with_model(ctx, "ble-resp", [c], [out], [f"pdu.read {c['tid']} " + " ".join(hx(f) for f in frags)], driver)
        elif c["stream"] == "coap-dec":
            data = bytes.fromhex(c["data"]) if c["data"] != "-" else b""
            out = impl_coap_dec(c.get("start", 0), data)
            compare_with_model(ctx, "coap-dec", [c], [out], [f"coap.dec {c.get('start', 0)} {hx(data)}"], driver)
    finally:
        loop.close()
    if len(ctx.violations) > nv:
        return ctx.violations[-1]["what"]
    if len(ctx.mismatches) > nm:
        return "model/implementation mismatch: " + str(ctx.mismatches[-1])[:300]
    return None
