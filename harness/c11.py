"""C11 - a pairing never holds more than one open connection and leaks none."""
from __future__ import annotations

from harness import rcsim
from harness.c10 import run_cases
from harness.common import Ctx, Driver, load_corpus

ID = "C11"
SIGS = {"more-than-one-open", "leaked-connection", "close-raised", "open-after-close", "stale-loss-disturbs-current", "callback-raised"}
RULE = ("histories of connection attempts on the simulated network (virtual time, unpatched code against a scaffold accessory doing a real pair-verify): EVERY sequence of secure-session "
        "setup results up to length 3 (quick) / 5 (thorough) over {success, wrong pairing id, authentication error, other exception, no answer} with the concrete behaviour drawn from "
        "{bad signature, error TLV 1..7 at M2 or M4, peer close at M1 or M3, HTTP 470, malformed key}, followed by retries, peer-initiated closes of every connection index in every order, close and shutdown; "
        "EVERY schedule up to depth 3 (quick) / 4 (thorough) of {ensure, cancel, advance, zeroconf update, close, shutdown, accessory drops connection k}; random mixed histories. "
        "After every event the accessory-side set of open transports is compared with the pairing's current transport. non-trivial = distinct (addresses, history)")
TRUSTED = ["harness/simnet.py in-memory transport: close() -> connection_lost exactly once via call_soon; the accessory's view of 'open' is the set of transports not yet lost",
           "harness/acc.py scaffold accessory (pair-verify via `cryptography`)"]
ASSUMPTIONS = ["one model event = one harness action followed by running the loop to quiescence at that virtual instant; the census is taken at quiescence (a transport the controller closed is gone from the accessory's view once its loss callback ran)",
               "one characteristic is subscribed from the start, so every new session re-subscribes inside connection_made (the `ol` verdict drops the connection at that request); the subscription bookkeeping itself is C12"]
EXPLANATION = ("Lean theorems C11_* over HapVerif.Reconnect: the invariant open = current (at most one, none leaked) for every reachable state, failed setup leaves nothing open, close/shutdown total and leave nothing open - then or later, until something asks for a connection again (never, after shutdown) - , "
               "stale loss is the identity; differential tie on the open-connection census after every event + implementation-level census oracle and stale-loss probe")


def cases_for(ctx):
    rng = ctx.rng
    cases = []
    for c in load_corpus(ID):
        cases.append((c["hosts"], c["events"], "corpus"))
    for h, e in rcsim.gen_fault_sequences(rng, ctx.budget(3, 5), sample=ctx.budget(None, 4000)):
        # append closes of every connection index in a random order, then close
        idx = list(range(6))
        rng.shuffle(idx)
        end = rng.choice(["x", "X"])
        # ... and after the close: time passes (anything the connector still had in flight would land now); a shut-down
        # pairing also hears from zeroconf again
        after = [f"a:{12 * rcsim.U}"] + (["s", f"a:{rcsim.U}", "d:1,2", f"a:{12 * rcsim.U}"] if end == "X" else [])
        e = [x for x in e if x not in ("x", "X")] + [f"p:{k}" for k in idx[:3]] + [f"a:{rcsim.U}"] + [f"p:{k}" for k in idx[3:]] + [end, f"a:{rcsim.U}"] + after
        cases.append((h, e, "fault-seq"))
    # close while a TCP connect is still in flight, with more addresses to go and an accessory that would answer
    for hosts in ([1, 2], [1, 2, 3]):
        for pre in (["t:t", "t:o:0"], ["t:t", "t:t", "t:o:0"], ["t:r", "t:t", "t:o:0", "v:ok:ok"]):
            for start in ("e:1:-", "s"):
                for dt in (2, rcsim.U, 9 * rcsim.U):
                    for end in ("x", "X"):
                        cases.append((hosts, pre + [start, f"a:{dt}", end, f"a:{12 * rcsim.U}", f"a:{40 * rcsim.U}"], "close-in-flight"))
    for h, e in rcsim.gen_schedules(rng, ctx.budget(3, 4), sample=ctx.budget(700, 8000)):
        cases.append((h, e + ["x"], "schedule"))
    for _ in range(ctx.budget(700, 14000)):
        h, e = rcsim.gen_random(rng)
        end = rng.choice(["x", "X"])
        cases.append((h, e + [end, f"a:{12 * rcsim.U}"] + (["s", f"a:{rcsim.U}"] if end == "X" else []), "random"))
    return cases


def run(ctx: Ctx, driver: Driver):
    run_cases(ctx, driver, ID, SIGS, cases_for(ctx))
    ctx.notes.append("oracle on the implementation after every event: accessory-side open transports == {pairing.connection.transport}; close()/shutdown() must not raise and must leave none open; "
                     "the loss callback of a transport that is not current must leave the current transport untouched")


def replay(ctx: Ctx, driver: Driver, case):
    run_cases(ctx, driver, ID, SIGS, [(case["hosts"], case["events"], "replay")])


def search(ctx: Ctx, driver: Driver, broken):
    rng = ctx.rng
    cases = []
    for i in range(ctx.budget(3000, 30000)):
        h, e = rcsim.gen_random(rng)
        end = rng.choice(["x", "X"])
        cases.append((h, e + [end, f"a:{12 * rcsim.U}"] + (["s", f"a:{rcsim.U}"] if end == "X" else []), "search"))
    run_cases(ctx, driver, ID, SIGS, cases)
