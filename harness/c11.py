"""C11 - a pairing never holds more than one open connection and leaks none."""
from __future__ import annotations

from harness import rcsim
from harness.c10 import composite_cases, replay_tuple, run_cases
from harness.common import Ctx, Driver, load_corpus

ID = "C11"
SIGS = {"more-than-one-open", "leaked-connection", "close-raised", "open-after-close", "stale-loss-disturbs-current", "callback-raised", "setup-failed-left-open"}
RULE = ("histories of connection attempts on the simulated network (virtual time, unpatched code against a scaffold accessory doing a real pair-verify): EVERY sequence of secure-session "
        "setup results up to length 3 (quick) / 5 (thorough) over {success, wrong pairing id, authentication error, other exception, no answer} with the concrete behaviour drawn from "
        "{bad signature, error TLV 1..7 at M2 or M4, peer close at M1 or M3, HTTP 470, malformed key}, followed by retries, peer-initiated closes of every connection index in every order, close and shutdown; "
        "EVERY schedule up to depth 3 (quick) / 4 (thorough) of {ensure, cancel, advance, zeroconf update, close, shutdown, accessory drops connection k}; random mixed histories. "
        "PAIRING-RECORD VARIANTS - the same kinds of history run with stored pairing data that is damaged or altered the way a half-written / hand-edited pairing file is, so that the secure-session setup fails "
        "with every exception class at every LOCAL step, also before / between the messages: controller LTSK and accessory LTPK {one byte short, one byte long, odd number of hex digits, not hex, empty, missing, null, "
        "a well-formed key that is not the paired one}, controller pairing id {missing, null, another controller's}, accessory pairing id {another accessory's}, crossed with every scripted accessory behaviour "
        "(whichever of the two goes wrong first decides the class the model is told), plus benign variants {upper-case hex, hex with blanks, unused entries missing / added} under which the session must come up as usual; "
        "one fixed history per variant and random ones; "
        "COMPOSITE EVENTS (see C10 stream D: every ordered pair of actions in one loop iteration in every phase, spaced pairs, triples; model tie up to the first composite event, census oracle after it), each followed by a close. "
        "CLOSE SWEEPS - for every way a connection comes to be set up {first connection by a caller / a public request / a zeroconf sighting, the library's own reconnect after the accessory closed / reset the session, its own retry after "
        "a back-off (after a refused connect, a spoilt pair-verify, a session dropped at its re-subscription), the second address after a wrong pairing id / a TCP time-out, a sleeping connector woken by zeroconf, a pairing re-opened after "
        "a close, an accessory slow to answer the re-subscription} x subscriptions to restore in the new session {one characteristic, four characteristics on three accessories of a bridge (three requests), none}: the number N of loop "
        "iterations the set-up takes (TCP connect, pair-verify, re-subscription, until the loop is at rest) is MEASURED on a dry run, and close() / shutdown() / cancellation of the caller / a drop by the accessory / a zeroconf update / "
        "close()+new request is issued after k bare loop iterations for EVERY k = 0..N+2 - in every iteration of the window, in particular each one between the accessory's last pair-verify reply and the end of the re-subscription - "
        "followed by quiet periods of 12 s, 100 s, 300 s: once close() has returned and nothing has asked for the connection since, the accessory must not see a connection open or being opened, whatever tasks the library left behind "
        "(close sweeps with the default subscription in full, the others sampled in the quick tier). "
        "After every event the accessory-side set of open transports is compared with the pairing's current transport. non-trivial = distinct (addresses, history, record)")
TRUSTED = ["harness/simnet.py in-memory transport: close() -> connection_lost exactly once via call_soon; the accessory's view of 'open' is the set of transports not yet lost",
           "harness/acc.py scaffold accessory (pair-verify via `cryptography`)"]
ASSUMPTIONS = ["one model event = one harness action followed by running the loop to quiescence at that virtual instant; the census is taken at quiescence (a transport the controller closed is gone from the accessory's view once its loss callback ran)",
               "under a pairing-record variant the class of a pair-verify result that the model is told is computed by the harness from the order of the controller's steps in HAP 5.7.2/5.7.4 (compare the accessory's id, load its LTPK and check the signature, "
               "build iOSDeviceInfo, load the own LTSK and sign, send M3): whichever of the scripted accessory behaviour and the record goes wrong first decides; a connection that used the accessory's unscripted default ends the model tie for that history",
               "composite events (several actions in one loop iteration) are outside the model: the history is tied to the model up to its first composite event, the census oracle applies throughout",
               "one characteristic is subscribed from the start, so every new session re-subscribes inside connection_made (the `ol` verdict drops the connection at that request); the subscription bookkeeping itself is C12; "
               "the close sweeps also run with four characteristics on three accessories (one request per accessory) and with none",
               "(close sweeps) a request for the connection made before close() was called is covered by the close; a zeroconf update handed over in the same event as the close counts as concurrent with it (see C10): after such an event "
               "nothing is demanded until the history shows which of the two won"]
EXPLANATION = ("Lean theorems C11_* over HapVerif.Reconnect: the invariant open = current (at most one, none leaked) for every reachable state, failed setup leaves nothing open, close/shutdown total and leave nothing open - then or later, until something asks for a connection again (never, after shutdown) - , "
               "stale loss is the identity; differential tie on the open-connection census after every event + implementation-level census oracle and stale-loss probe")


def cases_for(ctx):
    rng = ctx.rng
    cases = []
    for c in load_corpus(ID):
        cases.append((c["hosts"], c["events"], "corpus"))
    for h, e in rcsim.gen_fault_sequences(rng, ctx.budget(3, 5), sample=ctx.budget(None, 4000)):
        # append closes of every connection index in a random order, then close
        idx = list(range(6))
        rng.shuffle(idx)
        end = rng.choice(["x", "X"])
        # ... and after the close: time passes (anything the connector still had in flight would land now); a shut-down
        # pairing also hears from zeroconf again
        after = [f"a:{12 * rcsim.U}"] + (["s", f"a:{rcsim.U}", "d:1,2", f"a:{12 * rcsim.U}"] if end == "X" else [])
        e = [x for x in e if x not in ("x", "X")] + [f"p:{k}" for k in idx[:3]] + [f"a:{rcsim.U}"] + [f"p:{k}" for k in idx[3:]] + [end, f"a:{rcsim.U}"] + after
        cases.append((h, e, "fault-seq"))
    # close while a TCP connect is still in flight, with more addresses to go and an accessory that would answer
    for hosts in ([1, 2], [1, 2, 3]):
        for pre in (["t:t", "t:o:0"], ["t:t", "t:t", "t:o:0"], ["t:r", "t:t", "t:o:0", "v:ok:ok"]):
            for start in ("e:1:-", "s"):
                for dt in (2, rcsim.U, 9 * rcsim.U):
                    for end in ("x", "X"):
                        cases.append((hosts, pre + [start, f"a:{dt}", end, f"a:{12 * rcsim.U}", f"a:{40 * rcsim.U}"], "close-in-flight"))
    for h, e in rcsim.gen_schedules(rng, ctx.budget(3, 4), sample=ctx.budget(700, 8000)):
        cases.append((h, e + ["x"], "schedule"))
    for _ in range(ctx.budget(700, 14000)):
        h, e = rcsim.gen_random(rng)
        end = rng.choice(["x", "X"])
        cases.append((h, e + [end, f"a:{12 * rcsim.U}"] + (["s", f"a:{rcsim.U}"] if end == "X" else []), "random"))
    cases += record_cases(ctx, ctx.budget(150, 4000), ctx.budget(60, 2000))
    cases += closing_composites(ctx, ctx.budget(60, 3000), ctx.budget(60, 3000), ctx.budget(50, 3000))
    cases += rcsim.gen_close_sweeps(rng, sample=ctx.budget(700, None))
    return cases


def record_cases(ctx, n_random, n_fault):
    """histories under pairing-record variants: the fixed one per variant, random ones, and fault sequences followed by
    peer-initiated closes of every connection index (as in the plain stream) under a variant drawn at random"""
    rng = ctx.rng
    cases = [(h, e, "record", {"record": rec}) for h, e, rec in rcsim.gen_record_histories(rng, n_random)]
    names = list(rcsim.RECORDS)
    for h, e in rcsim.gen_fault_sequences(rng, 2, sample=n_fault):
        idx = list(range(6))
        rng.shuffle(idx)
        end = rng.choice(["x", "X"])
        e = ([x for x in e if x[0] in "tv"] + rcsim._scripted(rng, 14) + [x for x in e if x[0] not in "tvxX"]
             + [f"p:{k}" for k in idx[:3]] + [f"a:{rcsim.U}"] + [f"p:{k}" for k in idx[3:]] + [end, f"a:{rcsim.U}", f"a:{12 * rcsim.U}"])
        cases.append((h, e, "record-fault-seq", {"record": rng.choice(names)}))
    return cases


def closing_composites(ctx, n_spaced, n_triples, n_random):
    out = []
    for h, e, kind, extra in composite_cases(ctx, n_spaced, n_triples, n_random):
        end = ctx.rng.choice(["x", "x", "X"])
        out.append((h, e + [end, f"a:{12 * rcsim.U}"], kind, extra))
    return out


def resub_probe(ctx, only=None):
    """directed probe, implementation-level oracle only: subscriptions over several accessories of a bridge; while a new
    session is still re-subscribing inside connection_made (the accessory holds its answer to the k-th request) another
    task changes the subscriptions; then the answer arrives.  After every step the accessory-side census must equal the
    pairing's current connection, and close() must leave nothing open."""
    import asyncio
    import random
    from unittest.mock import MagicMock

    from aiohomekit.characteristic_cache import CharacteristicCacheMemory
    from aiohomekit.controller.ip.pairing import IpPairing

    from harness import simnet
    from harness.acc import Accessory

    async def one(hold_at, op, ids, reconnect, seed):
        loop = asyncio.get_event_loop()
        rnd = random.Random(seed)
        net = simnet.Net(loop)
        acc = Accessory(loop, net, lambda n: bytes(rnd.randrange(256) for _ in range(n)))
        held = []
        nput = [0]

        def responder(s_, method, target, body):
            if method == "PUT" and target == "/characteristics":
                nput[0] += 1
                if nput[0] == hold_at:
                    held.append(s_.t)
                    return None  # the accessory is slow to answer this one
                return b"HTTP/1.1 204 No Content\r\n\r\n"
            return None
        ctrl = MagicMock()
        ctrl._char_cache = CharacteristicCacheMemory()
        problems = []

        def census(where):
            op_ = sorted(t.index for t in net.open)
            cur = p.connection.transport.index if p.connection.transport is not None else None
            if len(op_) > 1:
                problems.append(("more-than-one-open", f"{where}: the accessory sees connections {op_} open at once"))
            elif op_ and op_ != [cur]:
                problems.append(("leaked-connection", f"{where}: connection(s) {op_} open but the pairing's current connection is {cur}"))
        with net.patched():
            p = IpPairing(ctrl, acc.pairing_data(["10.0.0.1"]))
            p.subscriptions.update({(1, 9), (2, 9), (3, 9), (1, 10)})
            if reconnect:
                # a first healthy session, lost; the probe runs on the session the library sets up by itself
                acc.responder = None
                await p._ensure_connected()
                await rcsim.settle(loop)
                nput[0] = 0
                acc.responder = responder
                net.open[-1].peer_close()
                await rcsim.settle(loop)
                await asyncio.sleep(2)
                await rcsim.settle(loop)
            else:
                acc.responder = responder
                asyncio.ensure_future(p._ensure_connected()).add_done_callback(lambda f: f.exception())
                await rcsim.settle(loop)
            census("while the new session re-subscribes")
            # another task changes the subscriptions while the connector is between two of its requests
            fn = p.subscribe if op == "subscribe" else p.unsubscribe
            t2 = asyncio.ensure_future(fn(ids))
            t2.add_done_callback(lambda f: f.cancelled() or f.exception())
            await rcsim.settle(loop)
            for t in held:
                acc.send(t, b"HTTP/1.1 204 No Content\r\n\r\n")
            acc.responder = None
            await rcsim.settle(loop)
            census("after the held answer arrived")
            for dt in (1, 3, 12, 40):
                await asyncio.sleep(dt)
                await rcsim.settle(loop)
                census(f"{dt} s later")
            try:
                await p.close()
            except BaseException as e:  # noqa: BLE001
                problems.append(("close-raised", f"close() raised {type(e).__name__}"))
            await rcsim.settle(loop)
            if net.open:
                problems.append(("open-after-close", f"after close(): connection(s) {sorted(t.index for t in net.open)} still open"))
            try:
                await p.shutdown()
            except BaseException:  # noqa: BLE001
                pass
            await rcsim.settle(loop)
        return problems

    k = 0
    for reconnect in (False, True):
        for hold_at in (1, 2, 3):
            for op, ids in (("subscribe", [(4, 9)]), ("subscribe", [(2, 10), (5, 1)]), ("unsubscribe", [(2, 9)]), ("unsubscribe", [(1, 9), (3, 9)])):
                k += 1
                if only is not None and (only.get("reconnect"), only.get("hold_at"), only.get("op"), [tuple(x) for x in only.get("ids", [])]) != (reconnect, hold_at, op, ids):
                    continue
                loop = simnet.VLoop()
                asyncio.set_event_loop(loop)
                try:
                    problems = loop.run_until_complete(one(hold_at, op, ids, reconnect, ctx.seed * 1009 + k))
                finally:
                    pend = [t for t in asyncio.all_tasks(loop) if not t.done()]
                    for t in pend:
                        t.cancel()
                    if pend:
                        loop.run_until_complete(asyncio.gather(*pend, return_exceptions=True))
                    asyncio.set_event_loop(None)
                    loop.close()
                ctx.evaluations += 1
                ctx.nontrivial.add(("resub-probe", reconnect, hold_at, op, len(ids)))
                ctx.dist["resub-probe"] += 1
                case = {"stream": "resub-probe", "reconnect": reconnect, "hold_at": hold_at, "op": op, "ids": ids}
                for sig, text in problems[:2]:
                    if sig in SIGS:
                        ctx.violation("ip/" + sig, f"{op}({ids}) by another task while the new session's request #{hold_at} of the re-subscription is unanswered ({'after a reconnect' if reconnect else 'first connection'}): {text}", case)


# The probe below found a leak on the unchanged library (see `resub_reply_probe`): a reply to the re-subscription request of a new
# session that cannot be processed made an exception escape `_connect_once` with the secure transport still open.  Repaired in /repo
# (known_findings.json, status fixed, signature ip/more-than-one-open); the probe is gating.
REPORT_RESUB_REPLY = True

RESUB_REPLIES = {
    # name -> (status line, body) of the accessory's answer to the re-subscription request of a NEW session
    "204": (b"204 No Content", None),
    "207-status": (b"207 Multi-Status", b'{"characteristics":[{"aid":1,"iid":9,"status":-70406}]}'),
    "207-row-without-status": (b"207 Multi-Status", b'{"characteristics":[{"aid":1,"iid":9}]}'),
    "207-status-not-a-number": (b"207 Multi-Status", b'{"characteristics":[{"aid":1,"iid":9,"status":"failed"}]}'),
    "207-rows-not-objects": (b"207 Multi-Status", b'{"characteristics":[5]}'),
    "207-not-a-list": (b"207 Multi-Status", b'{"characteristics":7}'),
    "200-empty-object": (b"200 OK", b"{}"),
    "400": (b"400 Bad Request", b""),
}


def resub_reply_probe(ctx, only=None):
    """directed probe, implementation-level census only: the secure session comes up, and the accessory answers the
    re-subscription request that `connection_made` sends from inside the connector with each reply of RESUB_REPLIES
    (well-formed, or parseable JSON that is not what HAP 6.7.2 prescribes).  Whatever the library makes of the reply, the
    accessory must never see two connections open at once, and none after close()."""
    import asyncio
    import random
    from unittest.mock import MagicMock

    from aiohomekit.characteristic_cache import CharacteristicCacheMemory
    from aiohomekit.controller.ip.pairing import IpPairing

    from harness import simnet
    from harness.acc import Accessory, http

    async def one(name, seed):
        loop = asyncio.get_event_loop()
        rnd = random.Random(seed)
        net = simnet.Net(loop)
        acc = Accessory(loop, net, lambda n: bytes(rnd.randrange(256) for _ in range(n)))
        code, body = RESUB_REPLIES[name]

        def responder(s_, method, target, body_):
            if method == "PUT" and target == "/characteristics":
                return b"HTTP/1.1 204 No Content\r\n\r\n" if body is None else http(body, b"application/hap+json", code=code)
            return http(b"{}", b"application/hap+json")
        acc.responder = responder
        ctrl = MagicMock()
        ctrl._char_cache = CharacteristicCacheMemory()
        problems = []
        with net.patched():
            p = IpPairing(ctrl, acc.pairing_data(["10.0.0.1"]))
            p.subscriptions.add((1, 9))
            asyncio.ensure_future(p._ensure_connected()).add_done_callback(lambda f: f.cancelled() or f.exception())
            await rcsim.settle(loop)
            for dt in (0, 1, 2, 5, 20, 100):
                await asyncio.sleep(dt)
                await rcsim.settle(loop)
                op_ = sorted(t.index for t in net.open)
                if len(op_) > 1:
                    problems.append(("more-than-one-open", f"{loop.time():.0f} s after the first session came up the accessory sees connections {op_} open at once"))
                    break
            try:
                await p.close()
            except BaseException as e:  # noqa: BLE001
                problems.append(("close-raised", f"close() raised {type(e).__name__}"))
            await rcsim.settle(loop)
            if net.open:
                problems.append(("open-after-close", f"after close(): connection(s) {sorted(t.index for t in net.open)} still open"))
            try:
                await p.shutdown()
            except BaseException:  # noqa: BLE001
                pass
            await rcsim.settle(loop)
        return problems

    for k, name in enumerate(RESUB_REPLIES):
        if only is not None and only.get("reply") != name:
            continue
        loop = simnet.VLoop()
        asyncio.set_event_loop(loop)
        try:
            problems = loop.run_until_complete(one(name, ctx.seed * 1013 + k))
        finally:
            pend = [t for t in asyncio.all_tasks(loop) if not t.done()]
            for t in pend:
                t.cancel()
            if pend:
                loop.run_until_complete(asyncio.gather(*pend, return_exceptions=True))
            asyncio.set_event_loop(None)
            loop.close()
        ctx.evaluations += 1
        ctx.nontrivial.add(("resub-reply-probe", name))
        ctx.dist["resub-reply-probe"] += 1
        case = {"stream": "resub-reply-probe", "reply": name}
        for sig, text in problems[:2]:
            what = f"the accessory answers the re-subscription request of a new session with {RESUB_REPLIES[name][0].decode()} {RESUB_REPLIES[name][1]!r}: {text}"
            if REPORT_RESUB_REPLY or only is not None:
                ctx.violation("ip/" + sig, what, case)
            else:
                ctx.dist[f"noted-not-reported:resub-reply:{name}:{sig}"] += 1
                if not any("resub-reply-probe" in n for n in ctx.notes):
                    ctx.notes.append("resub-reply-probe (noted, not reported - REPORT_RESUB_REPLY is off): " + what + f" ; replay case {case}")


def run(ctx: Ctx, driver: Driver):
    run_cases(ctx, driver, ID, SIGS, cases_for(ctx))
    resub_probe(ctx)
    resub_reply_probe(ctx)
    ctx.notes.append("oracle on the implementation after every event: accessory-side open transports == {pairing.connection.transport}; close()/shutdown() must not raise and must leave none open; "
                     "the loss callback of a transport that is not current must leave the current transport untouched")


def replay(ctx: Ctx, driver: Driver, case):
    n = len(ctx.violations)
    if case.get("stream") == "resub-probe":
        resub_probe(ctx, only=case)
    elif case.get("stream") == "resub-reply-probe":
        resub_reply_probe(ctx, only=case)
    else:
        run_cases(ctx, driver, ID, SIGS, [replay_tuple(case)])
    return [v["signature"] + ": " + v["what"] for v in ctx.violations[n:]]


def search(ctx: Ctx, driver: Driver, broken):
    rng = ctx.rng
    resub_probe(ctx)
    if ctx.violations:
        return
    cases = []
    for i in range(ctx.budget(3000, 30000)):
        h, e = rcsim.gen_random(rng)
        end = rng.choice(["x", "X"])
        cases.append((h, e + [end, f"a:{12 * rcsim.U}"] + (["s", f"a:{rcsim.U}"] if end == "X" else []), "search"))
    cases += record_cases(ctx, ctx.budget(1500, 6000), ctx.budget(300, 2000))
    cases += closing_composites(ctx, ctx.budget(1000, 6000), ctx.budget(1000, 6000), ctx.budget(600, 6000))
    cases += rcsim.gen_close_sweeps(rng, sample=None)
    run_cases(ctx, driver, ID, SIGS, cases)
