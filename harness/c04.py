"""C04 - an accessory error or out-of-sequence reply never completes as success."""
from __future__ import annotations

import asyncio
import itertools
from unittest import mock

from cryptography.hazmat.primitives.asymmetric import ed25519
from cryptography.hazmat.primitives.ciphers.aead import ChaCha20Poly1305

from harness import refacc
from harness.common import Ctx, Driver, compare_with_model, hx, load_corpus

import aiohomekit.exceptions as E
import aiohomekit.protocol as P
from aiohomekit.controller.ble.pairing import BlePairing
from aiohomekit.controller.ip.pairing import IpPairing
from aiohomekit.protocol.tlv import TLV

ID = "C04"
RULE = ("full finite grid: steps {setup M2,M4,M6, verify M2,M4, add/remove pairing on IP and BLE} x error codes {absent,1..7,0,8,255,two-byte,empty} x states {absent,1..6} x "
        "EVERY subset of the step's other protocol fields (genuine values, so that clean replies can succeed) x {decoded with the step's expectation list (IP/CoAP), unfiltered (BLE)} x "
        "item orders {state first, error first, state last}; non-trivial = distinct cell. The reply is TLV-encoded by an independent writer and decoded by the real TLV.decode_bytes "
        "with the expectation list the real generator yields.")
TRUSTED = ["reference accessory (harness/refacc.py: cryptography + RFC 5054 formulas) used to reach M4/M6 and verify-M4 with genuine earlier messages"]
ASSUMPTIONS = ["'other reply fields' = every subset of the fields the protocol defines for that reply, plus items of types the step does not expect (RetryDelay, Certificate) placed in front of the Error item",
               "pair-setup steps M4/M6 are reached with a stub SRP client (SRP itself is C02/C03): handle_state_step runs before any SRP value is used"]
EXPLANATION = "Lean theorems C04_* over handle_state_step/error_handler/expectation lists (tables regenerated from source) for arbitrary replies; exhaustive differential grid on the real generators"

CODES = [None, b"\x01", b"\x02", b"\x03", b"\x04", b"\x05", b"\x06", b"\x07", b"\x00", b"\x08", b"\xff", b"\x02\x00", b""]
STATES = [None, b"\x01", b"\x02", b"\x03", b"\x04", b"\x05", b"\x06"]
DOC = {b"\x02": "AuthenticationError", b"\x03": "BackoffError", b"\x04": "MaxPeersError", b"\x05": "MaxTriesError", b"\x06": "UnavailableError", b"\x07": "BusyError"}


class FakeSrp:
    """stands in for SrpClient on the C04 grid: fixed public values, accepts the server proof, fixed K"""
    K = bytes(range(64))

    def __init__(self, username, password):
        pass

    def set_salt(self, salt):
        pass

    def set_server_public_key(self, b):
        pass

    def get_public_key_bytes(self):
        return b"\x01" * 384

    def get_proof_bytes(self):
        return b"\x02" * 64

    def verify_servers_proof_bytes(self, m):
        return bytes(m) == b"\x03" * 64

    def get_session_key_bytes(self):
        return self.K


def outcome(fn):
    try:
        fn()
    except StopIteration:
        return "ok"
    except E.HomeKitException as e:
        return "err " + type(e).__name__
    except Exception as e:  # noqa: BLE001
        return "exc " + type(e).__name__
    return "yielded"


class Scaffold:
    def __init__(self, rng):
        rb = lambda n: bytes(rng.randrange(256) for _ in range(n))  # noqa: E731
        self.rb = rb
        self.ident = refacc.Identity(rb)
        self.pd = self.ident.pairing_data()

    # each returns (generator positioned before the step's reply, expectations, genuine other fields)
    def setupM2(self):
        g = P.perform_pair_setup_part1(True)
        req, exp = g.send(None)
        return g, exp, {3: b"\x05" * 384, 2: b"\x09" * 16}

    def setupM4(self):
        with mock.patch.object(P, "SrpClient", FakeSrp):
            g = P.perform_pair_setup_part2("111-22-333", "ctl", bytearray(16), bytearray(384))
            req, exp = g.send(None)
        return g, exp, {4: b"\x03" * 64, 5: b"\x00" * 20}

    def setupM6(self):
        with mock.patch.object(P, "SrpClient", FakeSrp):
            g = P.perform_pair_setup_part2("111-22-333", "ctl", bytearray(16), bytearray(384))
            g.send(None)
            req, exp = g.send([[6, bytearray(b"\x04")], [4, bytearray(b"\x03" * 64)]])
        K = FakeSrp.K
        ekey = refacc.hk(K, b"Pair-Setup-Encrypt-Salt", b"Pair-Setup-Encrypt-Info")
        ax = refacc.hk(K, b"Pair-Setup-Accessory-Sign-Salt", b"Pair-Setup-Accessory-Sign-Info")
        sig = self.ident.acc_ltsk.sign(ax + self.ident.acc_id + self.ident.acc_ltpk)
        enc = ChaCha20Poly1305(ekey).encrypt(b"\0\0\0\0PS-Msg06", refacc.tlv([(1, self.ident.acc_id), (3, self.ident.acc_ltpk), (10, sig)]), b"")
        return g, exp, {5: enc}

    def verifyM2(self):
        g = P.get_session_keys(self.pd)
        req, exp = g.send(None)
        acc = refacc.VerifyAccessory(self.ident, self.rb(32))
        m2 = dict(acc.m2(bytes(dict(req)[3])))
        return g, exp, {3: m2[3], 5: m2[5]}

    def verifyM4(self):
        g = P.get_session_keys(self.pd)
        req, exp = g.send(None)
        acc = refacc.VerifyAccessory(self.ident, self.rb(32))
        m2 = acc.m2(bytes(dict(req)[3]))
        req3, exp = g.send([[k, bytearray(v)] for k, v in m2])
        return g, exp, {}


def orders(state, code, others):
    """item orders for one cell"""
    st = [(6, state)] if state is not None else []
    er = [(7, code)] if code is not None else []
    ot = list(others)
    seen = []
    # the last two orders put an item of a type no step expects (RetryDelay, 8) in front of the Error item
    for o in (st + er + ot, er + ot + st, ot + er + st, st + [(8, b"\x05")] + er + ot, [(9, b"\x00" * 3)] + ot + st + er):
        if o not in seen:
            seen.append(o)
    return seen


def subsets(d):
    keys = sorted(d)
    for r in range(len(keys) + 1):
        for c in itertools.combinations(keys, r):
            yield [(k, d[k]) for k in c]


def expected_outcome(step_state, state, code, kind="step"):
    """the property's verdict for a cell, or None when it makes no claim"""
    if state is not None and state != step_state:
        return "err InvalidError" if kind == "step" else "library-error"
    if code is not None:
        if kind == "step" or kind == "ipadd":
            return "err " + DOC.get(bytes(code), "InvalidError")
        return "library-error"
    return None


def run(ctx: Ctx, driver: Driver):
    rng = ctx.rng
    sc = Scaffold(rng)
    for c in load_corpus(ID):
        replay(ctx, driver, c)
    cases, outs, lines = [], [], []
    steps = [("setupM2", b"\x02"), ("setupM4", b"\x04"), ("setupM6", b"\x06"), ("verifyM2", b"\x02"), ("verifyM4", b"\x04")]
    for step, step_state in steps:
        # genuine other fields depend on the exchange, so the scaffold is rebuilt per cell (generators cannot be rewound)
        _, _, sample_others = getattr(sc, step)()
        for code in CODES:
            for state in STATES:
                for osub_keys in [tuple(k for k, _ in s) for s in subsets(sample_others)]:
                    n_orders = len(orders(state, code, [(k, b"") for k in osub_keys]))
                    for oi in range(n_orders):
                        for filtered in (True, False):
                            g, exp, others = getattr(sc, step)()
                            items = orders(state, code, [(k, others[k]) for k in osub_keys])[oi]
                            wire = refacc.tlv(items)
                            decoded = TLV.decode_bytes(wire, expected=exp) if filtered else TLV.decode_bytes(wire)
                            with mock.patch.object(P, "SrpClient", FakeSrp):
                                out = outcome(lambda: g.send(decoded))
                            ctx.evaluations += 1
                            cell = (step, code, state, osub_keys, oi, filtered)
                            ctx.nontrivial.add(cell)
                            case = {"stream": "step", "step": step, "filtered": filtered, "items": [[k, hx(v)] for k, v in items]}
                            want = expected_outcome(step_state, state, code)
                            if out.startswith("exc"):
                                ctx.violation(f"{step}/{out.split()[1]}", f"{step}: reply {show(items)} raised non-library {out.split()[1]}", case)
                            elif want is not None and out != want:
                                ctx.violation(f"{step}/{'filtered' if filtered else 'unfiltered'}/{'wrong-state' if 'Invalid' in want and state not in (None, step_state) else 'error-code'}",
                                              f"{step} ({'IP/CoAP' if filtered else 'BLE'} decoding): reply {show(items)} -> {out}, documented outcome is {want}", case)
                            cases.append(case)
                            # the model says 'crypto' when the outcome is decided by cryptographic checks (C01/C03): any outcome of the implementation is then accepted here
                            outs.append(out)
                            lines.append(f"c04.step {step} {1 if filtered else 0} " + " ".join(f"{k} {hx(v)}" for k, v in items))
                            ctx.dist[f"{step}:{out}"] += 1
    ctx.sample(cases[100])
    ctx.sample(cases[-7])
    if driver.available:
        mouts = driver.run(lines)
        for c, io, mo in zip(cases, outs, mouts):
            if mo == "crypto":
                ctx.dist["model:crypto-decides"] += 1
                continue
            if io != mo:
                ctx.mismatch("step", c, io, mo)
        ctx.traces += len(lines)
        ctx.streams["step"] += len(lines)
    else:
        ctx.notes.append("driver unavailable")
    resume_grid(ctx, rng)
    ip_http_grid(ctx, rng)
    pairings(ctx, driver, rng)


def resume_grid(ctx, rng):
    """verify M2 on the session-resume path: a reply carrying GENUINE resume fields (method, new session id, valid auth
    tag) together with an error code or a wrong state must still fail with the documented class - checked on the
    implementation for the full grid codes x states x {IP/CoAP filtered, BLE unfiltered} x item orders"""
    from cryptography.hazmat.primitives.asymmetric import x25519
    rb = lambda n: bytes(rng.randrange(256) for _ in range(n))  # noqa: E731
    ident = refacc.Identity(rb)
    n = 0
    for code in CODES:
        for state in STATES:
            for order in range(3):
                for filtered in (True, False):
                    prev, sid, eph, new_sid = rb(32), rb(8), rb(32), rb(8)

                    def derive(salt, info, length=32, prev=prev):
                        return refacc.hk(prev, salt, info, length)
                    with mock.patch.object(P.x25519.X25519PrivateKey, "generate", staticmethod(lambda eph=eph: x25519.X25519PrivateKey.from_private_bytes(eph))):
                        g = P.get_session_keys(ident.pairing_data(), sid, derive)
                        req1, exp = g.send(None)
                    ios_pk = bytes(dict((int(k), bytes(v)) for k, v in req1)[3])
                    respkey = refacc.hk(prev, ios_pk + new_sid, b"Pair-Resume-Response-Info")
                    tag = ChaCha20Poly1305(respkey).encrypt(b"\0\0\0\0PR-Msg02", b"", b"")
                    resume = [(0, b"\x06"), (14, new_sid), (5, tag)]
                    st = [(6, state)] if state is not None else []
                    er = [(7, code)] if code is not None else []
                    items = [st + er + resume, er + resume + st, resume + st + er][order]
                    wire = refacc.tlv(items)
                    decoded = TLV.decode_bytes(wire, expected=exp) if filtered else TLV.decode_bytes(wire)
                    out = outcome(lambda: g.send(decoded))
                    ctx.evaluations += 1
                    n += 1
                    ctx.nontrivial.add(("verifyM2-resume", code, state, order, filtered))
                    ctx.dist[f"verifyM2-resume:{out}"] += 1
                    case = {"stream": "resume-step", "filtered": filtered, "items": [[k, hx(v)] for k, v in items]}
                    want = expected_outcome(b"\x02", state, code)
                    if out.startswith("exc"):
                        ctx.violation(f"verifyM2-resume/{out.split()[1]}", f"verify M2 (resume): reply {show(items)} raised non-library {out.split()[1]}", case)
                    elif want is not None and out != want:
                        ctx.violation(f"verifyM2-resume/{'filtered' if filtered else 'unfiltered'}/{'wrong-state' if 'Invalid' in want and state not in (None, bytes([2])) else 'error-code'}",
                                      f"verify M2 on the resume path ({'IP/CoAP' if filtered else 'BLE'} decoding): reply {show(items)} -> {out}, documented outcome is {want}", case)
                    elif want is None and out != "ok" and not filtered:
                        ctx.violation("verifyM2-resume/rejected-genuine", f"genuine resume reply {show(items)} -> {out}", case)
    ctx.notes.append(f"verify-M2 resume path: {n} cells checked on the implementation (oracle = documented error table); the Lean statement for this path is C01_resume_accept_implies_secret plus C04_error_fails applied to the same handle_state_step call")


def show(items):
    return "[" + ", ".join(f"{k}={hx(v)[:12]}" for k, v in items) + "]"


def unwrap(fn, name):
    seen = 0
    while seen < 12:
        seen += 1
        inner = None
        for c in (fn.__closure__ or ()):
            try:
                v = c.cell_contents
            except ValueError:
                continue
            if callable(v) and hasattr(v, "__code__"):
                inner = v
        if inner is None:
            break
        fn = inner
        if fn.__name__ == name and not any(callable(getattr(c, "cell_contents", None)) and hasattr(getattr(c, "cell_contents", None), "__code__") for c in (fn.__closure__ or ())):
            break
    return fn


class _Anything:
    def __getattr__(self, k):
        return _Anything()

    def __call__(self, *a, **k):
        return _Anything()

    def __getitem__(self, k):
        return _Anything()


def ip_http_grid(ctx: Ctx, rng):
    """the same error replies as they travel over IP: through the real HTTP parser, HomeKitConnection.request and post_tlv,
    with every HTTP status x Content-Type spelling an accessory may use for them.  A reply's TLV body decides the outcome,
    whatever the status line and the headers say."""
    from cryptography.hazmat.primitives.asymmetric import x25519
    from harness import simnet
    from aiohomekit.controller.ip.connection import HomeKitConnection
    loop = simnet.VLoop()
    asyncio.set_event_loop(loop)
    rb = lambda n: bytes(rng.randrange(256) for _ in range(n))  # noqa: E731
    ltpk = ed25519.Ed25519PrivateKey.generate().public_key().public_bytes(**refacc.RAW).hex()
    statuses = [(200, "OK"), (400, "Bad Request"), (405, "Method Not Allowed"), (429, "Too Many Requests"), (470, "Connection Authorization Required")]
    ctypes = ["application/pairing+tlv8", None, "application/hap+json", "Application/Pairing+TLV8", "application/pairing+tlv8; charset=utf-8", "text/html"]
    n = 0

    async def noop(*a, **k):
        return None

    async def cell(op, code, status, ctv):
        net = simnet.Net(loop)
        replies = []

        def handler(t, data):
            if not replies:
                return
            body = replies.pop(0)
            head = f"HTTP/1.1 {status[0]} {status[1]}\r\n" + (f"Content-Type: {ctv}\r\n" if ctv else "") + f"Content-Length: {len(body)}\r\n\r\n"
            loop.call_soon(t.feed, head.encode() + body)
        net.handler = handler
        with net.patched():
            conn = HomeKitConnection(None, ["10.0.0.1"], 80)
            await conn.ensure_connection()
            net.connect_outcomes = ["refused"] * 10000
            try:
                if op in ("add", "rm"):
                    p = IpPairing.__new__(IpPairing)
                    p.connection = conn
                    p._ensure_connected = noop
                    p._shutdown_if_primary_pairing_removed = noop
                    replies.append(refacc.tlv([(6, b"\x02"), (7, code)]))
                    r = await (p.add_pairing("other-ctl", ltpk, "User") if op == "add" else p.remove_pairing("other-ctl"))
                    return f"ok {r}"
                # pair-verify driven exactly as SecureHomeKitConnection._connect_once does
                ident = refacc.Identity(rb)
                eph = rb(32)
                acc = refacc.VerifyAccessory(ident, rb(32))
                with mock.patch.object(P.x25519.X25519PrivateKey, "generate", staticmethod(lambda: x25519.X25519PrivateKey.from_private_bytes(eph))):
                    sm = P.get_session_keys(ident.pairing_data())
                    request, expected = sm.send(None)
                ios_pk = x25519.X25519PrivateKey.from_private_bytes(eph).public_key().public_bytes(**refacc.RAW)
                if op == "verifyM2":
                    replies.append(refacc.tlv([(6, b"\x02"), (7, code)]))
                else:
                    # M2 is genuine and travels as an ordinary 200 reply; only the M4 error uses the status/headers under test
                    replies.append(None)
                m2_body = refacc.tlv(acc.m2(ios_pk))
                step = 0
                while True:
                    step += 1
                    if op == "verifyM4" and step == 1:
                        replies[0] = m2_body
                        saved = (status, ctv)
                        # first reply: plain 200 with the proper content type
                        body = replies.pop(0)
                        async def first(body=body):
                            return body
                        # temporarily answer with 200/tlv8
                        def h200(t, data, body=body):
                            loop.call_soon(t.feed, (f"HTTP/1.1 200 OK\r\nContent-Type: application/pairing+tlv8\r\nContent-Length: {len(body)}\r\n\r\n").encode() + body)
                        net.handler = h200
                        response = await conn.post_tlv("/pair-verify", body=request, expected=expected)
                        net.handler = handler
                        replies.append(refacc.tlv([(6, b"\x04"), (7, code)]))
                    else:
                        response = await conn.post_tlv("/pair-verify", body=request, expected=expected)
                    try:
                        request, expected = sm.send(response)
                    except StopIteration:
                        return "ok keys"
            finally:
                try:
                    await conn.close()
                except Exception:  # noqa: BLE001
                    pass

    for op in ("add", "rm", "verifyM2", "verifyM4"):
        for code in (b"\x02", b"\x06", b"\x07", b"\x01"):
            for status in statuses:
                for ctv in ctypes:
                    try:
                        out = loop.run_until_complete(cell(op, code, status, ctv))
                    except E.HomeKitException as e:
                        out = "err " + type(e).__name__
                    except Exception as e:  # noqa: BLE001
                        out = "exc " + type(e).__name__
                    pend = [t for t in asyncio.all_tasks(loop) if not t.done()]
                    for t in pend:
                        t.cancel()
                    if pend:
                        loop.run_until_complete(asyncio.gather(*pend, return_exceptions=True))
                    ctx.evaluations += 1
                    n += 1
                    ctx.nontrivial.add(("ip-http", op, code, status[0], ctv))
                    ctx.dist[f"ip-http:{op}:{out}"] += 1
                    case = {"stream": "ip-http", "op": op, "code": hx(code), "status": status[0], "content_type": ctv}
                    want = "library-error" if op == "rm" else "err " + DOC.get(bytes(code), "InvalidError")
                    bad = None
                    if out.startswith("exc"):
                        bad = f"raised non-library {out.split()[1]}"
                    elif want == "library-error" and not out.startswith("err"):
                        bad = f"-> {out} although the accessory answered with error code {hx(code)}"
                    elif want.startswith("err") and want != "library-error" and out != want:
                        bad = f"-> {out}, documented outcome is {want}"
                    if bad:
                        ctx.violation(f"ip-http/{op}/error-code", f"{op} over HTTP {status[0]} with Content-Type {ctv!r}: error reply {bad}", case)
    asyncio.set_event_loop(None)
    loop.close()
    ctx.notes.append(f"IP HTTP layer: {n} cells (operation x error code x HTTP status x Content-Type spelling) through the real parser, request() and post_tlv()")


def pairings(ctx: Ctx, driver: Driver, rng):
    loop = asyncio.new_event_loop()
    cases, outs, lines = [], [], []
    ble_add = unwrap(BlePairing.add_pairing, "add_pairing")
    ble_rm = unwrap(BlePairing.remove_pairing, "remove_pairing")
    ltpk = ed25519.Ed25519PrivateKey.generate().public_key().public_bytes(**refacc.RAW).hex()

    async def noop(*a, **k):
        return None

    def call(kind, items):
        wire = refacc.tlv(items)

        if kind.startswith("ip"):
            p = IpPairing.__new__(IpPairing)

            class Conn:
                async def post_tlv(self, target, body, expected=None):
                    return TLV.decode_bytes(wire, expected=expected)
            p.connection = Conn()
            p._ensure_connected = noop
            p._shutdown_if_primary_pairing_removed = noop
            coro = p.add_pairing("other-ctl", ltpk, "User") if kind == "ipadd" else p.remove_pairing("other-ctl")
        else:
            p = BlePairing.__new__(BlePairing)
            p.__dict__["_accessories_state"] = _Anything()
            p.__dict__["description"] = _Anything()
            p.__dict__["id"] = "x"
            p.__dict__["device"] = None

            async def req(opcode, char, data):
                return refacc.tlv([(1, wire)])
            p._async_request = req
            p._shutdown_if_primary_pairing_removed = noop
            type(p).accessories  # noqa: B018
            with mock.patch.object(BlePairing, "accessories", _Anything(), create=True), mock.patch.object(BlePairing, "name", "ble", create=True):
                coro = ble_add(p, "other-ctl", ltpk, "User") if kind == "bleadd" else ble_rm(p, "other-ctl")
                return _run(loop, coro)
        return _run(loop, coro)

    for kind in ("ipadd", "iprm", "bleadd", "blerm"):
        for code in CODES:
            for state in STATES:
                for extra in ([], [(1, b"id")]):
                    for oi, items in enumerate(orders(state, code, extra)):
                        out = call(kind, items)
                        ctx.evaluations += 1
                        ctx.nontrivial.add((kind, code, state, bool(extra), oi))
                        case = {"stream": "pairings", "kind": kind, "items": [[k, hx(v)] for k, v in items]}
                        want = expected_outcome(b"\x02", state, code, kind="ipadd" if kind == "ipadd" else "pairing")
                        bad = None
                        if out.startswith("exc"):
                            bad = f"raised non-library {out.split()[1]}"
                        elif want == "library-error" and not out.startswith("err"):
                            bad = f"-> {out} although the accessory answered with an error / foreign step number"
                        elif want and want.startswith("err") and out != want:
                            bad = f"-> {out}, documented outcome is {want}"
                        if bad:
                            ctx.violation(f"{kind}/{'wrong-state' if state not in (None, bytes([2])) else 'error-code'}", f"{kind}: reply {show(items)} {bad}", case)
                        cases.append(case)
                        outs.append("ok" if out in ("ok True", "ok None") else out)
                        lines.append(("c04.ipadd " if kind == "ipadd" else "c04.rm ") + " ".join(f"{k} {hx(v)}" for k, v in items))
                        ctx.dist[f"{kind}:{out}"] += 1
    compare_with_model(ctx, "pairings", cases, outs, lines, driver)
    loop.close()


def _run(loop, coro):
    try:
        r = loop.run_until_complete(coro)
        return f"ok {r}"
    except E.HomeKitException as e:
        return "err " + type(e).__name__
    except Exception as e:  # noqa: BLE001
        return "exc " + type(e).__name__


def replay(ctx, driver, c):
    rng = ctx.rng
    sc = Scaffold(rng)
    items = [(k, bytes.fromhex(v) if v != "-" else b"") for k, v in c["items"]]
    if c["stream"] == "step":
        g, exp, _ = getattr(sc, c["step"])()
        wire = refacc.tlv(items)
        decoded = TLV.decode_bytes(wire, expected=exp) if c["filtered"] else TLV.decode_bytes(wire)
        with mock.patch.object(P, "SrpClient", FakeSrp):
            out = outcome(lambda: g.send(decoded))
        d = dict(items)
        step_state = {"setupM2": b"\x02", "setupM4": b"\x04", "setupM6": b"\x06", "verifyM2": b"\x02", "verifyM4": b"\x04"}[c["step"]]
        want = expected_outcome(step_state, d.get(6), d.get(7))
        if want is not None and out != want:
            return f"{c['step']}: {out}, documented outcome {want}"
    return None
