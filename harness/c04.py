"""C04 - an accessory error or out-of-sequence reply never completes as success."""
from __future__ import annotations

import asyncio
import itertools
import struct
from unittest import mock

from cryptography.hazmat.primitives.asymmetric import ed25519
from cryptography.hazmat.primitives.ciphers.aead import ChaCha20Poly1305

from harness import refacc
from harness.common import Ctx, Driver, compare_with_model, hx, load_corpus, unhx

import aiohomekit.exceptions as E
import aiohomekit.protocol as P
from aiohomekit.controller.ble.pairing import BlePairing
from aiohomekit.controller.ip.pairing import IpPairing
from aiohomekit.protocol.tlv import TLV

ID = "C04"
RULE = ("full finite grid: steps {setup M2,M4,M6, verify M2,M4, add/remove pairing on IP and BLE} x error codes {absent,1..7,0,8,255,two-byte,empty} x states {absent,1..6} x "
        "EVERY subset of the step's other protocol fields (genuine values, so that clean replies can succeed) x {decoded with the step's expectation list (IP/CoAP), unfiltered (BLE)} x "
        "item orders {state first, error first, state last}; non-trivial = distinct cell. The reply is TLV-encoded by an independent writer and decoded by the real TLV.decode_bytes "
        "with the expectation list the real generator yields. Transport level (streams ble / coap / ip): the transports' own drivers of the state machines and the public operations that run them - entry points "
        "{BlePairing._async_pair_verify first and later (resume requested, honoured or declined) session, BleDiscovery.async_start_pairing / finish_pairing, BlePairing list/add/remove(own) pairing, "
        "list_accessories_and_characteristics, async_populate_accessories_state, get/put_characteristics, identify; CoAPHomeKitConnection.do_pair_setup / do_pair_setup_finish / do_pair_verify / connect, "
        "CoAPDiscovery start/finish pairing, CoAPPairing operations; IpDiscovery start/finish pairing, SecureHomeKitConnection._connect_once, IpPairing operations behind the connector task} x step "
        "{setup M2/M4/M6, verify M2/M4, add/remove pairing M2 inside a genuine encrypted session} x every error code with the expected / an absent State and every foreign State without / with a code "
        "x with / without the step's genuine fields x item orders x {one PDU, split PDUs, value fragments, small MTU | HTTP status x Content-Type}, answered by an independent accessory that repeats "
        "the scripted reply on EVERY attempt the library makes (virtual time); oracle: documented class (a library error for operations that merely run the procedure first), no normal return, "
        "no session / pairing left behind, no later request sent as if the procedure had succeeded; non-trivial = distinct cell. Concurrent lifecycle (streams ble-conc / ip-conc / coap-conc): the same "
        "entry points (BlePairing / IpPairing / CoAPPairing operations, _async_pair_verify, do_pair_verify / connect, start / finish pairing on the three transports) against a SLOW scripted accessory "
        "(reply latency, slow link tear-down, virtual time) while ANOTHER task acts on the same pairing during the wait for the first / the scripted step's reply - action {shutdown(), close(), "
        "close_after_operation(), link drop / reset (reconnect possible or not), the caller's cancellation, a new advertisement / zeroconf record, a second add / remove / list pairing or "
        "get_characteristics call} x schedule {action before / at the instant of / after the reply; link down before / at / after the reply; everything immediate} + random schedules; oracle: a call "
        "whose scripted error / wrong-step reply was handed to the library by the transport never returns normally (None / True / data), never hangs, leaves no session, sends nothing further as if verified; "
        "attribution of a delivered reply to a caller by the harness's own bookkeeping (identifier in the request, order of events at the accessory). "
        "Reply delivery over BLE (stream ble-delivery): for every pair-setup / pair-verify step (M2/M4/M6, M2 first / resumed / resume declined, M4) x entry point {_async_pair_verify, BleDiscovery start / finish "
        "pairing, every public BlePairing operation that verifies first} every way the accessory may deliver the step's answer, one utterance per write of the controller - unfragmented; a complete "
        "FragmentData.. FragmentLast transfer under every kind of split (one envelope, cuts at 1, 2, 3, 5 bytes, the middle, record boundaries, the last bytes, fixed chunk sizes 1..256, empty chunks, an empty "
        "FragmentLast); a transfer of the genuine reply / of this / of another error reply ABORTED after k = 1, 2, .. envelopes (chunks that are whole TLV records or end inside one, an empty chunk, the whole "
        "body) by the unfragmented error / wrong-step reply; the same followed by further fragments if the controller asks on; Error items inside any fragment; random compositions - oracle: the harness reads "
        "what the library was handed by itself (chunks accumulate, FragmentLast completes, an unfragmented reply stands alone and abandons the transfer); when that first complete reply carries an error / a "
        "foreign step number the operation fails with the documented class, returns nothing, leaves no session / pairing. The same replies over IP also as chunked transfer coding and as TCP segments down to "
        "one byte (wire shapes of stream ip / top). Top level (stream top): aiohomekit.Controller entered with `async with` (IP, CoAP and BLE backends registered by async_start; zeroconf browser / cache, BLE "
        "scanner + GATT link, aiocoap Context and TCP replaced, virtual time), pairing loaded by load_pairing / load_data / before or after the advertisement, then Controller.remove_pairing(alias), "
        "controller.aliases[alias].add_pairing / remove_pairing (own, other) / list_pairings, Controller.async_find -> start / finish pairing (BLE), and the command line application's unpair / remove_pairing / "
        "pair commands (aiohomekit.__main__ on a pairing file + characteristic cache file) x step {verify M2/M4, add / remove pairing M2, setup M2/M4/M6} x reply shape x what the accessory does behind its "
        "reply {keeps the link, closes it, drops it at the instant the reply was handed over, with / without the stack reporting it}; oracle: an operation whose error / wrong-step reply was handed to the library "
        "never returns normally (never True / None / data), installs nothing, sends nothing further as if verified, and the application's pairing file does not come to claim the outcome")
TRUSTED = ["reference accessory (harness/refacc.py: cryptography + RFC 5054 formulas) used to reach M4/M6 and verify-M4 with genuine earlier messages"]
ASSUMPTIONS = ["'other reply fields' = every subset of the fields the protocol defines for that reply, plus items of types the step does not expect (RetryDelay, Certificate) placed in front of the Error item",
               "pair-setup steps M4/M6 are reached with a stub SRP client (SRP itself is C02/C03): handle_state_step runs before any SRP value is used; a sample of the transport-level pair-setup cells uses the real SRP client against harness/refacc.SrpServer",
               "transport level: the bleak client (GATT reads / writes) and aiocoap's Context are replaced, the clock is virtual; for an operation that merely runs pair-verify first (BLE public operations, CoAP connect() and CoAPPairing operations) the property is read as: fails with a library error, never returns normally, no session, no further request sent as if verified - the documented class is demanded of the procedure's own driver",
               "the scripted accessory is persistent: it gives the scripted reply every time the step is reached; an accessory that answers an error once and a genuine reply on a later attempt is not judged (whether a retry may succeed is not the property's business)",
               "concurrent lifecycle: 'the accessory answered the request' is read as: the transport handed the complete scripted reply to the library for that call (the last GATT read of it returned / the bytes were accepted by the open TCP transport / the CoAP response future was resolved). A call whose reply never arrived because shutdown() / close() / a link drop / the cancellation won the race is not judged (on the unchanged library BlePairing operations then return None once _shutdown is set, or fail with BleakError - neither is this property's business). For a call that did receive the error reply the demand is the property's core: it never returns normally; a library error of ANY class is accepted (e.g. AccessoryDisconnectedError when the link went away right after the reply), CancelledError is accepted as the outcome of a cancellation, and when the application itself tears the link down underneath the call (shutdown / close / close_after_operation / link drop / cancel) a non-library exception class is recorded in the notes but not reported (observed on the unchanged library: IpPairing.add_pairing / remove_pairing whose error reply travels with an HTTP 4xx status raise AttributeError from post_tlv's self.transport.close() when close() / shutdown() of another task runs between the reply's arrival and the waiting task's resumption); with a second operation or a new advertisement (nothing is torn down) a non-library exception IS reported. The second operation is judged only where the property speaks about it: add / remove pairing for the pairings step, any operation for the pair-verify steps (it cannot have a session); list_pairings replies are not the property's business",
               "BLE value-fragment envelope: in _pairing_char_write a pair-setup / pair-verify reply that carries a FragmentLast (or FragmentData) item NEXT TO State / Error items - e.g. [State=M4, Error=0x02, FragmentLast=''] - is taken for a fragment envelope, the reassembled (empty) buffer decodes to {} and the Error item is lost. FragmentData / FragmentLast (TLV types 12 / 13) are the transport's fragmentation envelope, not fields of a pairing reply; a conformant accessory never mixes them with reply items, so such a reply lies outside 'whichever other fields the reply does or does not carry' and is neither generated nor reported here (the 'other fields' are the protocol's reply fields and unexpected reply items such as RetryDelay / Certificate). Properly fragmented replies (the error reply split over FragmentData... FragmentLast envelopes) ARE exercised by the ble stream (vfrag)",
               "reply delivery over BLE: 'the accessory answers the step with' is read as the FIRST complete reply among what the library was handed for one attempt at the step, reassembled by the harness's own reader: FragmentData chunks accumulate (each is acknowledged by the controller's empty FragmentData write), FragmentLast completes the transfer, an unfragmented reply (a value without envelope) is a reply by itself and abandons the transfer under way. A transfer that ends inside a TLV record, a reply with two different State or Error items and a reply that carries envelope types next to reply items are not judged. A reply is delivered in at most 40 envelopes (the library gives up after 50 and then raises ValueError - a bound, not judged). Only pair-setup and pair-verify replies are delivered in fragments: the add / remove pairing reply is six bytes and the library does not reassemble it (probe recorded in the notes: a pairings reply wrapped in a FragmentLast envelope is read as 'no State, no Error')",
               "top level: the accessory 'answered' when the complete scripted reply was handed to the library (last GATT read returned / bytes accepted by the open TCP transport / CoAP response resolved). When the accessory keeps the link up the demands are those of the transport streams (a library error; the documented class for IP add-pairing and for the library's own pair-setup driver). When the accessory itself closes or drops the link behind its reply only the property's core is demanded - the call does not return normally, nothing is installed, nothing is sent as if verified; the class of the failure is recorded in the notes (observed on the unchanged library: IpPairing add / remove pairing whose error reply travels with an HTTP 4xx status raise AttributeError from post_tlv's self.transport.close() when the accessory closes or resets the TCP connection right behind the reply). For the command line application a command that returns False or exits with a non-zero status has reported the failure. Controller.aliases after a FAILED Controller.remove_pairing is recorded only: the unchanged library forgets the alias before it asks the accessory and never puts it back; what is judged is the pairing FILE after `unpair` (it is only rewritten after the call returned). The BLE backend is enabled the way an installation enables it (aiohomekit.const.BLE_TRANSPORT_SUPPORTED, decided at import from the environment)"]
EXPLANATION = "Lean theorems C04_* over handle_state_step/error_handler/expectation lists (tables regenerated from source) for arbitrary replies; exhaustive differential grid on the real generators"

CODES = [None, b"\x01", b"\x02", b"\x03", b"\x04", b"\x05", b"\x06", b"\x07", b"\x00", b"\x08", b"\xff", b"\x02\x00", b""]
STATES = [None, b"\x01", b"\x02", b"\x03", b"\x04", b"\x05", b"\x06"]
DOC = {b"\x02": "AuthenticationError", b"\x03": "BackoffError", b"\x04": "MaxPeersError", b"\x05": "MaxTriesError", b"\x06": "UnavailableError", b"\x07": "BusyError"}


class FakeSrp:
    """stands in for SrpClient on the C04 grid: fixed public values, accepts the server proof, fixed K"""
    K = bytes(range(64))

    def __init__(self, username, password):
        pass

    def set_salt(self, salt):
        pass

    def set_server_public_key(self, b):
        pass

    def get_public_key_bytes(self):
        return b"\x01" * 384

    def get_proof_bytes(self):
        return b"\x02" * 64

    def verify_servers_proof_bytes(self, m):
        return bytes(m) == b"\x03" * 64

    def get_session_key_bytes(self):
        return self.K


def outcome(fn):
    try:
        fn()
    except StopIteration:
        return "ok"
    except E.HomeKitException as e:
        return "err " + type(e).__name__
    except Exception as e:  # noqa: BLE001
        return "exc " + type(e).__name__
    return "yielded"


class Scaffold:
    def __init__(self, rng):
        rb = lambda n: bytes(rng.randrange(256) for _ in range(n))  # noqa: E731
        self.rb = rb
        self.ident = refacc.Identity(rb)
        self.pd = self.ident.pairing_data()

    # each returns (generator positioned before the step's reply, expectations, genuine other fields)
    def setupM2(self):
        g = P.perform_pair_setup_part1(True)
        req, exp = g.send(None)
        return g, exp, {3: b"\x05" * 384, 2: b"\x09" * 16}

    def setupM4(self):
        with mock.patch.object(P, "SrpClient", FakeSrp):
            g = P.perform_pair_setup_part2("111-22-333", "ctl", bytearray(16), bytearray(384))
            req, exp = g.send(None)
        return g, exp, {4: b"\x03" * 64, 5: b"\x00" * 20}

    def setupM6(self):
        with mock.patch.object(P, "SrpClient", FakeSrp):
            g = P.perform_pair_setup_part2("111-22-333", "ctl", bytearray(16), bytearray(384))
            g.send(None)
            req, exp = g.send([[6, bytearray(b"\x04")], [4, bytearray(b"\x03" * 64)]])
        K = FakeSrp.K
        ekey = refacc.hk(K, b"Pair-Setup-Encrypt-Salt", b"Pair-Setup-Encrypt-Info")
        ax = refacc.hk(K, b"Pair-Setup-Accessory-Sign-Salt", b"Pair-Setup-Accessory-Sign-Info")
        sig = self.ident.acc_ltsk.sign(ax + self.ident.acc_id + self.ident.acc_ltpk)
        enc = ChaCha20Poly1305(ekey).encrypt(b"\0\0\0\0PS-Msg06", refacc.tlv([(1, self.ident.acc_id), (3, self.ident.acc_ltpk), (10, sig)]), b"")
        return g, exp, {5: enc}

    def verifyM2(self):
        g = P.get_session_keys(self.pd)
        req, exp = g.send(None)
        acc = refacc.VerifyAccessory(self.ident, self.rb(32))
        m2 = dict(acc.m2(bytes(dict(req)[3])))
        return g, exp, {3: m2[3], 5: m2[5]}

    def verifyM4(self):
        g = P.get_session_keys(self.pd)
        req, exp = g.send(None)
        acc = refacc.VerifyAccessory(self.ident, self.rb(32))
        m2 = acc.m2(bytes(dict(req)[3]))
        req3, exp = g.send([[k, bytearray(v)] for k, v in m2])
        return g, exp, {}


def orders(state, code, others):
    """item orders for one cell"""
    st = [(6, state)] if state is not None else []
    er = [(7, code)] if code is not None else []
    ot = list(others)
    seen = []
    # the last two orders put an item of a type no step expects (RetryDelay, 8) in front of the Error item
    for o in (st + er + ot, er + ot + st, ot + er + st, st + [(8, b"\x05")] + er + ot, [(9, b"\x00" * 3)] + ot + st + er):
        if o not in seen:
            seen.append(o)
    return seen


def subsets(d):
    keys = sorted(d)
    for r in range(len(keys) + 1):
        for c in itertools.combinations(keys, r):
            yield [(k, d[k]) for k in c]


def expected_outcome(step_state, state, code, kind="step"):
    """the property's verdict for a cell, or None when it makes no claim"""
    if state is not None and state != step_state:
        return "err InvalidError" if kind == "step" else "library-error"
    if code is not None:
        if kind == "step" or kind == "ipadd":
            return "err " + DOC.get(bytes(code), "InvalidError")
        return "library-error"
    return None


def run(ctx: Ctx, driver: Driver):
    rng = ctx.rng
    sc = Scaffold(rng)
    for c in load_corpus(ID):
        replay(ctx, driver, c)
    cases, outs, lines = [], [], []
    steps = [("setupM2", b"\x02"), ("setupM4", b"\x04"), ("setupM6", b"\x06"), ("verifyM2", b"\x02"), ("verifyM4", b"\x04")]
    for step, step_state in steps:
        # genuine other fields depend on the exchange, so the scaffold is rebuilt per cell (generators cannot be rewound)
        _, _, sample_others = getattr(sc, step)()
        for code in CODES:
            for state in STATES:
                for osub_keys in [tuple(k for k, _ in s) for s in subsets(sample_others)]:
                    n_orders = len(orders(state, code, [(k, b"") for k in osub_keys]))
                    for oi in range(n_orders):
                        for filtered in (True, False):
                            g, exp, others = getattr(sc, step)()
                            items = orders(state, code, [(k, others[k]) for k in osub_keys])[oi]
                            wire = refacc.tlv(items)
                            # decoding the reply is part of what the transports do with it: whatever it raises is part of the outcome
                            with mock.patch.object(P, "SrpClient", FakeSrp):
                                out = outcome(lambda: g.send(TLV.decode_bytes(wire, expected=exp) if filtered else TLV.decode_bytes(wire)))
                            ctx.evaluations += 1
                            cell = (step, code, state, osub_keys, oi, filtered)
                            ctx.nontrivial.add(cell)
                            case = {"stream": "step", "step": step, "filtered": filtered, "items": [[k, hx(v)] for k, v in items]}
                            want = expected_outcome(step_state, state, code)
                            if out.startswith("exc"):
                                ctx.violation(f"{step}/{out.split()[1]}", f"{step}: reply {show(items)} raised non-library {out.split()[1]}", case)
                            elif want is not None and out != want:
                                ctx.violation(f"{step}/{'filtered' if filtered else 'unfiltered'}/{'wrong-state' if 'Invalid' in want and state not in (None, step_state) else 'error-code'}",
                                              f"{step} ({'IP/CoAP' if filtered else 'BLE'} decoding): reply {show(items)} -> {out}, documented outcome is {want}", case)
                            cases.append(case)
                            # the model says 'crypto' when the outcome is decided by cryptographic checks (C01/C03): any outcome of the implementation is then accepted here
                            outs.append(out)
                            lines.append(f"c04.step {step} {1 if filtered else 0} " + " ".join(f"{k} {hx(v)}" for k, v in items))
                            ctx.dist[f"{step}:{out}"] += 1
    ctx.sample(cases[100])
    ctx.sample(cases[-7])
    if driver.available:
        mouts = driver.run(lines)
        for c, io, mo in zip(cases, outs, mouts):
            if mo == "crypto":
                ctx.dist["model:crypto-decides"] += 1
                continue
            if io != mo:
                ctx.mismatch("step", c, io, mo)
        ctx.traces += len(lines)
        ctx.streams["step"] += len(lines)
    else:
        ctx.notes.append("driver unavailable")
    resume_grid(ctx, rng)
    ip_http_grid(ctx, rng)
    pairings(ctx, driver, rng)
    ble_transport_grid(ctx, rng)
    ble_delivery_grid(ctx, rng)
    # the reply loop of _pairing_char_write against its Lean model (theorems C04_ble_*), drawn from its own generator
    from harness.c04_reassembly import run_reassembly
    import random as _random
    sub = ctx.rng
    ctx.rng = _random.Random(ctx.seed * 7919 + 4)
    try:
        run_reassembly(ctx, driver)
    finally:
        ctx.rng = sub
    coap_transport_grid(ctx, rng)
    ip_transport_grid(ctx, rng)
    top_grid(ctx, rng)
    live_grid(ctx, rng)


def resume_grid(ctx, rng):
    """verify M2 on the session-resume path: a reply carrying GENUINE resume fields (method, new session id, valid auth
    tag) together with an error code or a wrong state must still fail with the documented class - checked on the
    implementation for the full grid codes x states x {IP/CoAP filtered, BLE unfiltered} x item orders"""
    from cryptography.hazmat.primitives.asymmetric import x25519
    rb = lambda n: bytes(rng.randrange(256) for _ in range(n))  # noqa: E731
    ident = refacc.Identity(rb)
    n = 0
    for code in CODES:
        for state in STATES:
            for order in range(3):
                for filtered in (True, False):
                    prev, sid, eph, new_sid = rb(32), rb(8), rb(32), rb(8)

                    def derive(salt, info, length=32, prev=prev):
                        return refacc.hk(prev, salt, info, length)
                    with mock.patch.object(P.x25519.X25519PrivateKey, "generate", staticmethod(lambda eph=eph: x25519.X25519PrivateKey.from_private_bytes(eph))):
                        g = P.get_session_keys(ident.pairing_data(), sid, derive)
                        req1, exp = g.send(None)
                    ios_pk = bytes(dict((int(k), bytes(v)) for k, v in req1)[3])
                    respkey = refacc.hk(prev, ios_pk + new_sid, b"Pair-Resume-Response-Info")
                    tag = ChaCha20Poly1305(respkey).encrypt(b"\0\0\0\0PR-Msg02", b"", b"")
                    resume = [(0, b"\x06"), (14, new_sid), (5, tag)]
                    st = [(6, state)] if state is not None else []
                    er = [(7, code)] if code is not None else []
                    items = [st + er + resume, er + resume + st, resume + st + er][order]
                    wire = refacc.tlv(items)
                    out = outcome(lambda: g.send(TLV.decode_bytes(wire, expected=exp) if filtered else TLV.decode_bytes(wire)))
                    ctx.evaluations += 1
                    n += 1
                    ctx.nontrivial.add(("verifyM2-resume", code, state, order, filtered))
                    ctx.dist[f"verifyM2-resume:{out}"] += 1
                    case = {"stream": "resume-step", "filtered": filtered, "items": [[k, hx(v)] for k, v in items]}
                    want = expected_outcome(b"\x02", state, code)
                    if out.startswith("exc"):
                        ctx.violation(f"verifyM2-resume/{out.split()[1]}", f"verify M2 (resume): reply {show(items)} raised non-library {out.split()[1]}", case)
                    elif want is not None and out != want:
                        ctx.violation(f"verifyM2-resume/{'filtered' if filtered else 'unfiltered'}/{'wrong-state' if 'Invalid' in want and state not in (None, bytes([2])) else 'error-code'}",
                                      f"verify M2 on the resume path ({'IP/CoAP' if filtered else 'BLE'} decoding): reply {show(items)} -> {out}, documented outcome is {want}", case)
                    elif want is None and out != "ok" and not filtered:
                        ctx.violation("verifyM2-resume/rejected-genuine", f"genuine resume reply {show(items)} -> {out}", case)
    ctx.notes.append(f"verify-M2 resume path: {n} cells checked on the implementation (oracle = documented error table); the Lean statement for this path is C01_resume_accept_implies_secret plus C04_error_fails applied to the same handle_state_step call")


def show(items):
    return "[" + ", ".join(f"{k}={hx(v)[:12]}" for k, v in items) + "]"


def unwrap(fn, name):
    seen = 0
    while seen < 12:
        seen += 1
        inner = None
        for c in (fn.__closure__ or ()):
            try:
                v = c.cell_contents
            except ValueError:
                continue
            if callable(v) and hasattr(v, "__code__"):
                inner = v
        if inner is None:
            break
        fn = inner
        if fn.__name__ == name and not any(callable(getattr(c, "cell_contents", None)) and hasattr(getattr(c, "cell_contents", None), "__code__") for c in (fn.__closure__ or ())):
            break
    return fn


class _Anything:
    def __getattr__(self, k):
        return _Anything()

    def __call__(self, *a, **k):
        return _Anything()

    def __getitem__(self, k):
        return _Anything()


def ip_http_grid(ctx: Ctx, rng):
    """the same error replies as they travel over IP: through the real HTTP parser, HomeKitConnection.request and post_tlv,
    with every HTTP status x Content-Type spelling an accessory may use for them.  A reply's TLV body decides the outcome,
    whatever the status line and the headers say."""
    from cryptography.hazmat.primitives.asymmetric import x25519
    from harness import simnet
    from aiohomekit.controller.ip.connection import HomeKitConnection
    loop = simnet.VLoop()
    asyncio.set_event_loop(loop)
    rb = lambda n: bytes(rng.randrange(256) for _ in range(n))  # noqa: E731
    ltpk = ed25519.Ed25519PrivateKey.generate().public_key().public_bytes(**refacc.RAW).hex()
    statuses = [(200, "OK"), (400, "Bad Request"), (405, "Method Not Allowed"), (429, "Too Many Requests"), (470, "Connection Authorization Required")]
    ctypes = ["application/pairing+tlv8", None, "application/hap+json", "Application/Pairing+TLV8", "application/pairing+tlv8; charset=utf-8", "text/html"]
    n = 0

    async def noop(*a, **k):
        return None

    async def cell(op, code, status, ctv):
        net = simnet.Net(loop)
        replies = []

        def handler(t, data):
            if not replies:
                return
            body = replies.pop(0)
            head = f"HTTP/1.1 {status[0]} {status[1]}\r\n" + (f"Content-Type: {ctv}\r\n" if ctv else "") + f"Content-Length: {len(body)}\r\n\r\n"
            loop.call_soon(t.feed, head.encode() + body)
        net.handler = handler
        with net.patched():
            conn = HomeKitConnection(None, ["10.0.0.1"], 80)
            await conn.ensure_connection()
            net.connect_outcomes = ["refused"] * 10000
            try:
                if op in ("add", "rm"):
                    p = IpPairing.__new__(IpPairing)
                    p.connection = conn
                    p._ensure_connected = noop
                    p._shutdown_if_primary_pairing_removed = noop
                    replies.append(refacc.tlv([(6, b"\x02"), (7, code)]))
                    r = await (p.add_pairing("other-ctl", ltpk, "User") if op == "add" else p.remove_pairing("other-ctl"))
                    return f"ok {r}"
                # pair-verify driven exactly as SecureHomeKitConnection._connect_once does
                ident = refacc.Identity(rb)
                eph = rb(32)
                acc = refacc.VerifyAccessory(ident, rb(32))
                with mock.patch.object(P.x25519.X25519PrivateKey, "generate", staticmethod(lambda: x25519.X25519PrivateKey.from_private_bytes(eph))):
                    sm = P.get_session_keys(ident.pairing_data())
                    request, expected = sm.send(None)
                ios_pk = x25519.X25519PrivateKey.from_private_bytes(eph).public_key().public_bytes(**refacc.RAW)
                if op == "verifyM2":
                    replies.append(refacc.tlv([(6, b"\x02"), (7, code)]))
                else:
                    # M2 is genuine and travels as an ordinary 200 reply; only the M4 error uses the status/headers under test
                    replies.append(None)
                m2_body = refacc.tlv(acc.m2(ios_pk))
                step = 0
                while True:
                    step += 1
                    if op == "verifyM4" and step == 1:
                        replies[0] = m2_body
                        saved = (status, ctv)
                        # first reply: plain 200 with the proper content type
                        body = replies.pop(0)
                        async def first(body=body):
                            return body
                        # temporarily answer with 200/tlv8
                        def h200(t, data, body=body):
                            loop.call_soon(t.feed, (f"HTTP/1.1 200 OK\r\nContent-Type: application/pairing+tlv8\r\nContent-Length: {len(body)}\r\n\r\n").encode() + body)
                        net.handler = h200
                        response = await conn.post_tlv("/pair-verify", body=request, expected=expected)
                        net.handler = handler
                        replies.append(refacc.tlv([(6, b"\x04"), (7, code)]))
                    else:
                        response = await conn.post_tlv("/pair-verify", body=request, expected=expected)
                    try:
                        request, expected = sm.send(response)
                    except StopIteration:
                        return "ok keys"
            finally:
                try:
                    await conn.close()
                except Exception:  # noqa: BLE001
                    pass

    for op in ("add", "rm", "verifyM2", "verifyM4"):
        for code in (b"\x02", b"\x06", b"\x07", b"\x01"):
            for status in statuses:
                for ctv in ctypes:
                    try:
                        out = loop.run_until_complete(cell(op, code, status, ctv))
                    except E.HomeKitException as e:
                        out = "err " + type(e).__name__
                    except Exception as e:  # noqa: BLE001
                        out = "exc " + type(e).__name__
                    pend = [t for t in asyncio.all_tasks(loop) if not t.done()]
                    for t in pend:
                        t.cancel()
                    if pend:
                        loop.run_until_complete(asyncio.gather(*pend, return_exceptions=True))
                    ctx.evaluations += 1
                    n += 1
                    ctx.nontrivial.add(("ip-http", op, code, status[0], ctv))
                    ctx.dist[f"ip-http:{op}:{out}"] += 1
                    case = {"stream": "ip-http", "op": op, "code": hx(code), "status": status[0], "content_type": ctv}
                    want = "library-error" if op == "rm" else "err " + DOC.get(bytes(code), "InvalidError")
                    bad = None
                    if out.startswith("exc"):
                        bad = f"raised non-library {out.split()[1]}"
                    elif want == "library-error" and not out.startswith("err"):
                        bad = f"-> {out} although the accessory answered with error code {hx(code)}"
                    elif want.startswith("err") and want != "library-error" and out != want:
                        bad = f"-> {out}, documented outcome is {want}"
                    if bad:
                        ctx.violation(f"ip-http/{op}/error-code", f"{op} over HTTP {status[0]} with Content-Type {ctv!r}: error reply {bad}", case)
    asyncio.set_event_loop(None)
    loop.close()
    ctx.notes.append(f"IP HTTP layer: {n} cells (operation x error code x HTTP status x Content-Type spelling) through the real parser, request() and post_tlv()")


def pairings(ctx: Ctx, driver: Driver, rng):
    loop = asyncio.new_event_loop()
    cases, outs, lines = [], [], []
    ble_add = unwrap(BlePairing.add_pairing, "add_pairing")
    ble_rm = unwrap(BlePairing.remove_pairing, "remove_pairing")
    ltpk = ed25519.Ed25519PrivateKey.generate().public_key().public_bytes(**refacc.RAW).hex()

    async def noop(*a, **k):
        return None

    def call(kind, items):
        wire = refacc.tlv(items)

        if kind.startswith("ip"):
            p = IpPairing.__new__(IpPairing)

            class Conn:
                async def post_tlv(self, target, body, expected=None):
                    return TLV.decode_bytes(wire, expected=expected)
            p.connection = Conn()
            p._ensure_connected = noop
            p._shutdown_if_primary_pairing_removed = noop
            coro = p.add_pairing("other-ctl", ltpk, "User") if kind == "ipadd" else p.remove_pairing("other-ctl")
        else:
            p = BlePairing.__new__(BlePairing)
            p.__dict__["_accessories_state"] = _Anything()
            p.__dict__["description"] = _Anything()
            p.__dict__["id"] = "x"
            p.__dict__["device"] = None

            async def req(opcode, char, data):
                return refacc.tlv([(1, wire)])
            p._async_request = req
            p._shutdown_if_primary_pairing_removed = noop
            type(p).accessories  # noqa: B018
            with mock.patch.object(BlePairing, "accessories", _Anything(), create=True), mock.patch.object(BlePairing, "name", "ble", create=True):
                coro = ble_add(p, "other-ctl", ltpk, "User") if kind == "bleadd" else ble_rm(p, "other-ctl")
                return _run(loop, coro)
        return _run(loop, coro)

    for kind in ("ipadd", "iprm", "bleadd", "blerm"):
        for code in CODES:
            for state in STATES:
                for extra in ([], [(1, b"id")]):
                    for oi, items in enumerate(orders(state, code, extra)):
                        out = call(kind, items)
                        ctx.evaluations += 1
                        ctx.nontrivial.add((kind, code, state, bool(extra), oi))
                        case = {"stream": "pairings", "kind": kind, "items": [[k, hx(v)] for k, v in items]}
                        want = expected_outcome(b"\x02", state, code, kind="ipadd" if kind == "ipadd" else "pairing")
                        bad = None
                        if out.startswith("exc"):
                            bad = f"raised non-library {out.split()[1]}"
                        elif want == "library-error" and not out.startswith("err"):
                            bad = f"-> {out} although the accessory answered with an error / foreign step number"
                        elif want and want.startswith("err") and out != want:
                            bad = f"-> {out}, documented outcome is {want}"
                        if bad:
                            ctx.violation(f"{kind}/{'wrong-state' if state not in (None, bytes([2])) else 'error-code'}", f"{kind}: reply {show(items)} {bad}", case)
                        cases.append(case)
                        outs.append("ok" if out in ("ok True", "ok None") else out)
                        lines.append(("c04.ipadd " if kind == "ipadd" else "c04.rm ") + " ".join(f"{k} {hx(v)}" for k, v in items))
                        ctx.dist[f"{kind}:{out}"] += 1
    compare_with_model(ctx, "pairings", cases, outs, lines, driver)
    loop.close()


def _run(loop, coro):
    try:
        r = loop.run_until_complete(coro)
        return f"ok {r}"
    except E.HomeKitException as e:
        return "err " + type(e).__name__
    except Exception as e:  # noqa: BLE001
        return "exc " + type(e).__name__



# =====================================================================================================================
# transport level: the BLE and CoAP transports' own drivers of the pairing state machines
# (ble_request / PDU framing / _pairing_char_write / drive_pairing_state_machine / BlePairing / BleDiscovery,
#  CoAPHomeKitConnection.do_pair_* / CoAPDiscovery / CoAPPairing) against an independent accessory that answers ONE step
#  of the procedure with the scripted error / foreign step number - persistently, on every attempt the library makes.
# Only the radio (bleak client) and the CoAP context (aiocoap) are replaced; time is virtual (simnet.VLoop).
# =====================================================================================================================
STEP_STATE = {"setupM2": b"\x02", "setupM4": b"\x04", "setupM6": b"\x06", "verifyM2": b"\x02", "verifyM4": b"\x04", "pairingsM2": b"\x02"}
PIN = "111-22-333"
ATTEMPT_LIMIT = 40  # no bounded retry policy reaches the same step of one procedure this often within one operation
REQUEST_LIMIT = 20000  # transport-level reads / writes of one cell (small MTUs and value fragments need a few hundred)
OP_TIMEOUT = 3600.0  # virtual seconds


class _Runaway(BaseException):
    """the scripted accessory has answered more requests than any bounded retry policy sends for one operation"""


def _opt(h):
    return None if h is None else unhx(h)


def _scripted_items(case, genuine):
    """the scripted reply of one cell: State / Error items of the case, optionally with the step's genuine other fields"""
    o = orders(_opt(case["state"]), _opt(case["code"]), list(genuine) if case.get("fields") else [])
    return o[case.get("order", 0) % len(o)]


class _Peer:
    """the accessory's pairing logic, transport independent, written with harness/refacc.py only (nothing from aiohomekit):
    genuine pair-setup (real or stub SRP), pair-verify incl. session resume, add/remove/list pairings - except at the scripted
    step, which is answered with the scripted reply every time it is reached"""

    def __init__(self, case, rb):
        self.case = case
        self.rb = rb
        self.ident = refacc.Identity(rb)
        self.step = case.get("step")
        self.log = []  # (endpoint, what) for every complete request, in order
        self.scripted_at = []  # indexes into log of the requests answered with the scripted reply
        self.requests = 0
        self.runaway = False
        self.session = None  # [c2a key, a2c key, c2a counter, a2c counter] once pair-verify completed on this side
        self.shared = None
        self.sid = None
        self.srp = None
        self.K = None
        self.va = None
        self.completed = []  # procedures that completed on the accessory side

    def count(self):
        self.requests += 1
        if self.requests > REQUEST_LIMIT:
            self.runaway = True
            raise _Runaway()

    def script(self, step, genuine):
        if self.step != step:
            return None
        self.scripted_at.append(len(self.log) - 1)
        if len(self.scripted_at) > ATTEMPT_LIMIT:
            self.runaway = True
            raise _Runaway()
        return _scripted_items(self.case, genuine)

    def drop_link(self):
        """the link is gone: the session keys die with it, the resumable secret stays"""
        self.session = None

    # ---- pair-setup
    def on_setup(self, req):
        st = req.get(6)
        self.log.append(("setup", "M" + hx(st or b"")))
        stub = self.case.get("srp", "stub") == "stub"
        if st == b"\x01":
            if stub:
                genuine = [(3, b"\x05" * 384), (2, b"\x09" * 16)]
            else:
                self.srp = refacc.SrpServer(PIN, self.rb(16), int.from_bytes(self.rb(32), "big"))
                genuine = [(3, refacc.PAD(self.srp.B)), (2, self.srp.salt)]
            return self.script("setupM2", genuine) or [(6, b"\x02")] + genuine
        if st == b"\x03":
            if stub:
                proof, self.K = b"\x03" * 64, FakeSrp.K
            else:
                self.srp.on_A(req[3])
                if req.get(4) != self.srp.M1:
                    return [(6, b"\x04"), (7, b"\x02")]
                proof, self.K = self.srp.M2, self.srp.K
            genuine = [(4, proof)]
            return self.script("setupM4", genuine) or [(6, b"\x04")] + genuine
        if st == b"\x05" and self.K is not None:
            ekey = refacc.hk(self.K, b"Pair-Setup-Encrypt-Salt", b"Pair-Setup-Encrypt-Info")
            ax = refacc.hk(self.K, b"Pair-Setup-Accessory-Sign-Salt", b"Pair-Setup-Accessory-Sign-Info")
            sig = self.ident.acc_ltsk.sign(ax + self.ident.acc_id + self.ident.acc_ltpk)
            enc = ChaCha20Poly1305(ekey).encrypt(b"\0\0\0\0PS-Msg06", refacc.tlv([(1, self.ident.acc_id), (3, self.ident.acc_ltpk), (10, sig)]), b"")
            genuine = [(5, enc)]
            r = self.script("setupM6", genuine)
            if r is None:
                self.completed.append("setup")
            return r or [(6, b"\x06")] + genuine
        return [(6, bytes([(st or b"\0")[0] + 1 & 0xFF])), (7, b"\x01")]

    # ---- pair-verify
    def _install(self, shared, sid):
        self.shared, self.sid = shared, sid
        self.session = [refacc.hk(shared, b"Control-Salt", b"Control-Write-Encryption-Key"), refacc.hk(shared, b"Control-Salt", b"Control-Read-Encryption-Key"), 0, 0]
        self.completed.append("verify")

    def on_verify(self, req):
        from cryptography.exceptions import InvalidTag
        st = req.get(6)
        resume = req.get(0) == b"\x06"
        self.log.append(("verify", "M" + hx(st or b"") + ("r" if resume else "")))
        if st == b"\x01":
            ios_pk = req.get(3, b"")
            if resume and self.case.get("honour_resume", True) and self.shared is not None and req.get(14) == self.sid:
                ok = True
                try:
                    ChaCha20Poly1305(refacc.hk(self.shared, ios_pk + req[14], b"Pair-Resume-Request-Info")).decrypt(b"\0\0\0\0PR-Msg01", req.get(5, b""), b"")
                except InvalidTag:
                    ok = False
                if ok:
                    new_sid = self.rb(8)
                    tag = ChaCha20Poly1305(refacc.hk(self.shared, ios_pk + new_sid, b"Pair-Resume-Response-Info")).encrypt(b"\0\0\0\0PR-Msg02", b"", b"")
                    genuine = [(0, b"\x06"), (14, new_sid), (5, tag)]
                    r = self.script("verifyM2", genuine)
                    if r is not None:
                        return r
                    self._install(refacc.hk(self.shared, ios_pk + new_sid, b"Pair-Resume-Shared-Secret-Info"), new_sid)
                    self.completed.append("resume")
                    return [(6, b"\x02")] + genuine
            self.va = refacc.VerifyAccessory(self.ident, self.rb(32))
            m2 = self.va.m2(ios_pk)
            return self.script("verifyM2", m2[1:]) or m2
        if st == b"\x03" and self.va is not None:
            r = self.script("verifyM4", [])
            if r is not None:
                return r
            if not self.va.check_m3(list(req.items())):
                return [(6, b"\x04"), (7, b"\x02")]
            self._install(self.va.shared, refacc.hk(self.va.shared, b"Pair-Verify-ResumeSessionID-Salt", b"Pair-Verify-ResumeSessionID-Info", 8))
            return [(6, b"\x04")]
        return [(6, bytes([(st or b"\0")[0] + 1 & 0xFF])), (7, b"\x01")]

    # ---- add / remove / list pairings (inside a verified session)
    def on_pairings(self, req):
        method = req.get(0, b"")
        self.log.append(("pairings", {b"\x03": "add", b"\x04": "remove", b"\x05": "list"}.get(method, "method" + hx(method))))
        genuine = [(1, self.ident.ios_id.encode()), (3, self.ident.ios_ltpk), (11, b"\x01")] if method == b"\x05" else []
        r = self.script("pairingsM2", genuine)
        if r is None:
            self.completed.append("pairings")
        return r or [(6, b"\x02")] + genuine


def _judge(case, obs):
    """what the property says about one transport-level cell -> [(signature suffix, text)]"""
    step = case.get("step")
    if step is None:
        return []  # a genuine exchange: the property makes no claim (acceptance is C01/C03); recorded in the distribution only
    state, code = _opt(case["state"]), _opt(case["code"])
    exact = case["level"] == "step"
    want = expected_outcome(STEP_STATE[step], state, code, kind="step" if exact else ("ipadd" if case["level"] == "add" else "pairing"))
    exact = exact or (want is not None and want != "library-error")
    if want is None:
        return []
    reply = "[" + ", ".join(([f"State={case['state']}"] if state is not None else []) + ([f"Error={case['code']}"] if code is not None else [])) + (", + the step's genuine fields" if case.get("fields") else "") + "]"
    what = "a foreign step number" if (state is not None and state != STEP_STATE[step]) else "an error code"
    kind = "wrong-state" if what.startswith("a foreign") else "error-code"
    where = f"{case['stream']} {case['op']}: accessory answers {step} with {reply} (each of the {obs['scripted']} time(s) the step was reached)"
    out, bad = obs["out"], []
    if obs.get("runaway") or out == "timeout":
        bad.append(("no-failure", f"{where}: the operation neither failed nor ended - {obs['requests']} requests sent, outcome {out}; documented outcome is {want}"))
    elif obs["scripted"] == 0:
        return []  # the step was never reached (the operation ended earlier): nothing to judge
    elif out.startswith("exc"):
        bad.append((out.split()[1], f"{where}: raised non-library {out.split()[1]}; documented outcome is {want}"))
    elif out.startswith("ok"):
        bad.append(("completed/" + kind, f"{where}: the call returned normally ({out[3:][:60]}) - no exception although the accessory's answer was {what}; documented outcome is {want}"))
    elif exact and out != want:
        bad.append((kind, f"{where}: -> {out}, documented outcome is {want}"))
    if obs.get("keys"):
        bad.append(("keys-installed", f"{where}: session keys / pairing are in place afterwards ({obs['keys']}), outcome {out}"))
    if obs.get("after"):
        bad.append(("carried-on", f"{where}: afterwards the controller went on to send {obs['after'][:4]} as if the procedure had succeeded (outcome {out})"))
    return bad


def _after(peer, own):
    """requests that arrived after a scripted reply and do not belong to the scripted procedure itself (a fresh attempt at the
    procedure is allowed: whether the library retries is not the property's business)"""
    if not peer.scripted_at:
        return []
    return [f"{e}:{w}" for e, w in peer.log[peer.scripted_at[0] + 1:] if e not in own]


# --------------------------------------------------------------------------------------------------------------- BLE
class _Gatt:
    def __init__(self, name, iid):
        self.name, self.iid, self.handle, self.uuid = name, iid, iid, name
        self.properties = ["read", "write"]


class _BleAcc(_Peer):
    """HAP-BLE framing around _Peer: request PDU reassembly, response PDUs (optionally split over several GATT reads),
    pairing-characteristic value fragments (FragmentData / FragmentLast), session encryption of everything but pair-setup/verify"""

    def __init__(self, case, rb, names):
        super().__init__(case, rb)
        self.names = names  # characteristic type -> endpoint name
        self.partial, self.pending, self.vq = {}, {}, {}

    def gatt(self, char_type, iid):
        name = self.names.get(str(char_type).upper(), ("other", iid or 99))
        return _Gatt(name[0], name[1] if iid is None else iid)

    @staticmethod
    def nonce(c):
        return struct.pack("<LQ", 0, c)

    def gatt_write(self, h, data):
        from cryptography.exceptions import InvalidTag
        self.count()
        secured = self.session is not None and h.name not in ("setup", "verify")
        if secured:
            try:
                data = ChaCha20Poly1305(self.session[0]).decrypt(self.nonce(self.session[2]), data, b"")
            except InvalidTag:
                self.log.append((h.name, "not-encrypted-for-this-session"))
                self.pending[h.iid] = [struct.pack("<BBB", 2, data[2] if len(data) > 2 else 0, 3)]
                return
            self.session[2] += 1
        if data and data[0] & 0x80:
            buf = self.partial.get(h.iid)
            if buf is None:
                return
            buf["body"] += data[2:]
        else:
            _c, op, tid, iid = struct.unpack("<BBBH", data[:5])
            buf = self.partial[h.iid] = {"op": op, "tid": tid, "len": struct.unpack("<H", data[5:7])[0] if len(data) >= 7 else 0, "body": data[7:]}
        if len(buf["body"]) < buf["len"]:
            return
        del self.partial[h.iid]
        status, body = self.on_request(h, buf["op"], buf["body"], secured)
        split = self.case.get("pdu_split") or 0
        if not body:
            frags = [struct.pack("<BBB", 2, buf["tid"], status)]
        else:
            first = body[:split] if split else body
            frags, rest = [struct.pack("<BBBH", 2, buf["tid"], status, len(body)) + first], body[len(first):]
            while rest:
                frags.append(bytes([0x82, buf["tid"]]) + rest[:split])
                rest = rest[split:]
        if secured:
            for i, f in enumerate(frags):
                frags[i] = ChaCha20Poly1305(self.session[1]).encrypt(self.nonce(self.session[3]), f, b"")
                self.session[3] += 1
        self.pending[h.iid] = frags

    def gatt_read(self, h):
        self.count()
        q = self.pending.get(h.iid)
        if not q:
            return struct.pack("<BBB", 2, 0, 6)
        return q.pop(0)

    def on_request(self, h, op, body, secured):
        if h.name in ("setup", "verify", "pairings"):
            if h.name == "pairings" and not secured:
                self.log.append((h.name, "outside-a-session"))
                return 3, b""
            if op != 2:
                self.log.append((h.name, f"op{op:02x}"))
                return 6, b""
            value = refacc.untlv(body).get(1, b"")
            if value == b"\x0c\x00" and self.vq.get(h.name):
                chunk = self.vq[h.name].pop(0)
                return 0, refacc.tlv([(1, refacc.tlv([(12 if self.vq[h.name] else 13, chunk)]))])
            self.vq[h.name] = []
            reply = refacc.tlv(getattr(self, "on_" + h.name)(refacc.untlv(value)))
            vfrag = self.case.get("vfrag") or 0
            if vfrag and len(reply) > vfrag and h.name != "pairings":  # the library reassembles value fragments on pair-setup / pair-verify only
                n = max(vfrag, -(-len(reply) // 40))
                chunks = [reply[i:i + n] for i in range(0, len(reply), n)]
                self.vq[h.name] = chunks[1:]
                return 0, refacc.tlv([(1, refacc.tlv([(12, chunks[0])]))])
            return 0, refacc.tlv([(1, reply)])
        if h.name == "features":
            self.log.append((h.name, f"op{op:02x}"))
            return (0, refacc.tlv([(1, bytes([self.case.get("ff", 0)]))])) if op == 3 else (6, b"")
        if not secured:
            self.log.append((h.name, f"op{op:02x}-outside-a-session"))
            return 3, b""
        self.log.append((h.name, f"op{op:02x}"))
        if op == 3:
            return 0, refacc.tlv([(1, b"\x01")])
        return (0, b"") if op in (2, 4, 5) else (6, b"")


class _Radio:
    """stands in for the bleak client: only what the library needs to move GATT reads and writes"""
    address = "AA:BB:CC:DD:EE:FF"

    def __init__(self, acc, mtu=512):
        self.acc, self.mtu, self.is_connected, self.services = acc, mtu, True, []

    async def get_characteristic(self, service_type, char_type, iid=None):
        return self.acc.gatt(char_type, iid)

    async def get_characteristic_iid(self, char):
        return char.iid

    def determine_fragment_size(self, overhead, handle=None):
        return self.mtu - 3 - overhead

    async def write_gatt_char(self, handle, data, response=None):
        self.acc.gatt_write(handle, bytes(data))

    async def read_gatt_char(self, handle):
        return self.acc.gatt_read(handle)

    async def disconnect(self):
        self.is_connected = False
        self.acc.drop_link()

    async def clear_cache(self):
        return None

    async def start_notify(self, *a, **k):
        return None

    async def stop_notify(self, *a, **k):
        return None


_BLE_DB = {}


def _ble_db():
    """a small accessory database (information, pairing, lightbulb services) as an integration restores it from its cache"""
    if not _BLE_DB:
        from aiohomekit.model import Accessories, Accessory
        from aiohomekit.model.characteristics import CharacteristicsTypes as CT
        from aiohomekit.model.services import ServicesTypes as ST
        a = Accessory(1)
        info = a.add_service(ST.ACCESSORY_INFORMATION, iid=1)
        info.add_char(CT.NAME, iid=2, value="acc")
        info.add_char(CT.IDENTIFY, iid=3)
        pair = a.add_service(ST.PAIRING, iid=10)
        names = {}
        for name, ct, iid in (("setup", CT.PAIR_SETUP, 11), ("verify", CT.PAIR_VERIFY, 12), ("features", CT.PAIRING_FEATURES, 13), ("pairings", CT.PAIRING_PAIRINGS, 14)):
            pair.add_char(ct, iid=iid)
            names[str(ct).upper()] = (name, iid)
        bulb = a.add_service(ST.LIGHTBULB, iid=20)
        bulb.add_char(CT.ON, iid=21)
        names[str(CT.ON).upper()] = ("on", 21)
        names[str(CT.NAME).upper()] = ("name", 2)
        names[str(CT.IDENTIFY).upper()] = ("identify", 3)
        accs = Accessories()
        accs.add_accessory(a)
        _BLE_DB.update(names=names, db=accs.serialize())
    return _BLE_DB


BLE_PUBLIC = {
    "list_pairings": lambda p, k: p.list_pairings(),
    "add_pairing": lambda p, k: p.add_pairing("other-ctl", k, "User"),
    "add_pairing_admin": lambda p, k: p.add_pairing("other-ctl", k, "Admin"),
    "remove_pairing": lambda p, k: p.remove_pairing("other-ctl"),
    "remove_own_pairing": lambda p, k: p.remove_pairing(p.pairing_data["iOSPairingId"]),
    "list_accessories_and_characteristics": lambda p, k: p.list_accessories_and_characteristics(),
    "async_populate_accessories_state": lambda p, k: p.async_populate_accessories_state(force_update=True),
    "get_characteristics": lambda p, k: p.get_characteristics([(1, 21)]),
    "put_characteristics": lambda p, k: p.put_characteristics([(1, 21, True)]),
    "identify": lambda p, k: p.identify(),
}
BLE_PAIRINGS_OPS = ("add_pairing", "add_pairing_admin", "remove_pairing", "remove_own_pairing")


async def _guard(coro):
    try:
        r = await asyncio.wait_for(coro, OP_TIMEOUT)
        return "ok " + (repr(r) if isinstance(r, (bool, type(None))) else type(r).__name__ + (f"[{len(r)}]" if isinstance(r, (list, dict)) else ""))
    except E.HomeKitException as e:
        return "err " + type(e).__name__
    except asyncio.TimeoutError:
        return "timeout"
    except _Runaway:
        return "runaway"
    except Exception as e:  # noqa: BLE001
        return "exc " + type(e).__name__


async def _ble_cell(case):
    """one BLE cell, a pure function of the case dict"""
    import random as _r
    from aiohomekit.characteristic_cache import CharacteristicCacheMemory
    from aiohomekit.controller.ble.controller import BleController
    rng = _r.Random(case.get("seed", 0))
    rb = lambda n: bytes(rng.randrange(256) for _ in range(n))  # noqa: E731
    db = _ble_db()
    acc = (_BleDeliveryAcc if case.get("delivery") else _BlePairingsEnvelopeAcc if case.get("pairings_envelope") else _BleAcc)(case, rb, db["names"])
    radio = _Radio(acc, case.get("mtu", 512))
    controller = BleController(CharacteristicCacheMemory())
    op = case["op"]
    obs = {"keys": None}
    stub = mock.patch.object(P, "SrpClient", FakeSrp) if case.get("srp", "stub") == "stub" else mock.patch.object(P, "SrpClient", P.SrpClient)
    if op in ("start_pairing", "finish_pairing"):
        from aiohomekit.controller.ble.discovery import BleDiscovery
        from aiohomekit.controller.ble.manufacturer_data import HomeKitAdvertisement
        from aiohomekit.model.categories import Categories
        from aiohomekit.model.status_flags import StatusFlags
        desc = HomeKitAdvertisement(name="acc", id=acc.ident.acc_id.decode().lower(), status_flags=StatusFlags(1), config_num=1, category=Categories(5),
                                    setup_hash=b"", address=radio.address, state_num=1)
        disc = BleDiscovery(controller, None, desc, None)
        disc.client = radio
        with stub:
            if op == "start_pairing":
                out = await _guard(disc.async_start_pairing("alias"))
            else:
                # part 1 is genuine (the scripted step lies in part 2)
                try:
                    finish = await asyncio.wait_for(disc.async_start_pairing("alias"), OP_TIMEOUT)
                except _Runaway:
                    raise
                except Exception as e:  # noqa: BLE001
                    obs.update(out="scaffold " + type(e).__name__, scripted=0, requests=acc.requests, runaway=acc.runaway, after=[])
                    return obs
                out = await _guard(finish(PIN))
        if "alias" in controller.pairings:
            obs["keys"] = "controller.pairings holds the new pairing"
        own = ("setup", "features")
    else:
        pd = dict(acc.ident.pairing_data(connection="BLE"), AccessoryAddress=radio.address)
        pairing = BlePairing(controller, pd, client=radio)
        pairing.restore_accessories_state(db["db"], 1, None, None)
        own = ("pairings", "verify") if case.get("step") == "pairingsM2" else ("verify",)
        if case.get("resume"):
            # an earlier, genuine session on the same pairing; then the link drops (the radio reports it) and comes back
            scripted, acc.step = acc.step, None
            pre = await _guard(pairing._async_pair_verify())
            acc.step = scripted
            if pre != "ok None":
                obs.update(out="scaffold " + pre, scripted=0, requests=acc.requests, runaway=acc.runaway, after=[])
                return obs
            acc.drop_link()
            pairing._async_disconnected(radio)
            acc.log.clear()
        if op == "pair_verify":
            out = await _guard(pairing._async_pair_verify())
        else:
            out = await _guard(BLE_PUBLIC[op](pairing, acc.ident.ios_ltpk.hex()))
        if case.get("step") in ("verifyM2", "verifyM4") and pairing.is_connected:
            obs["keys"] = "BlePairing.is_connected is True"
    obs.update(out=out, scripted=len(acc.scripted_at), requests=acc.requests, runaway=acc.runaway, after=_after(acc, own), completed=list(acc.completed))
    if case.get("delivery"):
        obs["said"] = acc.attempts
    return obs


def _cells(step, others, full):
    """reply shapes for one (entry point, step): every error code with the expected / an absent State, every foreign State
    without and with an error code; with and without the step's genuine other fields, over the item orders"""
    exp = hx(STEP_STATE[step])
    out = []
    n = 0
    if full == "light":
        wrong = [hx(st) for st in STATES[1:] if hx(st) != exp]
        return ([{"state": exp, "code": hx(c), "fields": False, "order": 0} for c in CODES[1:9]] + [{"state": None, "code": hx(c), "fields": False, "order": 0} for c in (b"\x07", b"\x02")]
                + [{"state": w, "code": None, "fields": False, "order": 0} for w in (wrong[0], wrong[-1])])
    for code in CODES[1:]:
        for state in (exp, None):
            for fields in ((False, True) if (others and full) else (False,)):
                n += 1
                out.append({"state": state, "code": hx(code), "fields": fields, "order": n % 5 if full else 0})
    for st in STATES[1:]:
        if hx(st) == exp:
            continue
        for code in ((None, CODES[1 + n % 7]) if full else (None,)):
            for fields in ((False, True) if (others and full) else (False,)):
                n += 1
                out.append({"state": hx(st), "code": None if code is None else hx(code), "fields": fields, "order": n % 5 if full else 0})
    return out


def _run_cells(ctx, loop, cases, cell):
    for case in cases:
        try:
            obs = loop.run_until_complete(cell(case))
        except _Runaway:
            obs = {"out": "runaway", "scripted": 1, "requests": REQUEST_LIMIT, "runaway": True, "after": [], "keys": None}
        pend = [t for t in asyncio.all_tasks(loop) if not t.done()]
        for t in pend:
            t.cancel()
        if pend:
            loop.run_until_complete(asyncio.gather(*pend, return_exceptions=True))
        ctx.evaluations += 1
        ctx.nontrivial.add((case["stream"], case["op"], case.get("step"), case.get("state"), case.get("code"), case.get("fields"), case.get("order"),
                            case.get("vfrag"), case.get("pdu_split"), case.get("resume"), case.get("honour_resume"), case.get("ff"), case.get("srp"), case.get("with_auth"), str(case.get("http")),
                            str(case.get("wire"))))
        ctx.dist[f"{case['stream']}:{case['op']}:{case.get('step') or 'genuine'}:{obs['out']}"] += 1
        if case.get("step") is None and not obs["out"].startswith("ok"):
            ctx.notes.append(f"{case['stream']} {case['op']}: the genuine control exchange ended with {obs['out']} (the property makes no claim; the error cells of this entry point may not reach their step)")
        for sig, text in _judge(case, obs):
            ctx.violation(f"{case['stream']}/{case['op']}/{case.get('step')}/{sig}", text, case)


def ble_transport_grid(ctx: Ctx, rng):
    from harness import simnet
    loop = simnet.VLoop()
    asyncio.set_event_loop(loop)
    cases = []
    shapes = [{"vfrag": 0, "pdu_split": 0}, {"vfrag": 0, "pdu_split": 3}, {"vfrag": 2, "pdu_split": 0}, {"vfrag": 3, "pdu_split": 5, "mtu": 23}]

    def add(op, level, step, others, full, **kw):
        for i, cell in enumerate(_cells(step, others, full)):
            cases.append(dict({"stream": "ble", "op": op, "level": level, "step": step, "seed": rng.randrange(1 << 30)}, **cell, **shapes[(i + len(cases)) % len(shapes)], **kw))
    # the procedures' own drivers: documented class demanded
    for step, others in (("verifyM2", True), ("verifyM4", False)):
        add("pair_verify", "step", step, others, True)
        # a later session of the same pairing (resume requested): the accessory resumes (M2 only) or falls back to a full exchange
        if step == "verifyM2":
            add("pair_verify", "step", step, others, True, resume=True)
        add("pair_verify", "step", step, others, step == "verifyM4", resume=True, honour_resume=False)
    for ff in (0, 1, 2):
        add("start_pairing", "step", "setupM2", True, ff != 2, ff=ff)
    add("finish_pairing", "step", "setupM4", True, True)
    add("finish_pairing", "step", "setupM6", True, True)
    # public operations that run pair-verify first / add and remove pairing inside a genuine session: a library error demanded
    for op in BLE_PUBLIC:
        for step in ("verifyM2", "verifyM4"):
            add(op, "op", step, True, False)
    for op in BLE_PAIRINGS_OPS:
        add(op, "op", "pairingsM2", False, True)
    # real SRP on a sample of the pair-setup cells, and the genuine control exchanges
    real = [dict(c, srp="real") for c in cases if c["op"] in ("start_pairing", "finish_pairing")]
    rng.shuffle(real)
    cases += real[:ctx.budget(4, 80)]
    for op in ["pair_verify", "start_pairing", "finish_pairing"] + list(BLE_PUBLIC):
        for shape in shapes[:ctx.budget(2, 4)]:
            cases.append(dict({"stream": "ble", "op": op, "level": "step", "step": None, "seed": rng.randrange(1 << 30)}, **shape))
    cases.append({"stream": "ble", "op": "pair_verify", "level": "step", "step": None, "resume": True, "seed": rng.randrange(1 << 30)})
    cases.append({"stream": "ble", "op": "finish_pairing", "level": "step", "step": None, "srp": "real", "seed": rng.randrange(1 << 30)})
    _run_cells(ctx, loop, cases, _ble_cell)
    asyncio.set_event_loop(None)
    loop.close()
    ctx.sample(cases[3])
    ctx.notes.append(f"BLE transport: {len(cases)} cells (entry point x step x reply shape x PDU / value fragmentation) through the real ble_request, PDU codec, _pairing_char_write, "
                     "drive_pairing_state_machine, BlePairing and BleDiscovery against an independent HAP-BLE accessory; the accessory repeats the scripted reply on every attempt")



# ------------------------------------------------------------------------------------------------ BLE, reply delivery
# Every way a HAP-BLE accessory may DELIVER the reply of a pair-setup / pair-verify step (stream ble-delivery).  The value of
# the pairing characteristic is either the reply itself (an unfragmented reply) or one envelope of a fragmented transfer:
# FragmentData(chunk) - acknowledged by the controller with an empty FragmentData write - ... FragmentLast(chunk).  What the
# accessory says for one attempt at the step is a list of such utterances, one per write of the controller.  The harness
# reads them itself (`_logical_reply`): chunks accumulate, FragmentLast completes the transfer, an unfragmented reply stands
# by itself and abandons whatever transfer was under way.  The FIRST complete reply decides what the property demands.
GENUINE = "genuine"
MAX_ENVELOPES = 40  # a reply is delivered in at most this many envelopes (no accessory needs more: 40 x 20 bytes > any pairing reply)


def _read_items(b):
    """the harness's own strict TLV8 reader -> [(type, value)] (neighbouring records of one type are one value), None when
    the bytes are not a whole number of records"""
    out, i = [], 0
    while i < len(b):
        if i + 2 > len(b) or i + 2 + b[i + 1] > len(b):
            return None
        t, v = b[i], bytes(b[i + 2:i + 2 + b[i + 1]])
        i += 2 + len(v)
        if out and out[-1][0] == t:
            out[-1] = (t, out[-1][1] + v)
        else:
            out.append((t, v))
    return out


def _record_bounds(b):
    """offsets at which a TLV8 record of `b` ends (0 and len(b) included)"""
    out, i = [0], 0
    while i + 2 <= len(b) and i + 2 + b[i + 1] <= len(b):
        i += 2 + b[i + 1]
        out.append(i)
    if out[-1] != len(b):
        out.append(len(b))
    return out


def _pos(tok, n, bounds):
    """a cut position inside a body of n bytes: an offset (negative = from the end), None = the end, 'h' = the middle,
    'b<k>' = the end of the k-th record (negative k = from the end)"""
    if tok is None:
        return n
    if isinstance(tok, int):
        return max(0, min(n, tok if tok >= 0 else n + tok))
    if tok == "h":
        return n // 2
    k = int(tok[1:])
    k = max(-len(bounds), min(len(bounds) - 1, k if k >= 0 else k - 1))
    return bounds[k]


class _BleDeliveryAcc(_BleAcc):
    """_BleAcc whose scripted step is answered by a scripted DELIVERY (case['delivery']: list of utterances
    {'u': 'plain', 'reply': spec} | {'u': 'data' | 'last', 'reply': spec, 'from': pos, 'to': pos} |
    {'u': 'stream', 'reply': spec, 'size': n, 'end': 'data' | 'last', 'from': pos, 'to': pos}; spec = 'genuine' or a reply
    shape {state, code, fields, order} rendered with the exchange's genuine fields) - on every attempt at the step.  When the
    controller goes on acknowledging after the script's end the last utterance is repeated."""

    def __init__(self, case, rb, names):
        super().__init__(case, rb, names)
        self.attempts = []  # per attempt at the scripted step: [{'kind', 'chunk', 'read'}] in the order they were said
        self.todo = None
        self.live_name = None
        self.genuine = []
        self.await_read = {}

    def script(self, step, genuine):
        if self.step != step:
            return None
        self.scripted_at.append(len(self.log) - 1)
        if len(self.scripted_at) > ATTEMPT_LIMIT:
            self.runaway = True
            raise _Runaway()
        self.genuine = list(genuine)
        return [(6, STEP_STATE[step])]  # a marker; what is sent comes from the delivery script

    def body(self, spec):
        if spec == GENUINE:
            return refacc.tlv([(6, STEP_STATE[self.step])] + self.genuine)
        return refacc.tlv(_scripted_items(spec, self.genuine))

    def expand(self):
        out = []
        for u in self.case["delivery"]:
            body = self.body(u["reply"])
            if u["u"] == "plain":
                out.append({"kind": "plain", "chunk": body, "read": False})
                continue
            bounds = _record_bounds(body)
            a = _pos(u.get("from", 0), len(body), bounds)
            b = max(a, _pos(u.get("to"), len(body), bounds))
            if u["u"] == "stream":
                size = max(1, int(u["size"]), -(-(b - a) // 30))
                pieces = [body[i:i + size] for i in range(a, b, size)] or [b""]
                for j, piece in enumerate(pieces):
                    out.append({"kind": "last" if (u.get("end") == "last" and j == len(pieces) - 1) else "data", "chunk": piece, "read": False})
            else:
                out.append({"kind": u["u"], "chunk": body[a:b], "read": False})
        return out[:MAX_ENVELOPES]

    def say(self, h):
        if self.todo:
            u = self.todo.pop(0)
        else:
            u = dict(self.attempts[-1][-1], read=False, extra=True)
        self.attempts[-1].append(u)
        self.await_read[h.iid] = u
        value = u["chunk"] if u["kind"] == "plain" else refacc.tlv([(12 if u["kind"] == "data" else 13, u["chunk"])])
        return 0, refacc.tlv([(1, value)])

    def on_request(self, h, op, body, secured):
        if h.name not in ("setup", "verify") or op != 2:
            return super().on_request(h, op, body, secured)
        value = refacc.untlv(body).get(1, b"")
        if value == b"\x0c\x00" and self.todo is not None and self.live_name == h.name:
            self.log.append((h.name, "ack"))
            return self.say(h)
        self.todo, self.live_name = None, None
        n = len(self.scripted_at)
        items = getattr(self, "on_" + h.name)(refacc.untlv(value))
        if len(self.scripted_at) == n:
            return 0, refacc.tlv([(1, refacc.tlv(items))])
        self.todo, self.live_name = self.expand(), h.name
        self.attempts.append([])
        return self.say(h)

    def gatt_read(self, h):
        data = super().gatt_read(h)
        if h.iid in self.await_read and not self.pending.get(h.iid):
            self.await_read.pop(h.iid)["read"] = True  # the last PDU of the utterance has been handed to the library
        return data

    def drop_link(self):
        super().drop_link()
        self.todo, self.live_name = None, None
        self.await_read.clear()


class _BlePairingsEnvelopeAcc(_BleAcc):
    """probe only (never judged): the add / remove pairing reply wrapped in ONE FragmentLast envelope"""

    def on_request(self, h, op, body, secured):
        status, value = super().on_request(h, op, body, secured)
        if h.name == "pairings" and op == 2 and secured and status == 0 and value:
            return 0, refacc.tlv([(1, refacc.tlv([(13, refacc.untlv(value).get(1, b""))]))])
        return status, value


def _logical_reply(said):
    """the first complete reply among the utterances the library was handed in one attempt -> (shape, envelopes before it, bytes)"""
    buf, k = b"", 0
    for u in said:
        if not u["read"]:
            return None
        if u["kind"] == "data":
            buf += u["chunk"]
            k += 1
        elif u["kind"] == "last":
            return "transfer", k, buf + u["chunk"]
        else:
            return ("aborted" if k else "whole"), k, u["chunk"]
    return None


def _show_said(said):
    out = []
    for u in said:
        if u["kind"] == "plain":
            items = _read_items(u["chunk"]) or []
            s = "unfragmented reply " + show(items)
        else:
            s = f"{'FragmentData' if u['kind'] == 'data' else 'FragmentLast'}({len(u['chunk'])} bytes)"
        out.append(s + ("" if u["read"] else " (not read)"))
    return " | ".join(out)


def _judge_delivery(case, obs):
    """-> ([(signature suffix, text)], class of the cell for the distribution)"""
    step = case["step"]
    said = next((a for a in obs.get("said") or [] if _logical_reply(a) is not None), None)
    if said is None:
        return [], "no-complete-reply"
    shape, k, raw = _logical_reply(said)
    items = _read_items(raw)
    if items is None:
        return [], shape + ":not-tlv"  # a transfer that ends in the middle of a record: not a reply the property speaks about
    types = [t for t, _ in items]
    if 12 in types or 13 in types or types.count(6) > 1 or types.count(7) > 1:
        return [], shape + ":ambiguous"
    d = dict(items)
    state, code = d.get(6), d.get(7)
    exact = case["level"] == "step"
    want = expected_outcome(STEP_STATE[step], state, code, kind="step" if exact else "pairing")
    if want is None:
        return [], shape + ":clean"
    what = "a foreign step number" if (state is not None and state != STEP_STATE[step]) else "an error code"
    kind = "wrong-state" if what.startswith("a foreign") else "error-code"
    heard = [u for u in said if u["read"]]
    where = (f"ble-delivery {case['op']}: the accessory delivers its answer to {step} as [{_show_said(heard)}] - read by the harness: {shape} reply {show(items)}"
             + (f" after {k} FragmentData envelope(s)" if k else "") + f" (the step was reached {obs['scripted']} time(s))")
    out, bad = obs["out"], []
    if obs.get("runaway") or out == "timeout":
        bad.append(("no-failure", f"{where}: the operation neither failed nor ended - {obs['requests']} requests sent, outcome {out}; documented outcome is {want}"))
    elif out.startswith("exc"):
        bad.append((out.split()[1], f"{where}: raised non-library {out.split()[1]}; documented outcome is {want}"))
    elif out.startswith("ok"):
        bad.append(("completed/" + kind, f"{where}: the call returned normally ({out[3:][:60]}) - no exception although the accessory's answer was {what}; documented outcome is {want}"))
    elif exact and out != want:
        bad.append((kind, f"{where}: -> {out}, documented outcome is {want}"))
    if obs.get("keys"):
        bad.append(("keys-installed", f"{where}: session keys / pairing are in place afterwards ({obs['keys']}), outcome {out}"))
    if obs.get("after"):
        bad.append(("carried-on", f"{where}: afterwards the controller went on to send {obs['after'][:4]} as if the procedure had succeeded (outcome {out})"))
    return bad, shape + ":" + kind


def _delivery_catalogue(e, e2):
    """deliveries of the error / wrong-step reply `e` (e2: another one) -> [(shape name, delivery)]"""
    g = GENUINE

    def D(r, a=0, b=None):
        return {"u": "data", "reply": r, "from": a, "to": b}

    def L(r, a=0, b=None):
        return {"u": "last", "reply": r, "from": a, "to": b}

    def S(r, size, end, a=0, b=None):
        return {"u": "stream", "reply": r, "size": size, "end": end, "from": a, "to": b}

    def Pl(r):
        return {"u": "plain", "reply": r}
    cat = [("whole", [Pl(e)]), ("transfer/last-only", [L(e)]), ("transfer/data+empty-last", [D(e), L(e, None)])]
    # the reply as a complete transfer: every kind of split
    for cut in (1, 2, 3, 5, "h", -1, -2, "b1", "b2", "b-1"):
        cat.append(("transfer/two", [D(e, 0, cut), L(e, cut)]))
    cat.append(("transfer/three", [D(e, 0, "b1"), D(e, "b1", "b2"), L(e, "b2")]))
    cat.append(("transfer/three", [D(e, 0, 1), D(e, 1, "h"), L(e, "h")]))
    for size in (1, 2, 7, 64, 200, 255, 256):
        cat.append(("transfer/stream", [S(e, size, "last")]))
        cat.append(("transfer/stream+empty-last", [S(e, size, "data"), L(e, None)]))
    cat.append(("transfer/empty-chunks", [D(e, 0, 0), D(e, 0, "h"), D(e, "h", "h"), L(e, "h")]))
    # a transfer (of the genuine reply, of this or of another error reply) ABORTED after k envelopes by the unfragmented reply;
    # the chunks handed over so far are whole records (b<k>, everything) or end inside one
    for pre in ([D(g)], [D(g, 0, "b1")], [D(g, 0, "b1"), D(g, "b1")], [D(g, 0, "b2")], [D(g, 0, "b-1")], [D(g, 0, "h")], [D(g, 0, 1)], [D(g, 0, 2), D(g, 2, 5)],
                [S(g, 200, "data")], [S(g, 64, "data")], [S(g, 255, "data")], [S(g, 100, "data", 0, "b-1")], [D(g, 0, 0)], [D(g, 0, 0), D(g)],
                [D(e2)], [D(e2, 0, "h")], [D(e)], [D(e, 0, "b1")], [D(e, 0, 1)]):
        cat.append(("aborted", pre + [Pl(e)]))
    # ... by an accessory that would carry on with the transfer if it were asked to
    cat.append(("aborted+tail", [D(g, 0, "b1"), Pl(e), D(g, "b1", "b-1"), L(g, "b-1")]))
    cat.append(("aborted+tail", [D(g), Pl(e), L(g, None)]))
    cat.append(("aborted+tail", [S(g, 200, "data"), Pl(e), L(g, None)]))
    cat.append(("whole+tail", [Pl(e), L(g)]))
    cat.append(("whole+tail", [Pl(e), D(g), L(g, None)]))
    cat.append(("transfer+tail", [D(e, 0, "h"), L(e, "h"), L(g)]))
    return cat


def _random_delivery(rng, e, e2):
    g = GENUINE
    cuts = [0, 1, 2, 3, 5, 17, 64, 200, 255, 256, 257, "h", -1, -2, -3, "b1", "b2", "b3", "b-1", "b-2", None]
    out = []
    who = rng.choice([g, g, e, e2])
    pos = 0
    for _ in range(rng.randrange(0, 5)):
        if rng.random() < 0.25:
            out.append({"u": "stream", "reply": who, "size": rng.choice([1, 3, 20, 64, 100, 200, 255]), "end": "data", "from": pos, "to": (nxt := rng.choice(cuts))})
        else:
            out.append({"u": "data", "reply": who, "from": pos, "to": (nxt := rng.choice(cuts))})
        pos = nxt
        if pos is None:
            break
    r = rng.random()
    if r < 0.55:
        out.append({"u": "plain", "reply": e})
    elif who == g:
        out.append({"u": "plain", "reply": e})
    else:
        out.append({"u": "last", "reply": who, "from": pos, "to": None})
    if rng.random() < 0.3:
        out.append({"u": "last", "reply": g, "from": rng.choice(cuts), "to": None})
    return out


def ble_delivery_grid(ctx: Ctx, rng):
    from harness import simnet
    loop = simnet.VLoop()
    asyncio.set_event_loop(loop)
    cases = []
    shapes = [{"pdu_split": 0}, {"pdu_split": 0}, {"pdu_split": 5}, {"pdu_split": 3, "mtu": 23}]
    drivers = [("pair_verify", "verifyM2", {}), ("pair_verify", "verifyM4", {}), ("pair_verify", "verifyM2", {"resume": True}), ("pair_verify", "verifyM2", {"resume": True, "honour_resume": False}),
               ("pair_verify", "verifyM4", {"resume": True, "honour_resume": False}), ("start_pairing", "setupM2", {"ff": 0}), ("start_pairing", "setupM2", {"ff": 1}),
               ("finish_pairing", "setupM4", {}), ("finish_pairing", "setupM6", {})]

    def specs(step):
        full = _cells(step, step not in ("verifyM4",), True)
        light = _cells(step, False, "light")
        return light, full

    def add(op, level, step, shape, delivery, **kw):
        cases.append(dict({"stream": "ble-delivery", "op": op, "level": level, "step": step, "seed": rng.randrange(1 << 30), "shape": shape, "delivery": delivery,
                           "state": None, "code": None}, **shapes[len(cases) % len(shapes)], **kw))
    per_shape = ctx.budget(2, 12)
    for op, step, kw in drivers:
        light, full = specs(step)
        n = 0
        for i, (name, _d) in enumerate(_delivery_catalogue(light[0], light[1])):
            for j in range(per_shape):
                n += 1
                e = (light if j % 2 == 0 else full)[(n * 7 + i) % len(light if j % 2 == 0 else full)]
                e2 = light[(n + 3) % len(light)]
                add(op, "step", step, name, _delivery_catalogue(e, e2)[i][1], **kw)
    # the public operations that run pair-verify first: a library error demanded
    for op in BLE_PUBLIC:
        for step in ("verifyM2", "verifyM4"):
            light, _full = specs(step)
            cat = _delivery_catalogue(light[0], light[1])
            picks = [i for i, (name, _d) in enumerate(cat) if name.startswith("aborted")][:: ctx.budget(4, 1)] + [i for i, (name, _d) in enumerate(cat) if name.startswith("transfer")][:: ctx.budget(9, 1)]
            for n, i in enumerate(picks):
                e, e2 = light[(n + len(cases)) % len(light)], light[(n + 5) % len(light)]
                add(op, "op", step, cat[i][0], _delivery_catalogue(e, e2)[i][1])
    # random deliveries
    for _ in range(ctx.budget(200, 6000)):
        op, step, kw = rng.choice(drivers)
        light, full = specs(step)
        e, e2 = rng.choice(light + full), rng.choice(light)
        add(op, "step", step, "random", _random_delivery(rng, e, e2), **kw)
    # genuine replies delivered in fragments (no claim: the operations must be able to succeed)
    for op, step, kw in drivers:
        for d in ([{"u": "stream", "reply": GENUINE, "size": 100, "end": "last", "from": 0, "to": None}], [{"u": "data", "reply": GENUINE, "from": 0, "to": None}, {"u": "last", "reply": GENUINE, "from": None, "to": None}]):
            add(op, "step", step, "genuine-transfer", d, **kw)
    n_judged = 0
    for case in cases:
        try:
            obs = loop.run_until_complete(_ble_cell(case))
        except _Runaway:
            obs = {"out": "runaway", "scripted": 1, "requests": REQUEST_LIMIT, "runaway": True, "after": [], "keys": None, "said": []}
        except Exception as e:  # noqa: BLE001 - an exception that escaped the cell's own guards: constructing the pairing / discovery objects failed
            obs = {"out": "scaffold " + type(e).__name__, "scripted": 0, "requests": 0, "runaway": False, "after": [], "keys": None, "said": []}
            ctx.dist[f"ble-delivery:scaffold:{type(e).__name__}"] += 1
        pend = [t for t in asyncio.all_tasks(loop) if not t.done()]
        for t in pend:
            t.cancel()
        if pend:
            loop.run_until_complete(asyncio.gather(*pend, return_exceptions=True))
        bad, cls = _judge_delivery(case, obs)
        ctx.evaluations += 1
        ctx.nontrivial.add(("ble-delivery", case["op"], case["step"], case.get("resume"), case.get("honour_resume"), case.get("ff"), case.get("pdu_split"), case.get("mtu"), str(case["delivery"])))
        ctx.dist[f"ble-delivery:{case['op']}:{case['step']}:{case['shape'].split('/')[0]}:{cls}:{obs['out']}"] += 1
        n_judged += cls.endswith(("error-code", "wrong-state"))
        if case["shape"] == "genuine-transfer" and not obs["out"].startswith("ok"):
            ctx.notes.append(f"ble-delivery {case['op']} {case['step']}: the genuine reply delivered as a complete fragmented transfer ended with {obs['out']} (the property makes no claim)")
        for sig, text in bad:
            ctx.violation(f"ble-delivery/{case['op']}/{case['step']}/{cls.split(':')[0]}/{sig}", text, case)
    # probe, recorded only (outside the property's reply shapes, see ASSUMPTIONS): the six-byte add / remove pairing reply inside a FragmentLast envelope
    probe = []
    for op in ("remove_pairing", "add_pairing"):
        c = {"stream": "ble", "op": op, "level": "op", "step": "pairingsM2", "state": "02", "code": "02", "fields": False, "order": 0, "pairings_envelope": True, "seed": 1}
        try:
            probe.append(f"{op} -> {loop.run_until_complete(_ble_cell(c))['out']}")
        except Exception as e:  # noqa: BLE001
            probe.append(f"{op} -> harness {type(e).__name__}")
        ctx.dist[f"ble-delivery:probe:pairings-envelope:{probe[-1]}"] += 1
    ctx.notes.append("BLE reply delivery, probe (not judged): add / remove pairing M2 [State=02, Error=02] delivered inside ONE FragmentLast envelope - the library does not reassemble pairings replies and reads "
                     "'no State, no Error': " + "; ".join(probe))
    asyncio.set_event_loop(None)
    loop.close()
    ctx.sample(cases[40])
    ctx.notes.append(f"BLE reply delivery: {len(cases)} cells (entry point x step x delivery of the reply: unfragmented, complete FragmentData.. FragmentLast transfers under every kind of split, transfers "
                     f"aborted after k envelopes by an unfragmented error / wrong-step reply, Error items inside fragments, replies followed by further fragments); {n_judged} of them ended - by the harness's own "
                     "reading of what the library was handed - in an error / wrong-step reply and were judged")


# -------------------------------------------------------------------------------------------------------------- CoAP
class _CoapAcc(_Peer):
    """HAP over CoAP: /1 pair-setup and /2 pair-verify carry bare TLV8; everything else needs a session this accessory does
    not serve (4.04, as an accessory that has no such session answers)"""

    def respond(self, msg):
        from types import SimpleNamespace
        from aiocoap.numbers.codes import Code
        self.count()
        path = "/".join(msg.opt.uri_path)
        if path in ("1", "2"):
            items = (self.on_setup if path == "1" else self.on_verify)(refacc.untlv(bytes(msg.payload)))
            return SimpleNamespace(payload=refacc.tlv(items), code=Code.CHANGED)
        self.log.append(("secured", "request"))
        return SimpleNamespace(payload=b"", code=Code.NOT_FOUND)


class _CoapContext:
    """stands in for aiocoap.Context"""

    def __init__(self, acc):
        self.acc = acc

    def request(self, msg):
        from types import SimpleNamespace
        fut = asyncio.get_running_loop().create_future()
        fut.set_result(self.acc.respond(msg))
        return SimpleNamespace(response=fut)

    async def shutdown(self):
        return None


COAP_PUBLIC = {
    "pairing.list_pairings": lambda p: p.list_pairings(),
    "pairing.remove_pairing": lambda p: p.remove_pairing("other-ctl"),
    "pairing.remove_own_pairing": lambda p: p.remove_pairing(p.pairing_data["iOSPairingId"]),
    "pairing.list_accessories_and_characteristics": lambda p: p.list_accessories_and_characteristics(),
    "pairing.async_populate_accessories_state": lambda p: p.async_populate_accessories_state(force_update=True),
    "pairing.get_characteristics": lambda p: p.get_characteristics([(1, 21)]),
    "pairing.put_characteristics": lambda p: p.put_characteristics([(1, 21, True)]),
    "pairing.subscribe": lambda p: p.subscribe([(1, 21)]),
}


async def _coap_cell(case):
    """one CoAP cell, a pure function of the case dict"""
    import random as _r
    from types import SimpleNamespace
    import aiohomekit.controller.coap.connection as coapc
    from aiohomekit.characteristic_cache import CharacteristicCacheMemory
    rng = _r.Random(case.get("seed", 0))
    rb = lambda n: bytes(rng.randrange(256) for _ in range(n))  # noqa: E731
    acc = _CoapAcc(case, rb)

    class FakeContext:
        @staticmethod
        async def create_client_context(*a, **k):
            return _CoapContext(acc)

        @staticmethod
        async def create_server_context(*a, **k):
            return _CoapContext(acc)
    op = case["op"]
    obs = {"keys": None}
    stub = mock.patch.object(P, "SrpClient", FakeSrp) if case.get("srp", "stub") == "stub" else mock.patch.object(P, "SrpClient", P.SrpClient)
    pd = dict(acc.ident.pairing_data(hosts=("fd00::1",), port=5683, connection="CoAP"))
    controller = SimpleNamespace(pairings={}, _char_cache=CharacteristicCacheMemory())
    with mock.patch.object(coapc, "Context", FakeContext), stub:
        if op.startswith("discovery."):
            from aiohomekit.controller.coap.discovery import CoAPDiscovery
            from aiohomekit.model.categories import Categories
            from aiohomekit.model.feature_flags import FeatureFlags
            from aiohomekit.model.status_flags import StatusFlags
            from aiohomekit.zeroconf import HomeKitService
            desc = HomeKitService(name="acc", id=acc.ident.acc_id.decode().lower(), model="m", feature_flags=FeatureFlags(case.get("ff", 0)), status_flags=StatusFlags(1),
                                  config_num=1, state_num=1, category=Categories(5), protocol_version="1.1", type="_hap._udp.local.", address="fd00::1",
                                  addresses=["fd00::1"], port=5683)
            disc = CoAPDiscovery(controller, desc)
            if op == "discovery.start_pairing":
                out = await _guard(disc.async_start_pairing("alias"))
            else:
                try:
                    finish = await asyncio.wait_for(disc.async_start_pairing("alias"), OP_TIMEOUT)
                except _Runaway:
                    raise
                except Exception as e:  # noqa: BLE001
                    obs.update(out="scaffold " + type(e).__name__, scripted=0, requests=acc.requests, runaway=acc.runaway, after=[])
                    return obs
                out = await _guard(finish(PIN))
            if "alias" in controller.pairings:
                obs["keys"] = "controller.pairings holds the new pairing"
        elif op.startswith("pairing."):
            from aiohomekit.controller.coap.pairing import CoAPPairing
            pairing = CoAPPairing(controller, pd)
            pairing.restore_accessories_state(_ble_db()["db"], 1, None, None)
            out = await _guard(COAP_PUBLIC[op](pairing))
            if pairing.is_connected:
                obs["keys"] = "CoAPPairing.is_connected is True"
        else:
            conn = coapc.CoAPHomeKitConnection(None, "fd00::1", 5683)
            if op == "do_pair_setup":
                out = await _guard(conn.do_pair_setup(bool(case.get("with_auth"))))
            elif op == "do_pair_setup_finish":
                try:
                    salt, srp_b = await asyncio.wait_for(conn.do_pair_setup(bool(case.get("with_auth"))), OP_TIMEOUT)
                except _Runaway:
                    raise
                except Exception as e:  # noqa: BLE001
                    obs.update(out="scaffold " + type(e).__name__, scripted=0, requests=acc.requests, runaway=acc.runaway, after=[])
                    return obs
                out = await _guard(conn.do_pair_setup_finish(PIN, salt, srp_b))
            elif op == "do_pair_verify":
                out = await _guard(conn.do_pair_verify(pd))
            else:
                out = await _guard(conn.connect(pd))
            if conn.is_connected:
                obs["keys"] = "CoAPHomeKitConnection.is_connected is True (an encryption context is installed)"
    own = ("setup",) if (case.get("step") or "").startswith("setup") else ("verify",)
    obs.update(out=out, scripted=len(acc.scripted_at), requests=acc.requests, runaway=acc.runaway, after=_after(acc, own), completed=list(acc.completed))
    return obs


def coap_transport_grid(ctx: Ctx, rng):
    from harness import simnet
    loop = simnet.VLoop()
    asyncio.set_event_loop(loop)
    cases = []

    def add(op, level, step, others, full, **kw):
        for cell in _cells(step, others, full):
            cases.append(dict({"stream": "coap", "op": op, "level": level, "step": step, "seed": rng.randrange(1 << 30)}, **cell, **kw))
    for wa in (False, True):
        add("do_pair_setup", "step", "setupM2", True, True, with_auth=wa)
    add("do_pair_setup_finish", "step", "setupM4", True, True)
    add("do_pair_setup_finish", "step", "setupM6", True, True)
    for ff in (0, 1):
        add("discovery.start_pairing", "step", "setupM2", True, False, ff=ff)
    add("discovery.finish_pairing", "step", "setupM4", True, False)
    add("discovery.finish_pairing", "step", "setupM6", True, False)
    for step, others in (("verifyM2", True), ("verifyM4", False)):
        add("do_pair_verify", "step", step, others, True)
        # connect() and the pairing's operations report any failure to connect as AccessoryDisconnectedError: a library error demanded
        add("connect", "op", step, others, False)
        for op in COAP_PUBLIC:
            add(op, "op", step, others, False)
    real = [dict(c, srp="real") for c in cases if c["step"].startswith("setup")]
    rng.shuffle(real)
    cases += real[:ctx.budget(3, 60)]
    for op in ("do_pair_setup", "do_pair_setup_finish", "do_pair_verify", "discovery.start_pairing", "discovery.finish_pairing"):
        cases.append({"stream": "coap", "op": op, "level": "step", "step": None, "seed": rng.randrange(1 << 30)})
    cases.append({"stream": "coap", "op": "do_pair_setup_finish", "level": "step", "step": None, "srp": "real", "seed": rng.randrange(1 << 30)})
    _run_cells(ctx, loop, cases, _coap_cell)
    asyncio.set_event_loop(None)
    loop.close()
    ctx.sample(cases[5])
    ctx.notes.append(f"CoAP transport: {len(cases)} cells (entry point x step x reply shape) through the real CoAPHomeKitConnection.do_pair_setup / do_pair_setup_finish / do_pair_verify / "
                     "connect, CoAPDiscovery and CoAPPairing with aiocoap's Context replaced by an independent accessory that repeats the scripted reply on every attempt")



# ---------------------------------------------------------------------------------------------------------------- IP
class _IpAcc(_Peer):
    """HAP over IP on harness/simnet: HTTP/1.1 requests on /pair-setup, /pair-verify, /pairings, /accessories, /characteristics;
    after a completed pair-verify the connection speaks the encrypted framing; a request that needs a session on a connection
    without one is answered 470.  The scripted reply travels with the HTTP status / Content-Type of the case."""

    def __init__(self, case, rb, net, loop):
        super().__init__(case, rb)
        self.loop, self.conns = loop, {}
        net.on_connect = self.on_connect
        net.handler = self.on_write

    def on_connect(self, t):
        self.conns[t] = {"buf": b"", "ebuf": b"", "keys": None, "r": 0, "w": 0}

    def on_write(self, t, data):
        from cryptography.exceptions import InvalidTag
        c = self.conns[t]
        if c["keys"]:
            c["ebuf"] += data
            while len(c["ebuf"]) >= 2:
                n = struct.unpack("<H", c["ebuf"][:2])[0]
                if len(c["ebuf"]) < 2 + n + 16:
                    break
                aad, blk, c["ebuf"] = c["ebuf"][:2], c["ebuf"][2:2 + n + 16], c["ebuf"][2 + n + 16:]
                try:
                    c["buf"] += ChaCha20Poly1305(c["keys"][0]).decrypt(struct.pack("<LQ", 0, c["r"]), blk, aad)
                except InvalidTag:
                    self.log.append(("secured", "not-encrypted-for-this-session"))
                    return t.peer_close()
                c["r"] += 1
        else:
            c["buf"] += data
        while True:
            i = c["buf"].find(b"\r\n\r\n")
            if i < 0:
                return
            head = c["buf"][:i].split(b"\r\n")
            cl = 0
            for h in head[1:]:
                if h.lower().startswith(b"content-length:"):
                    cl = int(h.split(b":")[1])
            if len(c["buf"]) < i + 4 + cl:
                return
            body, c["buf"] = c["buf"][i + 4:i + 4 + cl], c["buf"][i + 4 + cl:]
            method, target = head[0].split(b" ")[:2]
            self.loop.call_soon(self.handle, t, method.decode(), target.decode(), body)

    def send(self, t, body, ctype="application/pairing+tlv8", status=(200, "OK")):
        c = self.conns[t]
        wire = self.case.get("wire") or {}  # how the bytes travel: {'chunked': n} = chunked transfer coding with chunks of n bytes, {'split': n} = TCP segments of n bytes
        if status[0] == 204:
            data = b"HTTP/1.1 204 No Content\r\n\r\n"
        elif wire.get("chunked") and body:
            n = int(wire["chunked"])
            coded = b"".join(b"%x\r\n" % len(body[i:i + n]) + body[i:i + n] + b"\r\n" for i in range(0, len(body), n)) + b"0\r\n\r\n"
            data = (f"HTTP/1.1 {status[0]} {status[1]}\r\n" + (f"Content-Type: {ctype}\r\n" if ctype else "") + "Transfer-Encoding: chunked\r\n\r\n").encode() + coded
        else:
            data = (f"HTTP/1.1 {status[0]} {status[1]}\r\n" + (f"Content-Type: {ctype}\r\n" if ctype else "") + f"Content-Length: {len(body)}\r\n\r\n").encode() + body
        if c["keys"]:
            out = b""
            for i in range(0, len(data), 1024):
                blk = data[i:i + 1024]
                ln = struct.pack("<H", len(blk))
                out += ln + ChaCha20Poly1305(c["keys"][1]).encrypt(struct.pack("<LQ", 0, c["w"]), blk, ln)
                c["w"] += 1
            data = out
        if wire.get("split"):
            n = max(int(wire["split"]), -(-len(data) // 400))
            for i in range(0, len(data), n):
                t.feed(data[i:i + n])
            return
        t.feed(data)

    def handle(self, t, method, target, body):
        import json
        if t.closing or t.closed:
            return
        self.count()
        c = self.conns[t]
        if target in ("/pair-setup", "/pair-verify") or (target == "/pairings" and c["keys"]):
            before, done = len(self.scripted_at), len(self.completed)
            items = {"/pair-setup": self.on_setup, "/pair-verify": self.on_verify, "/pairings": self.on_pairings}[target](refacc.untlv(body))
            if len(self.scripted_at) > before and self.case.get("http"):
                st, ct = self.case["http"]
                self.send(t, refacc.tlv(items), ct, (st, "X"))
            else:
                self.send(t, refacc.tlv(items))
            if target == "/pair-verify" and "verify" in self.completed[done:]:
                c.update(keys=self.session[:2], r=0, w=0)
            return
        if not c["keys"]:
            self.log.append((target.split("?")[0], "outside-a-session"))
            return self.send(t, b"", None, (470, "Connection Authorization Required"))
        self.log.append((target.split("?")[0], method))
        if target.startswith("/accessories"):
            return self.send(t, json.dumps({"accessories": _ble_db()["db"]}).encode(), "application/hap+json")
        if target.startswith("/characteristics") and method == "GET":
            return self.send(t, json.dumps({"characteristics": [{"aid": 1, "iid": 21, "value": True}]}).encode(), "application/hap+json")
        self.send(t, b"", None, (204, "No Content"))


IP_PUBLIC = {
    "pairing.list_pairings": lambda p, k: p.list_pairings(),
    "pairing.add_pairing": lambda p, k: p.add_pairing("other-ctl", k, "User"),
    "pairing.add_pairing_admin": lambda p, k: p.add_pairing("other-ctl", k, "Admin"),
    "pairing.remove_pairing": lambda p, k: p.remove_pairing("other-ctl"),
    "pairing.remove_own_pairing": lambda p, k: p.remove_pairing(p.pairing_data["iOSPairingId"]),
    "pairing.list_accessories_and_characteristics": lambda p, k: p.list_accessories_and_characteristics(),
    "pairing.async_populate_accessories_state": lambda p, k: p.async_populate_accessories_state(force_update=True),
    "pairing.get_characteristics": lambda p, k: p.get_characteristics([(1, 21)]),
    "pairing.put_characteristics": lambda p, k: p.put_characteristics([(1, 21, True)]),
    "pairing.identify": lambda p, k: p.identify(),
}
IP_PAIRINGS_OPS = ("pairing.add_pairing", "pairing.add_pairing_admin", "pairing.remove_pairing", "pairing.remove_own_pairing")
IP_WIRES = [{"split": 1}, {"chunked": 1}, {"split": 7}, {"chunked": 5, "split": 3}, {"chunked": 64}, {"chunked": 2, "split": 1}]


async def _ip_cell(case):
    """one IP cell, a pure function of the case dict"""
    import random as _r
    from types import SimpleNamespace
    from harness import simnet
    from aiohomekit.characteristic_cache import CharacteristicCacheMemory
    from aiohomekit.controller.ip.connection import SecureHomeKitConnection
    rng = _r.Random(case.get("seed", 0))
    rb = lambda n: bytes(rng.randrange(256) for _ in range(n))  # noqa: E731
    loop = asyncio.get_running_loop()
    net = simnet.Net(loop)
    acc = _IpAcc(case, rb, net, loop)
    op = case["op"]
    obs = {"keys": None}
    stub = mock.patch.object(P, "SrpClient", FakeSrp) if case.get("srp", "stub") == "stub" else mock.patch.object(P, "SrpClient", P.SrpClient)
    pd = acc.ident.pairing_data()
    controller = SimpleNamespace(pairings={}, _char_cache=CharacteristicCacheMemory())
    closer = None
    with net.patched(), stub:
        try:
            if op.startswith("discovery."):
                from aiohomekit.controller.ip.discovery import IpDiscovery
                from aiohomekit.model.categories import Categories
                from aiohomekit.model.feature_flags import FeatureFlags
                from aiohomekit.model.status_flags import StatusFlags
                from aiohomekit.zeroconf import HomeKitService
                desc = HomeKitService(name="acc", id=acc.ident.acc_id.decode().lower(), model="m", feature_flags=FeatureFlags(case.get("ff", 0)), status_flags=StatusFlags(1),
                                      config_num=1, state_num=1, category=Categories(5), protocol_version="1.1", type="_hap._tcp.local.", address="10.0.0.1",
                                      addresses=["10.0.0.1"], port=80)
                disc = IpDiscovery(controller, desc)
                closer = disc.close
                if op == "discovery.start_pairing":
                    out = await _guard(disc.async_start_pairing("alias"))
                else:
                    try:
                        finish = await asyncio.wait_for(disc.async_start_pairing("alias"), OP_TIMEOUT)
                    except Exception as e:  # noqa: BLE001
                        obs.update(out="scaffold " + type(e).__name__, scripted=0, requests=acc.requests, runaway=acc.runaway, after=[])
                        return obs
                    out = await _guard(finish(PIN))
                if "alias" in controller.pairings:
                    obs["keys"] = "controller.pairings holds the new pairing"
                    closer = controller.pairings["alias"].close
            elif op == "connect_once":
                # the IP driver of pair-verify, as the connector task runs it
                conn = SecureHomeKitConnection(None, pd)
                closer = conn.close
                out = await _guard(conn._connect_once())
                if conn.is_connected or conn.is_secure:
                    obs["keys"] = "SecureHomeKitConnection.is_secure is True"
            else:
                from aiohomekit.controller.ip.pairing import IpPairing
                pairing = IpPairing(controller, pd)
                closer = pairing.close
                pairing.restore_accessories_state(_ble_db()["db"], 1, None, None)
                out = await _guard(IP_PUBLIC[op](pairing, acc.ident.ios_ltpk.hex()))
                if case.get("step") in ("verifyM2", "verifyM4") and pairing.is_connected:
                    obs["keys"] = "IpPairing.is_connected is True"
        finally:
            net.connect_outcomes = ["refused"] * 10000
            if closer is not None:
                try:
                    await closer()
                except Exception:  # noqa: BLE001
                    pass
    step = case.get("step") or ""
    own = ("setup",) if step.startswith("setup") else (("pairings", "verify") if step == "pairingsM2" else ("verify",))
    obs.update(out=out, scripted=len(acc.scripted_at), requests=acc.requests, runaway=acc.runaway, after=_after(acc, own), completed=list(acc.completed))
    return obs


def ip_transport_grid(ctx: Ctx, rng):
    from harness import simnet
    loop = simnet.VLoop()
    asyncio.set_event_loop(loop)
    cases = []
    https = [None, [400, "application/pairing+tlv8"], [429, None], [200, "application/hap+json"], [470, "Application/Pairing+TLV8; charset=utf-8"]]

    def add(op, level, step, others, full, **kw):
        for i, cell in enumerate(_cells(step, others, full)):
            cases.append(dict({"stream": "ip", "op": op, "level": level, "step": step, "seed": rng.randrange(1 << 30), "http": https[(i + len(cases)) % len(https)]}, **cell, **kw))
    for ff in (0, 1):
        add("discovery.start_pairing", "step", "setupM2", True, ff == 0, ff=ff)
    add("discovery.finish_pairing", "step", "setupM4", True, True)
    add("discovery.finish_pairing", "step", "setupM6", True, True)
    for step, others in (("verifyM2", True), ("verifyM4", False)):
        add("connect_once", "step", step, others, True)
        # the pairing's operations wait 10 s for the (endlessly retrying) connector and report AccessoryDisconnectedError
        for op in IP_PUBLIC:
            add(op, "op", step, others, "light")
    for op in IP_PAIRINGS_OPS:
        add(op, "add" if "add" in op else "op", "pairingsM2", False, True)
    real = [dict(c, srp="real") for c in cases if c["step"].startswith("setup")]
    rng.shuffle(real)
    cases += real[:ctx.budget(3, 60)]
    # the same replies as they may travel: chunked transfer coding, TCP segments down to one byte (every reply of the cell, the genuine ones too)
    cases += [dict(c, wire=IP_WIRES[i % len(IP_WIRES)], seed=rng.randrange(1 << 30)) for i, c in enumerate(cases[::ctx.budget(3, 1)])]
    for op in ["discovery.start_pairing", "discovery.finish_pairing", "connect_once"] + list(IP_PUBLIC):
        cases.append({"stream": "ip", "op": op, "level": "step", "step": None, "seed": rng.randrange(1 << 30)})
        cases.append({"stream": "ip", "op": op, "level": "step", "step": None, "seed": rng.randrange(1 << 30), "wire": IP_WIRES[len(cases) % len(IP_WIRES)]})
    _run_cells(ctx, loop, cases, _ip_cell)
    asyncio.set_event_loop(None)
    loop.close()
    ctx.sample(cases[7])
    ctx.notes.append(f"IP transport: {len(cases)} cells (entry point x step x reply shape x HTTP status / Content-Type of the error reply) through the real IpDiscovery, "
                     "SecureHomeKitConnection._connect_once, the connector task and IpPairing's operations over harness/simnet against an independent accessory that repeats the scripted reply on every attempt")


# =====================================================================================================================
# top level (stream top): the application's entry points - aiohomekit.Controller entered with `async with` (which registers
# the IP, CoAP and BLE backends), load_pairing / load_data, then Controller.remove_pairing(alias) and the operations of the
# pairing object the controller hands out (controller.aliases[alias]: add / remove / list pairings) - against the scripted
# accessory of the transport, which answers ONE step (pair-verify M2 / M4, add / remove pairing M2) with the scripted error /
# foreign step number on every attempt and THEN stays up, closes the link or drops it at the very instant the reply has been
# handed over.  Only zeroconf (browser / cache), the BLE scanner + GATT link, aiocoap's Context and TCP are replaced; time is
# virtual.  Oracle: an operation whose scripted reply was handed to the library never returns normally.
# =====================================================================================================================
ALIAS = "alias"
TOP_THEN = {"ip": ("stay", "close", "drop"), "ble": ("stay", "close", "drop", "drop-quiet"), "coap": ("stay",)}
TOP_OPS = {
    "controller.remove_pairing": lambda c, p, k: c.remove_pairing(ALIAS),
    "pairing.remove_own_pairing": lambda c, p, k: p.remove_pairing(p.pairing_data["iOSPairingId"]),
    "pairing.remove_pairing": lambda c, p, k: p.remove_pairing("other-ctl"),
    "pairing.add_pairing": lambda c, p, k: p.add_pairing("other-ctl", k, "User"),
    "pairing.add_pairing_admin": lambda c, p, k: p.add_pairing("other-ctl", k, "Admin"),
    "pairing.list_pairings": lambda c, p, k: p.list_pairings(),
}
TOP_COAP_OPS = ("controller.remove_pairing", "pairing.remove_own_pairing", "pairing.remove_pairing", "pairing.list_pairings")
# the command line application (aiohomekit.__main__, `aiohomekitctl unpair / remove_pairing`): its command functions build the Controller
# themselves from a pairing file and a characteristic cache file; True = done, False / SystemExit / an exception = failed
TOP_CLI_OPS = {"cli.unpair": ("unpair", None), "cli.remove_pairing": ("remove_pairing", "other-ctl"), "cli.remove_own_pairing": ("remove_pairing", "own"), "cli.pair": ("pair", None)}
# pairing a NEW accessory from the top: Controller.async_find -> discovery.async_start_pairing -> finish_pairing (BLE: the accessory is found through the scanner)
TOP_PAIR_OPS = ("controller.pair", "cli.pair")


async def _top_pair(controller, device_id):
    discovery = await controller.async_find(device_id)
    finish = await discovery.async_start_pairing(ALIAS)
    return await finish(PIN)


def _top_browser_cls():
    from zeroconf import SignalRegistrationInterface

    class BrowserStub:
        types = ["_hap._tcp.local.", "_hap._udp.local."]

        def __init__(self, *a, **kw):
            self._handlers = []
            self.service_state_changed = SignalRegistrationInterface(self._handlers)
            if a and hasattr(a[0], "listeners"):
                a[0].listeners.append(self)  # as zeroconf registers a browser with the instance it browses on

        async def async_cancel(self):
            return None
    return BrowserStub


class _TopZc:
    """stands in for zeroconf.Zeroconf: an empty record cache and the list of registered browsers - the network is silent"""

    def __init__(self):
        from zeroconf import DNSCache
        self.cache = DNSCache()
        self.listeners = []

    async def async_wait_for_start(self):
        return None


def _top_azc_cls():
    """stands in for zeroconf.asyncio.AsyncZeroconf where the application creates it itself (aiohomekit.__main__)"""
    class FakeAsyncZeroconf:
        def __init__(self, *a, **kw):
            self.zeroconf = _TopZc()

        async def async_register_service(self, *a, **kw):
            return None

        async def async_close(self):
            return None

        async def __aenter__(self):
            return self

        async def __aexit__(self, *a):
            return None
    return FakeAsyncZeroconf


def _top_zeroconf(browser_cls):
    """the AsyncZeroconf instance an application hands to Controller(async_zeroconf_instance=...), with one browser for both HAP service types"""
    azc = _top_azc_cls()()
    browser_cls(azc.zeroconf)
    return azc


class _TopScanner:
    """the BLE scanner: starts, stops, and reports what the harness tells it to (`auto`: an advertisement it sees by itself
    0.2 s after it was started)"""
    current = None
    auto = None

    def __init__(self, detection_callback=None, **kw):
        self.detection_callback = detection_callback
        self.discovered_devices_and_advertisement_data = {}
        type(self).current = self

    async def start(self):
        if type(self).auto is not None:
            asyncio.get_running_loop().call_later(0.2, self.detection_callback, *type(self).auto)
        return None

    async def stop(self):
        return None


def _top_advertisement(acc_id, gsn=1, cn=1, sf=0):
    """the accessory's regular HAP-BLE advertisement as the scanner reports it (sf = 1: not paired yet)"""
    from types import SimpleNamespace
    data = bytes([0x06, 0x31, sf]) + bytes.fromhex(acc_id.replace(":", "")) + struct.pack("<HHBB", 5, gsn, cn, 2) + b"\x01\x02\x03\x04"
    return SimpleNamespace(address=_Radio.address, name="acc", details={}), SimpleNamespace(manufacturer_data={76: data}, rssi=-50, local_name="acc", service_uuids=[], service_data={})


class _BleTopAcc(_BleAcc):
    """_BleAcc that notes when the last PDU of a scripted reply has been read"""

    def __init__(self, case, rb, names):
        super().__init__(case, rb, names)
        self.marked = {}
        self.handed = 0  # scripted replies completely read by the library
        self.just_handed = False

    def gatt_write(self, h, data):
        n = len(self.scripted_at)
        super().gatt_write(h, data)
        if len(self.scripted_at) > n:
            self.marked[h.iid] = True

    def gatt_read(self, h):
        data = super().gatt_read(h)
        if self.marked.get(h.iid) and not self.pending.get(h.iid):
            del self.marked[h.iid]
            self.handed += 1
            self.just_handed = True
        return data

    def drop_link(self):
        super().drop_link()
        self.partial.clear()
        self.pending.clear()
        self.vq.clear()
        self.marked.clear()


class _TopRadio(_Radio):
    """a GATT link that the accessory may close (the stack reports it a moment later) or that drops at the instant a reply
    has been read (is_connected is False when the read returns; the stack's callback follows, or - drop-quiet - never comes)"""

    def __init__(self, acc, mtu, then, on_disconnect):
        super().__init__(acc, mtu)
        self.then, self.on_disconnect = then, on_disconnect

    def _check(self):
        from bleak.exc import BleakError
        if not self.is_connected:
            raise BleakError("Not connected")

    def _down(self, report):
        if not self.is_connected:
            return
        self.is_connected = False
        self.acc.drop_link()
        if report and self.on_disconnect is not None:
            self.on_disconnect(self)

    async def write_gatt_char(self, handle, data, response=None):
        self._check()
        self.acc.gatt_write(handle, bytes(data))

    async def read_gatt_char(self, handle):
        self._check()
        self.acc.just_handed = False
        data = self.acc.gatt_read(handle)
        if self.acc.just_handed and self.then != "stay":
            loop = asyncio.get_running_loop()
            if self.then == "close":
                loop.call_soon(self._down, True)
            else:
                self.is_connected = False
                self.acc.drop_link()
                if self.then == "drop" and self.on_disconnect is not None:
                    loop.call_soon(self.on_disconnect, self)
        return data

    async def disconnect(self):
        self._down(False)


class _IpTopAcc(_IpAcc):
    """_IpAcc that closes (FIN) or resets the TCP connection right behind a scripted reply"""

    def __init__(self, case, rb, net, loop):
        super().__init__(case, rb, net, loop)
        self.handed = 0
        self.sending_scripted = False

    def handle(self, t, method, target, body):
        before = len(self.scripted_at)
        self.fed = False
        super().handle(t, method, target, body)
        if len(self.scripted_at) > before and self.fed:
            self.handed += 1
            then = self.case.get("then", "stay")
            if then == "close":
                t.peer_close()
            elif then == "drop":
                t.peer_reset()

    def send(self, t, body, ctype="application/pairing+tlv8", status=(200, "OK")):
        self.fed = not (t.closed or t.closing)
        super().send(t, body, ctype, status)


class _CoapTopAcc(_CoapAcc):
    def __init__(self, case, rb):
        super().__init__(case, rb)
        self.handed = 0

    def respond(self, msg):
        n = len(self.scripted_at)
        r = super().respond(msg)
        self.handed += len(self.scripted_at) - n
        return r


async def _top_cli(st, case, acc, pd, browser, db):
    """one command of the command line application, run on a pairing file and a characteristic cache file in a scratch directory
    -> (outcome, does the pairing file still list the alias, what the command printed)"""
    import contextlib
    import io
    import json
    import os
    import shutil
    import tempfile
    from argparse import Namespace
    import aiohomekit.__main__ as cli
    fn_name, ident = TOP_CLI_OPS[case["op"]]
    d = tempfile.mkdtemp(prefix="c04cli")
    try:
        fn = os.path.join(d, "pairing.json")
        with open(fn, "w") as f:
            json.dump({} if fn_name == "pair" else {ALIAS: pd}, f)
        with open(os.path.join(d, "charmap.json"), "w") as f:
            json.dump({"pairings": {pd["AccessoryPairingID"]: {"config_num": 1, "accessories": db["db"], "broadcast_key": None, "state_num": 1}}}, f)
        st.enter_context(mock.patch.object(cli, "AsyncZeroconf", _top_azc_cls()))
        st.enter_context(mock.patch.object(cli, "AsyncServiceBrowser", browser))
        _TopScanner.auto = _top_advertisement(acc.ident.acc_id.decode(), sf=1 if fn_name == "pair" else 0) if case["transport"] == "ble" else None
        args = Namespace(file=fn, alias=ALIAS, controllerPairingId=pd["iOSPairingId"] if ident == "own" else ident, device=acc.ident.acc_id.decode(), pin=PIN)
        buf = io.StringIO()
        try:
            with contextlib.redirect_stdout(buf):
                try:
                    out = await _guard(getattr(cli, fn_name)(args))
                except SystemExit as e:
                    out = "ok exit-0" if e.code in (0, None) else f"err cli-exit({e.code})"
        finally:
            _TopScanner.auto = None
        if out == "ok False":
            out = "err cli-returned-False"  # the command's way of reporting a failure (exit status 1)
        try:
            with open(fn) as f:
                listed = ALIAS in json.load(f)
        except Exception:  # noqa: BLE001
            listed = False
        return out, listed, buf.getvalue().strip()[:200]
    finally:
        shutil.rmtree(d, ignore_errors=True)


async def _top_cell(case):
    """one top-level cell, a pure function of the case dict"""
    import contextlib
    import json
    import os
    import random as _r
    import tempfile
    import aiohomekit.controller.coap.connection as coapc
    from harness import simnet
    from aiohomekit import Controller
    from aiohomekit.characteristic_cache import CharacteristicCacheMemory
    rng = _r.Random(case.get("seed", 0))
    rb = lambda n: bytes(rng.randrange(256) for _ in range(n))  # noqa: E731
    loop = asyncio.get_running_loop()
    tr, op, then = case["transport"], case["op"], case.get("then", "stay")
    db = _ble_db()
    net = simnet.Net(loop)
    radios = []
    if tr == "ip":
        acc = _IpTopAcc(case, rb, net, loop)
        pd = acc.ident.pairing_data()
    elif tr == "coap":
        acc = _CoapTopAcc(case, rb)
        pd = dict(acc.ident.pairing_data(hosts=("fd00::1",), port=5683, connection="CoAP"))
    else:
        acc = _BleTopAcc(case, rb, db["names"])
        pd = dict(acc.ident.pairing_data(connection="BLE"), AccessoryAddress=_Radio.address)
        for k in ("AccessoryIP", "AccessoryIPs", "AccessoryPort"):
            pd.pop(k, None)
    acc_id = acc.ident.acc_id.decode()

    async def establish(device, name, disconnected_callback, **kw):
        await asyncio.sleep(0.3)
        radios.append(_TopRadio(acc, case.get("mtu", 512), then, disconnected_callback))
        return radios[-1]

    class FakeContext:
        @staticmethod
        async def create_client_context(*a, **k):
            return _CoapContext(acc)

        @staticmethod
        async def create_server_context(*a, **k):
            return _CoapContext(acc)
    browser = _top_browser_cls()
    cache = CharacteristicCacheMemory()
    # what an earlier life of the application left in the characteristic cache
    cache.async_create_or_update_map(pd["AccessoryPairingID"], 1, db["db"], None, 1)
    obs = {"keys": None}
    out, alias_after, pairing = "scaffold", None, None
    with contextlib.ExitStack() as st:
        st.enter_context(mock.patch("aiohomekit.zeroconf.AsyncServiceBrowser", browser))
        # an installation with Bluetooth enabled (aiohomekit.const decides this once, at import, from the environment: bleak already imported / AIOHOMEKIT_TRANSPORT_BLE set)
        st.enter_context(mock.patch("aiohomekit.controller.controller.BLE_TRANSPORT_SUPPORTED", True))
        st.enter_context(mock.patch("aiohomekit.controller.ble.controller.BleakScanner", _TopScanner))
        st.enter_context(mock.patch("aiohomekit.controller.ble.pairing.establish_connection", establish))
        st.enter_context(mock.patch("aiohomekit.controller.ble.discovery.establish_connection", establish))
        st.enter_context(mock.patch.object(coapc, "Context", FakeContext))
        st.enter_context(net.patched())
        st.enter_context(mock.patch.object(P, "SrpClient", FakeSrp))
        if op in TOP_CLI_OPS:
            out, alias_after, printed = await _top_cli(st, case, acc, pd, browser, db)
            own = ("setup", "features") if op in TOP_PAIR_OPS else (("pairings", "verify") if case.get("step") == "pairingsM2" else ("verify",))
            obs.update(out=out, scripted=acc.handed, reached=len(acc.scripted_at), requests=acc.requests, runaway=acc.runaway, completed=list(acc.completed), alias_after=None, file_alias=alias_after,
                       printed=printed, after=_after(acc, own))
            return obs
        controller = Controller(async_zeroconf_instance=_top_zeroconf(browser), char_cache=cache)
        try:
            async with controller:
                if op == "controller.pair":
                    _TopScanner.current.detection_callback(*_top_advertisement(acc_id, sf=1))
                    out = await _guard(_top_pair(controller, acc_id))
                    if ALIAS in controller.aliases or any(ALIAS in t.pairings or ALIAS in t.aliases for t in controller.transports.values()):
                        obs["keys"] = "the controller holds a pairing for the alias"
                    for t in controller.transports.values():
                        for p_ in list(t.pairings.values()):
                            try:
                                await p_.shutdown()
                            except Exception:  # noqa: BLE001
                                pass
                    obs.update(out=out, scripted=acc.handed, reached=len(acc.scripted_at), requests=acc.requests, runaway=acc.runaway, after=_after(acc, ("setup", "features")),
                               completed=list(acc.completed), alias_after=None)
                    return obs
                how = case.get("load", "load_pairing")
                if tr == "ble" and how != "load-before-adv":
                    _TopScanner.current.detection_callback(*_top_advertisement(acc_id))
                if how == "load_data":
                    fd, fn = tempfile.mkstemp(suffix=".json")
                    try:
                        with os.fdopen(fd, "w") as f:
                            json.dump({ALIAS: pd}, f)
                        controller.load_data(fn)
                    finally:
                        os.unlink(fn)
                else:
                    controller.load_pairing(ALIAS, dict(pd))
                if tr == "ble" and how == "load-before-adv":
                    _TopScanner.current.detection_callback(*_top_advertisement(acc_id))
                pairing = controller.aliases.get(ALIAS)
                if pairing is None:
                    out = "scaffold no-pairing"
                else:
                    out = await _guard(TOP_OPS[op](controller, pairing, acc.ident.ios_ltpk.hex()))
                    alias_after = ALIAS in controller.aliases
                    if case.get("step") in ("verifyM2", "verifyM4") and pairing.is_connected:
                        obs["keys"] = f"{type(pairing).__name__}.is_connected is True"
                net.connect_outcomes = ["refused"] * 10000
                if pairing is not None:
                    try:
                        await pairing.shutdown()
                    except Exception:  # noqa: BLE001
                        pass
        except _Runaway:
            raise
        except Exception as e:  # noqa: BLE001
            if out == "scaffold":
                out = "scaffold " + type(e).__name__
    step = case.get("step") or ""
    own = ("pairings", "verify") if step == "pairingsM2" else ("verify",)
    obs.update(out=out, scripted=acc.handed, reached=len(acc.scripted_at), requests=acc.requests, runaway=acc.runaway, after=_after(acc, own), completed=list(acc.completed),
               alias_after=alias_after)
    return obs


NOT_A_LIBRARY_ERROR = ("AttributeError", "TypeError", "KeyError", "IndexError", "NameError", "UnboundLocalError", "AssertionError")


def _judge_top(case, obs):
    """the property's verdict on one top-level cell: as _judge for an operation (a library error, never a normal return, no
    session, nothing sent as if verified) - when the accessory itself takes the link away behind its reply only the core is
    demanded: the call does not return normally (the class of the failure is recorded, not judged)"""
    exact = case["transport"] == "ip" and "add" in case["op"] and case.get("step") == "pairingsM2" and case.get("then", "stay") == "stay"
    level = "step" if (case["op"] == "controller.pair" and case.get("then", "stay") == "stay") else ("add" if exact else "op")
    bad = _judge(dict(case, stream=f"top {case['transport']}", level=level), obs)
    if case["op"] == "cli.pair" and case.get("step") and obs.get("scripted") and obs.get("file_alias"):
        bad.append(("pairing-file-claims", f"top {case['transport']} cli.pair: accessory answers {case.get('step')} with state={case.get('state')} code={case.get('code')}: afterwards the pairing file lists the alias "
                    f"(outcome {obs['out']}, printed {obs.get('printed')!r})"))
    if case.get("then", "stay") != "stay":
        bad = [(sig, text) for sig, text in bad if sig.startswith(("completed", "no-failure", "keys-installed", "carried-on"))]
        # ... and the failure is "a library error" (the property's words): whatever the accessory does behind its reply, an
        # exception class that only a programming error produces is not one.  (Found on the unchanged tree: post_tlv called
        # close() on a transport the accessory had already taken away and raised AttributeError - repaired in /repo.)
        out = obs.get("out", "")
        if obs.get("scripted") and out.startswith("exc ") and out[4:].split(":")[0].split(" ")[0] in NOT_A_LIBRARY_ERROR:
            bad.append(("non-library-error", f"top {case['transport']} {case['op']}: accessory answers {case.get('step')} with state={case.get('state')} code={case.get('code')} "
                        f"(http {case.get('http')}) and takes the link away: the call failed with {out[4:]} - not a library error"))
    if case["op"] == "cli.unpair" and obs.get("scripted") and obs.get("file_alias") is False and not obs["out"].startswith("scaffold"):
        bad.append(("pairing-file-forgot", f"top {case['transport']} cli.unpair: accessory answers {case.get('step')} with state={case.get('state')} code={case.get('code')} ({obs['scripted']} such repl(ies) handed to the "
                    f"library): afterwards the pairing file no longer lists the alias (outcome {obs['out']}, printed {obs.get('printed')!r}) - the application's records claim the accessory was unpaired"))
    then = {"stay": "keeps the link up", "close": "closes the link behind the reply", "drop": "drops the link at the instant the reply has been handed over",
            "drop-quiet": "drops the link at the instant the reply has been handed over (the stack never reports it)"}[case.get("then", "stay")]
    return [(sig, f"{text} [top level: aiohomekit.Controller with its backends, pairing loaded through {case.get('load', 'load_pairing')}; the accessory {then}]") for sig, text in bad]


def top_grid(ctx: Ctx, rng):
    from harness import simnet
    loop = simnet.VLoop()
    asyncio.set_event_loop(loop)
    cases = []
    https = [None, [400, "application/pairing+tlv8"], [470, None], [200, "application/hap+json"]]
    loads = {"ip": ("load_pairing", "load_data"), "coap": ("load_pairing", "load_data"), "ble": ("load_pairing", "load_data", "load-before-adv")}
    for tr in ("ip", "ble", "coap"):
        ops = (TOP_COAP_OPS if tr == "coap" else tuple(TOP_OPS)) + tuple(o for o in TOP_CLI_OPS if o not in TOP_PAIR_OPS)
        steps = ("verifyM2", "verifyM4") if tr == "coap" else ("verifyM2", "verifyM4", "pairingsM2")
        for op in ops:
            for step in steps:
                if step == "pairingsM2" and "list" in op:
                    continue  # the property speaks of add- and remove-pairing requests (a list-pairings reply is not its business)
                shapes = _cells(step, False, "light")
                for then in TOP_THEN[tr]:
                    full = ctx.budget(False, True) or op == "controller.remove_pairing" or (step == "pairingsM2" and "list" not in op and not op.startswith("cli."))
                    for i, shape in enumerate(shapes if full else shapes[len(cases) % 3::3]):
                        c = dict({"stream": "top", "transport": tr, "op": op, "level": "op", "step": step, "then": then, "load": "load_data" if op in TOP_CLI_OPS else loads[tr][len(cases) % len(loads[tr])],
                                  "seed": rng.randrange(1 << 30)}, **shape)
                        if tr == "ip":
                            c["http"] = https[len(cases) % len(https)]
                            if len(cases) % 3 == 2:
                                c["wire"] = IP_WIRES[(len(cases) // 3) % len(IP_WIRES)]
                        if tr == "ble":
                            c.update(pdu_split=(0, 0, 5)[len(cases) % 3])
                        cases.append(c)
        if tr == "ble":
            for op in TOP_PAIR_OPS:
                for step in ("setupM2", "setupM4", "setupM6"):
                    for then in ("stay", "drop", "close"):
                        shapes = _cells(step, False, "light")
                        for shape in (shapes if (ctx.budget(False, True) or (op == "controller.pair" and then == "stay")) else shapes[len(cases) % 3::3]):
                            cases.append(dict({"stream": "top", "transport": tr, "op": op, "level": "op", "step": step, "then": then, "load": "found-by-scanner", "seed": rng.randrange(1 << 30),
                                               "pdu_split": (0, 0, 5)[len(cases) % 3]}, **shape))
            ops = ops + TOP_PAIR_OPS
        # the genuine control exchanges (the operations must be able to succeed through the same scaffold)
        for op in ops:
            for load in (("found-by-scanner",) if op in TOP_PAIR_OPS else ("load_data",) if op in TOP_CLI_OPS else loads[tr]):
                cases.append({"stream": "top", "transport": tr, "op": op, "level": "op", "step": None, "then": "stay", "load": load, "seed": rng.randrange(1 << 30)})
    import collections
    dropped, unjudged, scaffold = {}, {}, collections.Counter()
    for case in cases:
        try:
            obs = loop.run_until_complete(_top_cell(case))
        except _Runaway:
            obs = {"out": "runaway", "scripted": 1, "requests": REQUEST_LIMIT, "runaway": True, "after": [], "keys": None}
        except Exception as e:  # noqa: BLE001 - the scaffold around the operation (controller start-up, loading the pairing) failed: nothing was asked of the accessory
            obs = {"out": "scaffold " + type(e).__name__, "scripted": 0, "requests": 0, "runaway": False, "after": [], "keys": None}
            scaffold[f"{case['transport']} {case['op']} ({case.get('load')}): {type(e).__name__}: {str(e)[:120]}"] += 1
        pend = [t for t in asyncio.all_tasks(loop) if not t.done()]
        for t in pend:
            t.cancel()
        if pend:
            loop.run_until_complete(asyncio.gather(*pend, return_exceptions=True))
        ctx.evaluations += 1
        ctx.nontrivial.add(("top", case["transport"], case["op"], case.get("step"), case.get("state"), case.get("code"), case.get("then"), case.get("load"), str(case.get("http")), case.get("pdu_split"), str(case.get("wire"))))
        ctx.dist[f"top:{case['transport']}:{case['op']}:{case.get('step') or 'genuine'}:{case.get('then')}:{'handed' if obs.get('scripted') else 'not-handed'}:{obs['out']}"] += 1
        if case.get("step") is None and not obs["out"].startswith("ok") and not (case["transport"] == "coap"):
            ctx.notes.append(f"top {case['transport']} {case['op']} ({case['load']}): the genuine control exchange ended with {obs['out']} (the property makes no claim)")
        if case.get("step") and obs.get("scripted") and case["op"] == "controller.remove_pairing" and obs.get("alias_after") is False and not obs["out"].startswith("ok"):
            dropped.setdefault(case["transport"], (case, obs["out"]))
        if case.get("step") and obs.get("scripted") and obs["out"].startswith("exc") and case.get("then") != "stay":
            k = f"{case['transport']} {obs['out'][4:]} when the accessory answers {case['step']} and then does `{case['then']}`"
            unjudged.setdefault(k, [0, case])[0] += 1
        for sig, text in _judge_top(case, obs):
            ctx.violation(f"top/{case['transport']}/{case['op']}/{case.get('step')}/{case.get('then')}/{sig}", text, case)
    asyncio.set_event_loop(None)
    loop.close()
    for k, n in sorted(scaffold.items()):
        ctx.notes.append(f"top level: the scaffold around the operation failed before anything was asked of the accessory ({n} cell(s), not judged): {k}")
    for k, (n, case) in sorted(unjudged.items()):
        ctx.notes.append(f"top level, not judged (the accessory took the link away behind its reply: only 'never returns normally' is demanded, the class of the failure is recorded): {k} - {n} cell(s), "
                         f"e.g. {case['op']} state={case['state']} code={case['code']} http={case.get('http')} load={case.get('load')}")
    for tr, (case, out) in sorted(dropped.items()):
        ctx.notes.append(f"top level, recorded only: after Controller.remove_pairing FAILED ({out}; {tr}, accessory answered {case['step']} with state={case['state']} code={case['code']}) the alias is gone from "
                         "Controller.aliases all the same - the unchanged library forgets the alias before it asks the accessory and does not put it back")
    ctx.sample(cases[0])
    ctx.notes.append(f"top level: {len(cases)} cells (transport x Controller.remove_pairing / operations of controller.aliases[alias] / Controller.async_find + pairing / the command line application's unpair, "
                     "remove_pairing and pair commands x scripted step x reply shape x what the accessory does with the link behind its reply x load_pairing / load_data / advertisement order) through "
                     "aiohomekit.Controller with its three backends")


# =====================================================================================================================
# concurrent lifecycle (streams ble-conc / ip-conc / coap-conc): the same scripted accessory, but SLOW - it takes
# `reply_delay` virtual seconds to answer a request - and, while the operation is waiting for the reply of the scripted
# step (or of its first request), ANOTHER task of the application acts on the same pairing: shutdown(), close(),
# close_after_operation(), a second operation, a new advertisement / zeroconf record (the reconnect trigger), the caller's
# own cancellation, or the link drops.  Tearing the link down takes `teardown` seconds (a radio does not disconnect at
# once), so the accessory's reply may still be read after the lifecycle action has begun.
# Oracle (the property's own words): an operation whose scripted reply (error code / foreign step number) was HANDED TO
# THE LIBRARY by the transport never returns normally - whatever else was going on.  Which caller a delivered reply
# belongs to is decided by the harness's own bookkeeping (the identifier inside the add/remove request, or the order of
# events seen by the accessory), never by the library's state.  A reply that was never delivered (the action won the
# race) is not judged.
# =====================================================================================================================
LIVE_TEARDOWN = ("shutdown", "close", "close_after_operation", "link_drop", "link_reset", "cancel")
_STEP_REQ = {"setupM2": ("setup", b"\x01"), "setupM4": ("setup", b"\x03"), "setupM6": ("setup", b"\x05"), "verifyM2": ("verify", b"\x01"),
             "verifyM4": ("verify", b"\x03"), "pairingsM2": ("pairings", None)}
SECOND_ID = "second-ctl"


class _Live:
    """bookkeeping of one concurrent cell, shared by the scripted accessory and the harness"""

    def __init__(self, case, loop):
        self.conc = case["conc"]
        self.loop = loop
        self.reply_delay = float(self.conc.get("reply_delay", 0.0))
        self.teardown = float(self.conc.get("teardown", 0.0))
        self.fired = False  # the trigger request has been seen
        self.acted = False  # the lifecycle action has been started
        self.late = False  # ... after the operation had ended already
        self.a_done = False
        self.b_started = False
        self.delivered = {"A": 0, "B": 0, "?": 0}
        self.start_action = None
        self.handles = []
        self.side = None
        self.transport = None

    def later(self, delay, fn, *args):
        h = self.loop.call_later(delay, fn, *args)
        self.handles.append(h)
        return h

    def request_complete(self, scripted):
        """the accessory has received a complete request"""
        if self.fired or self.start_action is None:
            return
        if scripted or self.conc.get("at") == "first":
            self.fired = True
            self.later(float(self.conc.get("action_delay", 0.0)), self._act)

    def _act(self):
        self.acted = True
        self.start_action()

    def owner(self, ident=None):
        """the caller a request seen by the accessory belongs to: by the identifier it names, else by the order of events"""
        if ident is not None:
            return "B" if bytes(ident) == SECOND_ID.encode() else "A"
        if not self.b_started:
            return "A"
        if self.a_done:
            return "B"
        return "?"

    def cancel_timers(self):
        for h in self.handles:
            h.cancel()


def _task_outcome(t):
    if t is None:
        return None
    if not t.done():
        return "timeout"
    if t.cancelled():
        return "cancelled"
    e = t.exception()
    if e is None:
        r = t.result()
        return "ok " + (repr(r) if isinstance(r, (bool, type(None))) else type(r).__name__ + (f"[{len(r)}]" if isinstance(r, (list, dict)) else ""))
    if isinstance(e, E.HomeKitException):
        return "err " + type(e).__name__
    if isinstance(e, _Runaway):
        return "runaway"
    return "exc " + type(e).__name__


async def _settle(live, inner):
    """wait (virtual time) for the operation, then for whatever the lifecycle action started"""
    await asyncio.wait({inner}, timeout=OP_TIMEOUT)
    live.a_done = live.a_done or inner.done()
    hung = not inner.done()
    if hung:
        inner.cancel()
    if live.side is not None:
        await asyncio.wait({live.side}, timeout=OP_TIMEOUT)
        if not live.side.done():
            live.side.cancel()
    out = "timeout" if hung else _task_outcome(inner)
    return out, (_task_outcome(live.side) if live.side is not None else None)


def _judge_live(case, obs):
    step = case.get("step")
    if step is None:
        return []
    state, code = _opt(case["state"]), _opt(case["code"])
    want = expected_outcome(STEP_STATE[step], state, code, kind="pairing")
    if want is None:
        return []
    conc = case["conc"]
    reply = "[" + ", ".join(([f"State={case['state']}"] if state is not None else []) + ([f"Error={case['code']}"] if code is not None else [])) + (", + the step's genuine fields" if case.get("fields") else "") + "]"
    what = "a foreign step number" if (state is not None and state != STEP_STATE[step]) else "an error code"
    kind = "wrong-state" if what.startswith("a foreign") else "error-code"
    sched = (f"the accessory takes {conc.get('reply_delay', 0)} s to answer; {conc.get('action_delay', 0)} s after the {'first request' if conc.get('at') == 'first' else step + ' request'} arrived "
             f"another task does `{conc['action']}` (tearing the link down takes {conc.get('teardown', 0)} s)")
    bad = []
    for who, out in (("A", obs["out"]), ("B", obs.get("out_b"))):
        n = obs["delivered"].get(who, 0)
        if out is None or not n:
            continue  # nothing the accessory said reached this caller: the property makes no claim
        if who == "B" and step == "pairingsM2" and conc["action"][7:] not in ("add_pairing", "remove_pairing"):
            continue  # the property speaks of add- and remove-pairing requests only (a list-pairings reply is not its business)
        name = case["op"] if who == "A" else conc["action"][7:] + " (the second operation)"
        where = f"{case['stream']} {name}: accessory answers {step} with {reply}; {sched}; {n} such repl{'y was' if n == 1 else 'ies were'} handed to the library for this call"
        if out in ("timeout", "runaway") or obs.get("runaway"):
            bad.append(("no-failure", f"{where}: the call neither failed nor ended ({out}, {obs['requests']} requests)"))
        elif out.startswith("ok"):
            bad.append(("completed/" + kind, f"{where}: the call returned normally ({out[3:][:60]}) - reported as done although the accessory's answer was {what}; it must fail with a library error"))
        elif out.startswith("exc") and conc["action"] not in LIVE_TEARDOWN:
            # (when the application itself tears the link down underneath the call, the CLASS of the failure is not judged - see ASSUMPTIONS)
            bad.append((out.split()[1], f"{where}: raised non-library {out.split()[1]}; it must fail with a library error"))
    if obs.get("keys"):
        bad.append(("keys-installed", f"{case['stream']} {case['op']}: accessory answers {step} with {reply}; {sched}: session keys / pairing are in place afterwards ({obs['keys']}), outcome {obs['out']}"))
    if obs.get("after"):
        bad.append(("carried-on", f"{case['stream']} {case['op']}: accessory answers {step} with {reply}; {sched}: afterwards the controller went on to send {obs['after'][:4]} as if the procedure had succeeded (outcome {obs['out']})"))
    return bad


# ----------------------------------------------------------------------------------------------------- BLE, concurrent
class _BleLiveAcc(_BleAcc):
    def __init__(self, case, rb, names, live):
        super().__init__(case, rb, names)
        self.live = live
        self.fresh = {}  # iid -> the response has not been read yet (the accessory is still thinking)
        self.owner_of = {}  # iid -> caller of the scripted reply that is pending there
        self.last_ident = None

    def on_pairings(self, req):
        self.last_ident = req.get(1)
        return super().on_pairings(req)

    def gatt_write(self, h, data):
        n_log, n_scr = len(self.log), len(self.scripted_at)
        self.last_ident = None
        super().gatt_write(h, data)
        if len(self.log) > n_log:
            self.fresh[h.iid] = True
            scripted = len(self.scripted_at) > n_scr
            if scripted:
                self.owner_of[h.iid] = self.live.owner(self.last_ident if h.name == "pairings" else None)
            self.live.request_complete(scripted)

    def gatt_read(self, h):
        data = super().gatt_read(h)
        if h.iid in self.owner_of and not self.pending.get(h.iid):
            # the last PDU of the scripted reply is handed to the library
            self.live.delivered[self.owner_of.pop(h.iid)] += 1
        return data

    def drop_link(self):
        super().drop_link()
        self.partial.clear()
        self.pending.clear()
        self.vq.clear()
        self.fresh.clear()
        self.owner_of.clear()


class _LiveRadio(_Radio):
    """a radio with latency: the accessory's answer becomes readable `reply_delay` after the request, disconnecting takes
    `teardown`; reads / writes on a link that is down fail the way bleak fails them"""

    def __init__(self, acc, mtu, live):
        super().__init__(acc, mtu)
        self.live = live
        self.on_disconnect = None

    def _check(self):
        from bleak.exc import BleakError
        if not self.is_connected:
            raise BleakError("Not connected")

    async def write_gatt_char(self, handle, data, response=None):
        self._check()
        self.acc.gatt_write(handle, bytes(data))

    async def read_gatt_char(self, handle):
        self._check()
        if self.acc.fresh.pop(handle.iid, False) and self.live.reply_delay:
            await asyncio.sleep(self.live.reply_delay)
            self._check()
        return self.acc.gatt_read(handle)

    def drop(self, report):
        if not self.is_connected:
            return
        self.is_connected = False
        self.acc.drop_link()
        if report and self.on_disconnect is not None:
            self.on_disconnect(self)

    async def disconnect(self):
        if not self.is_connected:
            return
        if self.live.teardown:
            await asyncio.sleep(self.live.teardown)
        self.drop(report=False)


BLE_SECOND = {
    "add_pairing": lambda p, k: p.add_pairing(SECOND_ID, k, "User"),
    "remove_pairing": lambda p, k: p.remove_pairing(SECOND_ID),
    "list_pairings": lambda p, k: p.list_pairings(),
    "get_characteristics": lambda p, k: p.get_characteristics([(1, 21)]),
}
BLE_ACTIONS = ("shutdown", "close", "close_after_operation", "link_drop", "cancel", "redescribe", "second:add_pairing", "second:remove_pairing", "second:get_characteristics", "second:list_pairings")


async def _ble_live_cell(case):
    """one concurrent BLE cell, a pure function of the case dict"""
    import random as _r
    from types import SimpleNamespace
    import bleak_retry_connector
    import aiohomekit.controller.ble.discovery as bled
    import aiohomekit.controller.ble.pairing as blep
    from aiohomekit.characteristic_cache import CharacteristicCacheMemory
    from aiohomekit.controller.ble.controller import BleController
    from aiohomekit.controller.ble.manufacturer_data import HomeKitAdvertisement
    from aiohomekit.model.categories import Categories
    from aiohomekit.model.status_flags import StatusFlags
    rng = _r.Random(case.get("seed", 0))
    rb = lambda n: bytes(rng.randrange(256) for _ in range(n))  # noqa: E731
    loop = asyncio.get_running_loop()
    conc = case["conc"]
    live = _Live(case, loop)
    db = _ble_db()
    acc = _BleLiveAcc(case, rb, db["names"], live)
    radios = []

    def new_radio(cb=None):
        r = _LiveRadio(acc, case.get("mtu", 512), live)
        r.on_disconnect = cb
        radios.append(r)
        return r

    async def establish(device, name, disconnected_callback, **kw):
        # the radio's connect(): the accessory is in range again after `connect_time` (or stays out of reach)
        await asyncio.sleep(float(conc.get("connect_time", 0.3)))
        if not conc.get("reconnect", True):
            raise bleak_retry_connector.BleakNotFoundError("device not in range")
        return new_radio(disconnected_callback)

    controller = BleController(CharacteristicCacheMemory())
    device = SimpleNamespace(address=_Radio.address, name="acc", details={})
    op = case["op"]
    obs = {"keys": None}
    k = acc.ident.ios_ltpk.hex()

    def advertisement(state_num):
        return HomeKitAdvertisement(name="acc", id=acc.ident.acc_id.decode().lower(), status_flags=StatusFlags(0), config_num=1, category=Categories(5),
                                    setup_hash=b"", address=_Radio.address, state_num=state_num)
    stub = mock.patch.object(P, "SrpClient", FakeSrp) if case.get("srp", "stub") == "stub" else mock.patch.object(P, "SrpClient", P.SrpClient)
    pairing = None
    try:
        with mock.patch.object(blep, "establish_connection", establish), mock.patch.object(bled, "establish_connection", establish), stub:
            if op in ("start_pairing", "finish_pairing"):
                from aiohomekit.controller.ble.discovery import BleDiscovery
                desc = HomeKitAdvertisement(name="acc", id=acc.ident.acc_id.decode().lower(), status_flags=StatusFlags(1), config_num=1, category=Categories(5),
                                            setup_hash=b"", address=_Radio.address, state_num=1)
                disc = BleDiscovery(controller, device, desc, None)
                disc.client = new_radio(disc._async_disconnected)
                if op == "start_pairing":
                    coro = disc.async_start_pairing("alias")
                else:
                    try:
                        finish = await asyncio.wait_for(disc.async_start_pairing("alias"), OP_TIMEOUT)
                    except _Runaway:
                        raise
                    except Exception as e:  # noqa: BLE001
                        obs.update(out="scaffold " + type(e).__name__, out_b=None, delivered=dict(live.delivered), scripted=0, requests=acc.requests, runaway=acc.runaway, after=[], acted=False)
                        return obs
                    coro = finish(PIN)
                own = ("setup", "features")
            else:
                pd = dict(acc.ident.pairing_data(connection="BLE"), AccessoryAddress=_Radio.address)
                pairing = BlePairing(controller, pd, device=device, client=new_radio())
                radios[0].on_disconnect = pairing._async_disconnected
                pairing.restore_accessories_state(db["db"], 1, None, None)
                own = ("pairings", "verify") if case.get("step") == "pairingsM2" else ("verify",)
                coro = pairing._async_pair_verify() if op == "pair_verify" else BLE_PUBLIC[op](pairing, k)
            inner = asyncio.ensure_future(coro)

            def start_action():
                kind = conc["action"]
                live.late = inner.done()
                if kind == "cancel":
                    inner.cancel()
                elif kind == "link_drop":
                    radios[-1].drop(report=True)
                elif pairing is None:
                    return
                elif kind == "redescribe":
                    pairing._async_description_update(advertisement(int(conc.get("state_num", 7))))
                elif kind.startswith("second:"):
                    live.b_started = True
                    live.side = asyncio.ensure_future(BLE_SECOND[kind[7:]](pairing, k))
                else:
                    live.side = asyncio.ensure_future({"shutdown": pairing.shutdown, "close": pairing.close, "close_after_operation": pairing.close_after_operation}[kind]())
            live.start_action = start_action
            inner.add_done_callback(lambda _t: setattr(live, "a_done", True))
            out, out_b = await _settle(live, inner)
            if "alias" in controller.pairings:
                obs["keys"] = "controller.pairings holds the new pairing"
            if pairing is not None and case.get("step") in ("verifyM2", "verifyM4") and pairing.is_connected:
                obs["keys"] = "BlePairing.is_connected is True"
    finally:
        live.cancel_timers()
    after = [] if (case.get("step") == "pairingsM2" and conc["action"].startswith("second:")) else _after(acc, own)
    obs.update(out=out, out_b=out_b if conc["action"].startswith("second:") else None, side=out_b, delivered=dict(live.delivered), scripted=len(acc.scripted_at), requests=acc.requests,
               runaway=acc.runaway, after=after, acted=live.acted, late=live.late)
    return obs


# ------------------------------------------------------------------------------------------------------ IP, concurrent
class _IpLiveAcc(_IpAcc):
    """_IpAcc that thinks for `reply_delay` before it answers a request"""

    def __init__(self, case, rb, net, loop, live):
        super().__init__(case, rb, net, loop)
        self.live = live
        self.fed = False

    def handle(self, t, method, target, body):
        if t.closing or t.closed:
            return
        ep = {"/pair-setup": "setup", "/pair-verify": "verify", "/pairings": "pairings"}.get(target)
        req = refacc.untlv(body) if ep else {}
        want_ep, want_state = _STEP_REQ.get(self.step, (None, None))
        scripted = ep is not None and ep == want_ep and (want_state is None or req.get(6) == want_state) and (ep != "pairings" or bool(self.conns[t]["keys"]))
        owner = self.live.owner(req.get(1) if ep == "pairings" else None)
        self.live.transport = t
        self.live.request_complete(scripted)
        self.live.later(self.live.reply_delay, self._answer, t, method, target, body, owner)

    def _answer(self, t, method, target, body, owner):
        if t.closing or t.closed:
            return
        before = len(self.scripted_at)
        self.fed = False
        try:
            _IpAcc.handle(self, t, method, target, body)
        except _Runaway:
            return t.peer_close()
        if len(self.scripted_at) > before and self.fed:
            self.live.delivered[owner] += 1

    def send(self, t, body, ctype="application/pairing+tlv8", status=(200, "OK")):
        self.fed = not (t.closed or t.closing)
        super().send(t, body, ctype, status)


IP_SECOND = {
    "add_pairing": lambda p, k: p.add_pairing(SECOND_ID, k, "User"),
    "remove_pairing": lambda p, k: p.remove_pairing(SECOND_ID),
    "list_pairings": lambda p, k: p.list_pairings(),
    "get_characteristics": lambda p, k: p.get_characteristics([(1, 21)]),
}
IP_ACTIONS = ("shutdown", "close", "link_drop", "link_reset", "cancel", "redescribe", "second:add_pairing", "second:remove_pairing", "second:get_characteristics", "second:list_pairings")


def _ip_description(acc, case, state_num=1):
    from aiohomekit.model.categories import Categories
    from aiohomekit.model.feature_flags import FeatureFlags
    from aiohomekit.model.status_flags import StatusFlags
    from aiohomekit.zeroconf import HomeKitService
    return HomeKitService(name="acc", id=acc.ident.acc_id.decode().lower(), model="m", feature_flags=FeatureFlags(case.get("ff", 0)), status_flags=StatusFlags(1),
                          config_num=1, state_num=state_num, category=Categories(5), protocol_version="1.1", type="_hap._tcp.local.", address="10.0.0.1",
                          addresses=["10.0.0.1"], port=80)


async def _ip_live_cell(case):
    """one concurrent IP cell, a pure function of the case dict"""
    import random as _r
    from types import SimpleNamespace
    from harness import simnet
    from aiohomekit.characteristic_cache import CharacteristicCacheMemory
    rng = _r.Random(case.get("seed", 0))
    rb = lambda n: bytes(rng.randrange(256) for _ in range(n))  # noqa: E731
    loop = asyncio.get_running_loop()
    conc = case["conc"]
    live = _Live(case, loop)
    net = simnet.Net(loop)
    acc = _IpLiveAcc(case, rb, net, loop, live)
    op = case["op"]
    obs = {"keys": None}
    stub = mock.patch.object(P, "SrpClient", FakeSrp) if case.get("srp", "stub") == "stub" else mock.patch.object(P, "SrpClient", P.SrpClient)
    pd = acc.ident.pairing_data()
    controller = SimpleNamespace(pairings={}, _char_cache=CharacteristicCacheMemory())
    k = acc.ident.ios_ltpk.hex()
    closer, pairing = None, None
    out, out_b = "scaffold", None
    with net.patched(), stub:
        try:
            if op.startswith("discovery."):
                from aiohomekit.controller.ip.discovery import IpDiscovery
                disc = IpDiscovery(controller, _ip_description(acc, case))
                closer = disc.close
                if op == "discovery.start_pairing":
                    coro = disc.async_start_pairing("alias")
                else:
                    try:
                        finish = await asyncio.wait_for(disc.async_start_pairing("alias"), OP_TIMEOUT)
                    except Exception as e:  # noqa: BLE001
                        obs.update(out="scaffold " + type(e).__name__, out_b=None, delivered=dict(live.delivered), scripted=0, requests=acc.requests, runaway=acc.runaway, after=[], acted=False)
                        return obs
                    coro = finish(PIN)
            else:
                from aiohomekit.controller.ip.pairing import IpPairing
                pairing = IpPairing(controller, pd)
                closer = pairing.close
                pairing.restore_accessories_state(_ble_db()["db"], 1, None, None)
                coro = IP_PUBLIC[op](pairing, k)
            inner = asyncio.ensure_future(coro)

            def start_action():
                kind = conc["action"]
                live.late = inner.done()
                if kind == "cancel":
                    inner.cancel()
                elif kind in ("link_drop", "link_reset"):
                    if live.transport is not None:
                        (live.transport.peer_close if kind == "link_drop" else live.transport.peer_reset)()
                elif pairing is None:
                    return
                elif kind == "redescribe":
                    pairing._async_description_update(_ip_description(acc, case, int(conc.get("state_num", 7))))
                elif kind.startswith("second:"):
                    live.b_started = True
                    live.side = asyncio.ensure_future(IP_SECOND[kind[7:]](pairing, k))
                else:
                    live.side = asyncio.ensure_future({"shutdown": pairing.shutdown, "close": pairing.close}[kind]())
            live.start_action = start_action
            inner.add_done_callback(lambda _t: setattr(live, "a_done", True))
            out, out_b = await _settle(live, inner)
            if "alias" in controller.pairings:
                obs["keys"] = "controller.pairings holds the new pairing"
                closer = controller.pairings["alias"].close
            if pairing is not None and case.get("step") in ("verifyM2", "verifyM4") and pairing.is_connected:
                obs["keys"] = "IpPairing.is_connected is True"
        finally:
            live.cancel_timers()
            net.connect_outcomes = ["refused"] * 10000
            if closer is not None:
                try:
                    await closer()
                except Exception:  # noqa: BLE001
                    pass
    step = case.get("step") or ""
    own = ("setup",) if step.startswith("setup") else (("pairings", "verify") if step == "pairingsM2" else ("verify",))
    after = [] if (step == "pairingsM2" and conc["action"].startswith("second:")) else _after(acc, own)
    obs.update(out=out, out_b=out_b if conc["action"].startswith("second:") else None, side=out_b, delivered=dict(live.delivered), scripted=len(acc.scripted_at), requests=acc.requests,
               runaway=acc.runaway, after=after, acted=live.acted, late=live.late)
    return obs


# ---------------------------------------------------------------------------------------------------- CoAP, concurrent
class _CoapLiveContext:
    """stands in for aiocoap.Context; the response arrives `reply_delay` after the request (unless the requester gave up)"""

    def __init__(self, acc, live):
        self.acc, self.live, self.down = acc, live, False

    def request(self, msg):
        from types import SimpleNamespace
        acc, live = self.acc, self.live
        fut = live.loop.create_future()
        n_scr = len(acc.scripted_at)
        owner = live.owner()
        resp = acc.respond(msg)
        scripted = len(acc.scripted_at) > n_scr
        live.request_complete(scripted)

        def arrive():
            if fut.done() or self.down:
                return
            fut.set_result(resp)
            if scripted:
                live.delivered[owner] += 1
        live.later(live.reply_delay, arrive)
        return SimpleNamespace(response=fut)

    async def shutdown(self):
        self.down = True


COAP_SECOND = {
    "list_pairings": lambda p: p.list_pairings(),
    "remove_pairing": lambda p: p.remove_pairing(SECOND_ID),
    "get_characteristics": lambda p: p.get_characteristics([(1, 21)]),
}
COAP_ACTIONS = ("shutdown", "close", "cancel", "redescribe", "second:list_pairings", "second:remove_pairing", "second:get_characteristics")


async def _coap_live_cell(case):
    """one concurrent CoAP cell, a pure function of the case dict"""
    import random as _r
    from types import SimpleNamespace
    import aiohomekit.controller.coap.connection as coapc
    from aiohomekit.characteristic_cache import CharacteristicCacheMemory
    rng = _r.Random(case.get("seed", 0))
    rb = lambda n: bytes(rng.randrange(256) for _ in range(n))  # noqa: E731
    loop = asyncio.get_running_loop()
    conc = case["conc"]
    live = _Live(case, loop)
    acc = _CoapAcc(case, rb)

    class FakeContext:
        @staticmethod
        async def create_client_context(*a, **k):
            return _CoapLiveContext(acc, live)

        @staticmethod
        async def create_server_context(*a, **k):
            return _CoapLiveContext(acc, live)
    op = case["op"]
    obs = {"keys": None}
    stub = mock.patch.object(P, "SrpClient", FakeSrp) if case.get("srp", "stub") == "stub" else mock.patch.object(P, "SrpClient", P.SrpClient)
    pd = dict(acc.ident.pairing_data(hosts=("fd00::1",), port=5683, connection="CoAP"))
    controller = SimpleNamespace(pairings={}, _char_cache=CharacteristicCacheMemory())
    pairing, conn = None, None
    try:
        with mock.patch.object(coapc, "Context", FakeContext), stub:
            if op.startswith("pairing."):
                from aiohomekit.controller.coap.pairing import CoAPPairing
                pairing = CoAPPairing(controller, pd)
                pairing.restore_accessories_state(_ble_db()["db"], 1, None, None)
                coro = COAP_PUBLIC[op](pairing)
            else:
                conn = coapc.CoAPHomeKitConnection(None, "fd00::1", 5683)
                if op == "do_pair_setup":
                    coro = conn.do_pair_setup(bool(case.get("with_auth")))
                elif op == "do_pair_setup_finish":
                    try:
                        salt, srp_b = await asyncio.wait_for(conn.do_pair_setup(bool(case.get("with_auth"))), OP_TIMEOUT)
                    except _Runaway:
                        raise
                    except Exception as e:  # noqa: BLE001
                        obs.update(out="scaffold " + type(e).__name__, out_b=None, delivered=dict(live.delivered), scripted=0, requests=acc.requests, runaway=acc.runaway, after=[], acted=False)
                        return obs
                    coro = conn.do_pair_setup_finish(PIN, salt, srp_b)
                elif op == "do_pair_verify":
                    coro = conn.do_pair_verify(pd)
                else:
                    coro = conn.connect(pd)
            inner = asyncio.ensure_future(coro)

            def start_action():
                kind = conc["action"]
                live.late = inner.done()
                if kind == "cancel":
                    inner.cancel()
                elif pairing is None:
                    return
                elif kind == "redescribe":
                    pairing._async_description_update(_ip_description(acc, case, int(conc.get("state_num", 7))))
                elif kind.startswith("second:"):
                    live.b_started = True
                    live.side = asyncio.ensure_future(COAP_SECOND[kind[7:]](pairing))
                else:
                    live.side = asyncio.ensure_future({"shutdown": pairing.shutdown, "close": pairing.close}[kind]())
            live.start_action = start_action
            inner.add_done_callback(lambda _t: setattr(live, "a_done", True))
            out, out_b = await _settle(live, inner)
            if pairing is not None and pairing.is_connected:
                obs["keys"] = "CoAPPairing.is_connected is True"
            if conn is not None and conn.is_connected:
                obs["keys"] = "CoAPHomeKitConnection.is_connected is True (an encryption context is installed)"
    finally:
        live.cancel_timers()
    own = ("setup",) if (case.get("step") or "").startswith("setup") else ("verify",)
    obs.update(out=out, out_b=out_b if conc["action"].startswith("second:") else None, side=out_b, delivered=dict(live.delivered), scripted=len(acc.scripted_at), requests=acc.requests,
               runaway=acc.runaway, after=_after(acc, own), acted=live.acted, late=live.late)
    return obs


LIVE_CELLS = {"ble-conc": _ble_live_cell, "ip-conc": _ip_live_cell, "coap-conc": _coap_live_cell}
# (reply_delay, action_delay, teardown): the action begins and the reply is read while the link is still up | the link is down before the
# reply | both at the same instant | the action at the instant of the reply | everything immediate | immediate action, slow teardown | action after the reply
LIVE_SCHEDULES = [(1.0, 0.0, 5.0), (1.0, 0.5, 0.1), (1.0, 0.5, 0.5), (1.0, 1.0, 2.0), (0.0, 0.0, 0.0), (0.0, 0.0, 1.0), (1.0, 1.5, 0.0)]


def _run_live(loop, case):
    try:
        obs = loop.run_until_complete(LIVE_CELLS[case["stream"]](case))
    except _Runaway:
        obs = {"out": "runaway", "out_b": None, "delivered": {"A": 1}, "scripted": 1, "requests": REQUEST_LIMIT, "runaway": True, "after": [], "keys": None}
    pend = [t for t in asyncio.all_tasks(loop) if not t.done()]
    for t in pend:
        t.cancel()
    if pend:
        loop.run_until_complete(asyncio.gather(*pend, return_exceptions=True))
    return obs


def live_grid(ctx: Ctx, rng):
    from harness import simnet
    cases = []
    light = {step: _cells(step, False, "light") for step in STEP_STATE}

    def add(stream, op, step, action, sched, **kw):
        shapes = light[step]
        r, a, d = sched
        conc = dict({"action": action, "at": "scripted", "reply_delay": r, "action_delay": a, "teardown": d}, **kw.pop("conc", {}))
        cases.append(dict({"stream": stream, "op": op, "level": "op", "step": step, "seed": rng.randrange(1 << 30), "conc": conc}, **shapes[len(cases) % len(shapes)], **kw))
    n_s = len(LIVE_SCHEDULES)
    # ---- BLE
    for op in BLE_PAIRINGS_OPS:
        for action in BLE_ACTIONS:
            for sched in LIVE_SCHEDULES:
                add("ble-conc", op, "pairingsM2", action, sched)
    for op in ["pair_verify"] + list(BLE_PUBLIC):
        for step in ("verifyM2", "verifyM4"):
            for action in BLE_ACTIONS:
                add("ble-conc", op, step, action, LIVE_SCHEDULES[len(cases) % n_s])
                if action in ("shutdown", "close"):
                    add("ble-conc", op, step, action, LIVE_SCHEDULES[0])
    for op, step in (("start_pairing", "setupM2"), ("finish_pairing", "setupM4"), ("finish_pairing", "setupM6")):
        for action in ("cancel", "link_drop"):
            for sched in LIVE_SCHEDULES[:4]:
                add("ble-conc", op, step, action, sched)
    # ---- IP
    https = [None, [400, "application/pairing+tlv8"], [470, None], [200, "application/hap+json"]]
    for op in IP_PAIRINGS_OPS:
        for action in IP_ACTIONS:
            for sched in LIVE_SCHEDULES[:5]:
                add("ip-conc", op, "pairingsM2", action, sched, http=https[len(cases) % len(https)])
    for op in IP_PUBLIC:
        for step in ("verifyM2", "verifyM4"):
            for action in IP_ACTIONS[:6] + IP_ACTIONS[6 + len(cases) % 4:][:1]:
                add("ip-conc", op, step, action, LIVE_SCHEDULES[len(cases) % n_s], http=https[len(cases) % len(https)])
                if action in ("shutdown", "close"):
                    add("ip-conc", op, step, action, LIVE_SCHEDULES[0], http=https[len(cases) % len(https)])
    for op, step in (("discovery.start_pairing", "setupM2"), ("discovery.finish_pairing", "setupM4"), ("discovery.finish_pairing", "setupM6")):
        for action in ("cancel", "link_drop", "link_reset"):
            for sched in LIVE_SCHEDULES[:3]:
                add("ip-conc", op, step, action, sched, http=https[len(cases) % len(https)])
    # ---- CoAP
    for op in list(COAP_PUBLIC) + ["connect", "do_pair_verify"]:
        for step in ("verifyM2", "verifyM4"):
            for action in (COAP_ACTIONS if op.startswith("pairing.") else ("cancel",)):
                add("coap-conc", op, step, action, LIVE_SCHEDULES[len(cases) % n_s])
    for op, step in (("do_pair_setup", "setupM2"), ("do_pair_setup_finish", "setupM4"), ("do_pair_setup_finish", "setupM6")):
        for sched in LIVE_SCHEDULES[:3]:
            add("coap-conc", op, step, "cancel", sched)
    # ---- random schedules / trigger points / reply shapes on top of the systematic part
    grid = list(cases)
    for _ in range(ctx.budget(250, 6000)):
        c = dict(rng.choice(grid))
        c.update(rng.choice(light[c["step"]]))
        conc = dict(c["conc"], reply_delay=rng.choice([0.0, 0.25, 1.0, 3.0]), action_delay=rng.choice([0.0, 0.0, 0.25, 0.5, 1.0, 1.25, 2.0, 3.0, 4.0]),
                    teardown=rng.choice([0.0, 0.25, 0.75, 1.0, 2.5, 6.0]))
        if not c["op"].endswith("finish_pairing") and c["op"] != "do_pair_setup_finish":
            conc["at"] = rng.choice(["scripted", "first"])
        if c["stream"] == "ble-conc":
            conc["reconnect"] = rng.random() < 0.7
            c.update(pdu_split=rng.choice([0, 0, 3, 7]), mtu=rng.choice([512, 512, 64]))
        c.update(conc=conc, seed=rng.randrange(1 << 30))
        cases.append(c)
    # the genuine control exchanges under the same latency (no scripted step: the operations must be able to succeed)
    for stream, ops in (("ble-conc", BLE_PAIRINGS_OPS + ("get_characteristics",)), ("ip-conc", IP_PAIRINGS_OPS + ("pairing.get_characteristics",)), ("coap-conc", ("do_pair_verify",))):
        for op in ops:
            cases.append({"stream": stream, "op": op, "level": "op", "step": None, "seed": rng.randrange(1 << 30),
                          "conc": {"action": "cancel", "at": "scripted", "reply_delay": 1.0, "action_delay": 0.0, "teardown": 0.0}})
    loops = {}
    n_delivered = 0
    unjudged = {}
    for case in cases:
        loop = loops.get(case["stream"])
        if loop is None:
            loop = loops[case["stream"]] = simnet.VLoop()
        asyncio.set_event_loop(loop)
        obs = _run_live(loop, case)
        conc = case["conc"]
        ctx.evaluations += 1
        ctx.nontrivial.add((case["stream"], case["op"], case.get("step"), case.get("state"), case.get("code"), conc["action"], conc.get("at"), conc["reply_delay"], conc["action_delay"],
                            conc["teardown"], conc.get("reconnect"), case.get("pdu_split"), case.get("mtu"), str(case.get("http"))))
        delivered = "delivered" if obs["delivered"].get("A") else "not-delivered"
        n_delivered += bool(obs["delivered"].get("A"))
        ctx.dist[f"{case['stream']}:{conc['action']}:{case.get('step') or 'genuine'}:{delivered}:{obs['out']}"] += 1
        if obs.get("out_b") is not None:
            ctx.dist[f"{case['stream']}:{conc['action']}:{case.get('step') or 'genuine'}:second:{'delivered' if obs['delivered'].get('B') else 'not-delivered'}:{obs['out_b']}"] += 1
        if case.get("step") and obs["delivered"].get("A") and obs["out"].startswith("exc") and conc["action"] in LIVE_TEARDOWN:
            unjudged.setdefault(f"{case['stream']} {obs['out'][4:]} under {conc['action']}", case)
        if case.get("step") is None and not obs["out"].startswith("ok"):
            ctx.notes.append(f"{case['stream']} {case['op']}: the genuine control exchange under latency ended with {obs['out']} (the property makes no claim)")
        for sig, text in _judge_live(case, obs):
            ctx.violation(f"{case['stream']}/{case['op']}/{case.get('step')}/{conc['action']}/{sig}", text, case)
    asyncio.set_event_loop(None)
    for loop in loops.values():
        loop.close()
    for what, case in sorted(unjudged.items()):
        ctx.notes.append(f"concurrent lifecycle, not judged (the application tore the link down itself, only 'never returns normally' is demanded): {what} - the error reply had reached the call, "
                         f"which then raised a non-library exception; e.g. {case['op']} {case['step']} state={case['state']} code={case['code']} http={case.get('http')} conc={case['conc']}")
    ctx.sample(cases[0])
    ctx.sample(cases[len(cases) // 2])
    ctx.notes.append(f"concurrent lifecycle: {len(cases)} cells (transport x entry point x scripted step x lifecycle action of another task x schedule); in {n_delivered} of them the scripted reply "
                     "still reached the operation and was judged; oracle: such an operation never returns normally (and, unless the application tore the link down itself, raises no non-library exception)")


def replay(ctx, driver, c):
    if c.get("stream") == "ble-reassembly":
        from harness.c04_reassembly import real
        script = [(t.split(":")[0], (int(t.split(":")[1]) if t[0] == "p" else (bytes.fromhex(t.split(":")[1]) if t.split(":")[1] != "-" else b""))) for t in c["script"]]
        status, got = real(script)
        first = next(((k, p_) for k, p_ in script if k in ("l", "p")), None)
        if status == "returned" and first and first[0] == "p" and got != {6: bytes([first[1] & 0xFF]), 7: b"\x02"}:
            return f"the caller was handed { {t: v.hex() for t, v in got.items()} } instead of the unfragmented reply [State={first[1]}, Error=2]"
        return None
    if c.get("stream") in LIVE_CELLS:
        from harness import simnet
        loop = simnet.VLoop()
        asyncio.set_event_loop(loop)
        try:
            obs = _run_live(loop, c)
        finally:
            asyncio.set_event_loop(None)
            loop.close()
        return "; ".join(text for _, text in _judge_live(c, obs)) or None
    if c.get("stream") in ("ble", "coap", "ip", "ble-delivery", "top"):
        from harness import simnet
        loop = simnet.VLoop()
        asyncio.set_event_loop(loop)
        try:
            try:
                obs = loop.run_until_complete({"ble": _ble_cell, "coap": _coap_cell, "ip": _ip_cell, "ble-delivery": _ble_cell, "top": _top_cell}[c["stream"]](c))
            except _Runaway:
                obs = {"out": "runaway", "scripted": 1, "requests": REQUEST_LIMIT, "runaway": True, "after": [], "keys": None, "said": []}
            pend = [t for t in asyncio.all_tasks(loop) if not t.done()]
            for t in pend:
                t.cancel()
            if pend:
                loop.run_until_complete(asyncio.gather(*pend, return_exceptions=True))
        finally:
            asyncio.set_event_loop(None)
            loop.close()
        bad = _judge_delivery(c, obs)[0] if c["stream"] == "ble-delivery" else (_judge_top(c, obs) if c["stream"] == "top" else _judge(c, obs))
        return "; ".join(text for _, text in bad) or None
    rng = ctx.rng
    sc = Scaffold(rng)
    items = [(k, bytes.fromhex(v) if v != "-" else b"") for k, v in c["items"]]
    if c["stream"] == "step":
        g, exp, _ = getattr(sc, c["step"])()
        wire = refacc.tlv(items)
        with mock.patch.object(P, "SrpClient", FakeSrp):
            out = outcome(lambda: g.send(TLV.decode_bytes(wire, expected=exp) if c["filtered"] else TLV.decode_bytes(wire)))
        d = dict(items)
        step_state = {"setupM2": b"\x02", "setupM4": b"\x04", "setupM6": b"\x06", "verifyM2": b"\x02", "verifyM4": b"\x04"}[c["step"]]
        want = expected_outcome(step_state, d.get(6), d.get(7))
        if want is not None and out != want:
            return f"{c['step']}: {out}, documented outcome {want}"
    return None
