"""C19, below the quiescence abstraction: device-waiter futures inside one event-loop iteration.

Model: `HapVerif.Waiters.Micro` (lean/HapVerif/Model/Waiters.lean), theorems C19_micro_* in Props/C19.lean.
Events (the same tokens go to the driver, `wt.micro ...`):
  s:<k>:<id>  a task calls async_find for device <id>; the loop runs until nothing is ready
  a:<id>      a valid advertisement for <id> is processed by the controller's callback; the loop does NOT run
  c:<k>       task.cancel() of that waiter; the loop does NOT run
  o:<k>       the waiter's own timer fires (mDNS controllers: the registered `_async_on_timeout` callback is invoked); the loop does NOT run
  t           the loop runs until nothing is ready

Oracle (property text, harness bookkeeping only): no callback raises; a waiter that is still pending when a valid advertisement for
its id is processed is completed with the discovery; a waiter that was cancelled / timed out before ends with its own outcome.
"""
from __future__ import annotations

import asyncio
from unittest.mock import MagicMock

from harness.common import Ctx, Driver, compare_with_model

from aiohomekit.characteristic_cache import CharacteristicCacheMemory
from aiohomekit.controller.ble.controller import BleController
from aiohomekit.controller.ip.controller import IpController
from aiohomekit.exceptions import AccessoryNotFoundError

IDS = {i: "aa:bb:cc:dd:ee:%02x" % i for i in range(1, 6)}


async def settle():
    for _ in range(10):
        await asyncio.sleep(0)


async def micro_schedule(loop, kind, events):
    from harness.c19 import ble_adv, mdns_info
    if kind == "mdns":
        ctl = IpController(char_cache=CharacteristicCacheMemory(), zeroconf_instance=MagicMock())
    else:
        ctl = BleController(CharacteristicCacheMemory())
    tasks, out, order = {}, {}, []
    raised = []
    gave_up = {}          # k -> 'cancelled' | 'notfound' (the harness's own record of what ended the wait first)
    resolved = set()      # waiters that were pending when an advertisement for their id was processed
    ident = {}
    seen_ids = set()

    async def waiter(k, did):
        try:
            d = await ctl.async_find(did, 3600)
            out[k] = "found" if d is not None else "none"
        except AccessoryNotFoundError:
            out[k] = "notfound"
        except asyncio.CancelledError:
            out[k] = "cancelled"
            raise
        except Exception as e:  # noqa: BLE001
            out[k] = "exc:" + type(e).__name__

    def future_of(k):
        """the future this waiter registered (mDNS controllers keep them per id in registration order)"""
        return tasks[k]._fut_waiter if not tasks[k].done() else None

    n_adv = 0
    for e in events + ["t"]:
        f = e.split(":")
        if f[0] == "s":
            k, i = int(f[1]), int(f[2])
            ident[k] = i
            if i in seen_ids:
                resolved.add(k)   # already discovered: found at once
            tasks[k] = asyncio.ensure_future(waiter(k, IDS[i].upper() if k % 2 else IDS[i]))
            await settle()
        elif f[0] == "a":
            i = int(f[1])
            n_adv += 1
            seen_ids.add(i)
            for k, t in tasks.items():
                if ident[k] == i and not t.done() and k not in gave_up and k not in resolved:
                    resolved.add(k)
            try:
                if kind == "mdns":
                    ctl._async_handle_loaded_service_info(mdns_info(IDS[i], upper_keys=bool(n_adv % 2)))
                else:
                    ctl._device_detected(*ble_adv(IDS[i], gsn=n_adv))
            except Exception as ex:  # noqa: BLE001
                raised.append(type(ex).__name__)
        elif f[0] == "c":
            k = int(f[1])
            if k in tasks and not tasks[k].done():
                tasks[k].cancel()
                gave_up[k] = "cancelled"   # a cancellation wins even over a discovery the task has not picked up yet
        elif f[0] == "o":
            k = int(f[1])
            if kind == "mdns" and k in tasks and not tasks[k].done():
                fut = future_of(k)
                if fut is not None:
                    if not fut.done():
                        gave_up.setdefault(k, "notfound")
                    ctl._async_on_timeout(fut)
        elif f[0] == "t":
            await settle()
    problems = []
    if raised:
        problems.append(("micro/callback-raised", f"the advertisement callback raised {raised[0]}"))
    for k in tasks:
        got = out.get(k, "pending")
        want = gave_up.get(k) or ("found" if k in resolved else "pending")
        if k in resolved and k not in gave_up and got != "found":
            problems.append(("micro/not-woken", f"waiter {k} was pending when a valid advertisement for its id was processed but ended {got}"))
        elif got != want:
            problems.append(("micro/wrong-outcome", f"waiter {k} ended {got}, the schedule demands {want}"))
    line = " ".join(f"{k}={out.get(k, 'pending')}" for k in sorted(tasks)) or "-"
    for t in tasks.values():   # whatever is still waiting was pending
        t.cancel()
    await asyncio.gather(*tasks.values(), return_exceptions=True)
    return line + f" raised={1 if raised else 0}", problems


def directed(kind):
    acts = ["a:1", "a:2", "t"]
    out = []

    def rec(prefix, nk, depth):
        out.append(list(prefix))
        if depth == 0:
            return
        if nk < 3:
            for i in (1, 2):
                rec(prefix + [f"s:{nk + 1}:{i}"], nk + 1, depth - 1)
        if nk:
            for a in acts:
                rec(prefix + [a], nk, depth - 1)
            for k in range(1, nk + 1):
                rec(prefix + [f"c:{k}"], nk, depth - 1)
                if kind == "mdns":
                    rec(prefix + [f"o:{k}"], nk, depth - 1)
    rec([], 0, 4)
    return out


def gen(rng, kind):
    evs, nk = [], 0
    for _ in range(rng.randrange(3, 12)):
        r = rng.random()
        if r < 0.3 or nk == 0:
            nk += 1
            evs.append(f"s:{nk}:{rng.choice([1, 1, 2])}")
        elif r < 0.55:
            evs.append(f"a:{rng.choice([1, 1, 2])}")
        elif r < 0.75:
            evs.append(f"c:{rng.randrange(1, nk + 1)}")
        elif r < 0.85 and kind == "mdns":
            evs.append(f"o:{rng.randrange(1, nk + 1)}")
        else:
            evs.append("t")
    return evs


def run_micro(ctx: Ctx, driver: Driver):
    loop = asyncio.new_event_loop()
    asyncio.set_event_loop(loop)
    rng = ctx.rng
    cases, outs, lines = [], [], []
    try:
        for kind in ("mdns", "ble"):
            hist = directed(kind)
            if not ctx.thorough():
                hist = [h for i, h in enumerate(hist) if len(h) <= 3 or i % 4 == ctx.seed % 4]
            hist += [gen(rng, kind) for _ in range(ctx.budget(300, 6000))]
            for evs in hist:
                case = {"stream": "waiter-micro", "kind": kind, "events": evs}
                try:
                    out, problems = loop.run_until_complete(micro_schedule(loop, kind, evs))
                except Exception as e:  # noqa: BLE001
                    ctx.violation("waiter/micro/schedule-raised", f"{kind}: {type(e).__name__}: {e} on {' '.join(evs)}", case)
                    continue
                ctx.evaluations += 1
                ctx.nontrivial.add(("waiter-micro", kind) + tuple(evs))
                ctx.dist["waiter-micro:" + kind] += 1
                for sig, what in problems[:2]:
                    ctx.violation(f"waiter/{kind}/{sig}", what + f" [schedule: {' '.join(evs)}]", case)
                cases.append(case)
                outs.append(out)
                lines.append("wt.micro " + " ".join(evs))
    finally:
        asyncio.set_event_loop(None)
        loop.close()
    compare_with_model(ctx, "waiter-micro", cases, outs, lines, driver)


def replay_micro(ctx: Ctx, driver: Driver, case):
    loop = asyncio.new_event_loop()
    asyncio.set_event_loop(loop)
    try:
        out, problems = loop.run_until_complete(micro_schedule(loop, case["kind"], case["events"]))
    finally:
        asyncio.set_event_loop(None)
        loop.close()
    compare_with_model(ctx, "waiter-micro", [case], [out], ["wt.micro " + " ".join(case["events"])], driver)
    return "; ".join(f"{s}: {w}" for s, w in problems) or None
