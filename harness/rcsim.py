"""Shared engine for C10 / C11: runs one scenario (address list + event tokens) against the real, unpatched
IpPairing / SecureHomeKitConnection under simnet with the scaffold accessory, and renders after every event the
same observation line the Lean model (`rc.run`) prints.

event tokens (python side; the third field of `v:` is the concrete accessory mode, dropped for the model):
  a:<dt>          advance virtual time by dt units of 1/8192 s
  e:<id>:<own|->  a caller enters IpPairing._ensure_connected (own = its own timeout in units)
  c:<id>          that caller is cancelled
  s               zeroconf sees the device again (IpPairing._async_description_update with the current description)
  d:<h,h,..>      zeroconf update carrying an address list
  x / X           IpPairing.close() / shutdown()
  p:<c>           the accessory closes connection c
  t:r | t:t | t:o:<k>        script the next TCP connect: refused / timeout / ok to the k-th target
  v:<class>:<mode>           script the next pair-verify: class ok|wr|au|fa|ha, mode = accessory behaviour
"""
from __future__ import annotations

import asyncio
import random
from unittest.mock import MagicMock

from harness import simnet
from harness.acc import Accessory, http

from aiohomekit.characteristic_cache import CharacteristicCacheMemory
from aiohomekit.controller.ip.pairing import IpPairing
from aiohomekit.exceptions import AccessoryDisconnectedError, AuthenticationError
from aiohomekit.model.categories import Categories
from aiohomekit.model.feature_flags import FeatureFlags
from aiohomekit.model.status_flags import StatusFlags
from aiohomekit.zeroconf import HomeKitService

UNIT = 8192
FAIL_MODES = ["badsig", "err11", "err13", "err14", "err15", "err16", "err17", "err21", "err23", "err27", "close1", "close2", "reset1", "reset2", "reset1", "reset2", "http470", "exc"]
AUTH_MODES = ["err12", "err22"]


FAMILY = {"v": "v4"}  # address family used for the scenario being run (set by run_scenario)


def host(i):
    """the i-th advertised address, as zeroconf / the pairing record spell it"""
    if FAMILY["v"] == "v6":
        # scoped link-local with zero compression and mixed case, as mDNS delivers them
        return f"fe80::AB:{i:x}%eth0"
    return f"10.0.0.{i}"


def peer_name(h):
    """how the connected socket reports the same address (getpeername): expanded, lower case, no scope id"""
    if ":" in h:
        import ipaddress
        return ipaddress.ip_address(h.partition("%")[0]).exploded
    return h


def hidx(h):
    if ":" in h:
        import ipaddress
        return int(ipaddress.ip_address(h.partition("%")[0])) & 0xFFFF
    return int(h.rsplit(".", 1)[1])


def model_token(tok):
    p = tok.split(":")
    if p[0] == "v":
        return "v:" + p[1]
    return tok


def model_line(hosts, events):
    return "rc.run " + ",".join(str(h) for h in hosts) + " " + " ".join(model_token(e) for e in events)


def model_line_of(hosts, sim):
    return "rc.run " + ",".join(str(h) for h in hosts) + " " + " ".join(sim.model_events)


def description(hosts):
    return HomeKitService(name="acc", id="12:34:56:00:01:0A", model="m", feature_flags=FeatureFlags(0), status_flags=StatusFlags(0), config_num=0, state_num=1,
                          category=Categories.LIGHTBULB, protocol_version="1.1", type="_hap._tcp.local.", address=host(hosts[0]), addresses=[host(h) for h in hosts], port=80)


async def settle(loop):
    """run the loop until nothing is ready at the current virtual instant"""
    for _ in range(10000):
        await asyncio.sleep(0)
        if loop._ready:
            continue
        if loop._scheduled and not loop._scheduled[0]._cancelled and loop._scheduled[0]._when <= loop.time():
            continue
        # a cancelled head may hide a due timer; let one more iteration clean it up
        if loop._scheduled and loop._scheduled[0]._cancelled:
            live = [h for h in loop._scheduled if not h._cancelled and h._when <= loop.time()]
            if live:
                continue
        return
    raise RuntimeError("event loop does not settle")


class Sim:
    """result of one scenario"""

    def __init__(self):
        self.lines = []          # per event: observation line
        self.problems = []       # (signature, text) found by the implementation-level oracles
        self.attempts = []       # (units, [host idx])
        self.model_events = []   # the events as the model is given them (some harness events map to a model event decided at run time)
        self.stats = {}


def _run(hosts, events, seed, subs=None, family="v4"):
    FAMILY["v"] = family
    loop = simnet.VLoop()
    asyncio.set_event_loop(loop)
    sim = Sim()
    try:
        loop.run_until_complete(_scenario(loop, sim, hosts, events, seed))
    finally:
        try:
            pend = [t for t in asyncio.all_tasks(loop) if not t.done()]
            for t in pend:
                t.cancel()
            if pend:
                loop.run_until_complete(asyncio.gather(*pend, return_exceptions=True))
        finally:
            asyncio.set_event_loop(None)
            loop.close()
    return sim


def run_scenario(hosts, events, seed=0, family="v4"):
    return _run(hosts, events, seed, family=family)


def now_units(loop):
    u = loop.time() * UNIT
    return int(round(u))


async def _scenario(loop, sim, hosts, events, seed):
    rnd = random.Random(seed)
    net = simnet.Net(loop)
    acc = Accessory(loop, net, lambda n: bytes(rnd.randrange(256) for _ in range(n)))
    raw_attempts = []
    orig_start = net.start_connection

    async def start_connection(addr_infos, **kw):
        raw_attempts.append((now_units(loop), [hidx(a[3]) for a in addr_infos]))
        sock = await orig_start(addr_infos, **kw)
        sock.host = peer_name(sock.host)
        return sock
    net.start_connection = start_connection
    opened = []  # (units, host idx, advertised list) of every TCP connection that was established
    conn_ref = []
    orig_create = net.create_connection

    async def create_connection(factory, sock=None, **kw):
        # remember under which advertised address list the connection was made: a zeroconf update that changes the
        # list legitimately resets the exclusions ("host change clears exclusions"), so only repeats under the SAME
        # list count as "the same address again"
        opened.append((now_units(loop), hidx(sock.host), tuple(sorted(conn_ref[0].hosts)) if conn_ref else ()))
        return await orig_create(factory, sock=sock, **kw)
    net.create_connection = create_connection
    # stale-loss oracle: the loss of a transport that is not the current one must leave the current one alone
    ctrl = MagicMock()
    ctrl._char_cache = CharacteristicCacheMemory()
    waiters = {}
    done = []  # (id, outcome, units)
    close_raised = []
    problems = sim.problems
    with net.patched():
        p = IpPairing(ctrl, acc.pairing_data([host(h) for h in hosts]))
        conn = p.connection
        conn_ref.append(conn)
        # the caller subscribed to something in an earlier session: every new session re-subscribes inside connection_made,
        # i.e. while the connector task is still running
        p.subscriptions.add((1, 9))
        orig_lost = simnet.FakeTransport._lost

        def lost_hook(t, exc, _orig=orig_lost):
            cur = conn.transport
            was_closing = cur.closing if cur is not None else None
            _orig(t, exc)
            if cur is not None and cur is not t and not was_closing:
                if cur.closing or conn.transport is not cur:
                    problems.append(("stale-loss-disturbs-current", f"loss of abandoned connection {t.index} closed or replaced the current connection {cur.index}"))
        for tr_cls in (simnet.FakeTransport,):
            tr_cls._lost = lost_hook
        try:
            n_att = 0
            n_open = 0
            seen_shutdown = False
            quiet = False  # the pairing was closed and nothing has asked for a connection since
            last_attempt = None
            harness_cancelled = set()
            groups = []  # (timestamp, set of targeted addresses) while one connector keeps retrying
            for ev in events:
                hosts_before = list(conn.hosts)
                conn_before = conn.transport if p.is_connected else None  # the healthy session at the start of this event
                f = ev.split(":")
                k = f[0]
                mtok = model_token(ev)
                if k in ("j", "h"):
                    # an established session gets a reply that makes the request layer give the connection up: malformed JSON to
                    # a JSON PUT (j) or an HTTP 470 to a TLV POST outside pair-verify (h).  For the supervisor this is the loss
                    # of the current connection: it must be followed by a new attempt like any other loss.
                    cur_t = conn.transport
                    if p.is_connected and cur_t is not None:
                        mtok = f"p:{cur_t.index}"
                        if k == "j":
                            acc.responder = lambda s_, m_, t_, b_: http(b'{"characteristics": [', b"application/hap+json")
                            coro = conn.put_json("/characteristics", {"characteristics": [{"aid": 1, "iid": 9, "ev": True}]})
                        else:
                            acc.responder = lambda s_, m_, t_, b_: http(b"\x06\x01\x02\x07\x01\x02", code=b"470 Connection Authorization Required")
                            coro = conn.post_tlv("/pairings", [(6, b"\x01")])
                        try:
                            await coro
                        except AccessoryDisconnectedError:
                            pass
                        except Exception as e:  # noqa: BLE001
                            problems.append(("request-error-wrong-exception", f"after {ev}: the request raised {type(e).__name__}"))
                        acc.responder = None
                    else:
                        mtok = "p:9999"
                elif k == "a":
                    await asyncio.sleep(int(f[1]) / UNIT)
                elif k == "e":
                    wid = int(f[1])
                    own = None if f[2] == "-" else int(f[2]) / UNIT

                    async def w(wid=wid, own=own):
                        t0 = now_units(loop)
                        try:
                            if own is None:
                                await p._ensure_connected()
                            else:
                                await asyncio.wait_for(p._ensure_connected(), own)
                            out = "ok"
                        except asyncio.TimeoutError:
                            out = "own"
                        except AccessoryDisconnectedError:
                            out = "disc"
                        except AuthenticationError:
                            out = "auth"
                        except asyncio.CancelledError:
                            done.append((wid, "canc", now_units(loop), t0))
                            raise
                        except BaseException as e:  # noqa: BLE001
                            out = "other:" + type(e).__name__
                        done.append((wid, out, now_units(loop), t0))
                    waiters[wid] = asyncio.ensure_future(w())
                elif k == "c":
                    t = waiters.get(int(f[1]))
                    if t is not None and not t.done():
                        harness_cancelled.add(int(f[1]))
                        t.cancel()
                elif k == "s":
                    p._async_description_update(p.description)
                elif k == "d":
                    p._async_description_update(description([int(x) for x in f[1].split(",")]))
                elif k in ("x", "X"):
                    async def closer(k=k):
                        try:
                            await (p.close() if k == "x" else p.shutdown())
                        except BaseException as e:  # noqa: BLE001
                            close_raised.append(type(e).__name__)
                    if k == "X":
                        seen_shutdown = True
                    await asyncio.ensure_future(closer())
                elif k == "p":
                    c = int(f[1])
                    if c < len(net.transports) and net.transports[c] in net.open:
                        net.transports[c].peer_close()
                elif k == "t":
                    net.connect_outcomes.append({"r": "refused", "t": "timeout"}.get(f[1]) or ("ok", int(f[2])))
                elif k == "v":
                    acc.verify_mode.append(f[2] if len(f) > 2 else {"ok": "ok", "wr": "wrongid", "au": "err22", "fa": "err17", "ha": "hang", "ol": "oksubdrop"}[f[1]])
                else:
                    raise ValueError("bad event " + ev)
                await settle(loop)
                sim.model_events.append(mtok)
                # ---- observation
                new = raw_attempts[n_att:]
                n_att = len(raw_attempts)
                parts = [f"A{t}@{','.join(str(h) for h in hs)}" for t, hs in new]
                fin = sorted(done)
                del done[:]
                parts += [f"W{i}={o}@{t}" for i, o, t, _ in fin]
                op = sorted(t.index for t in net.open)
                cur = conn.transport.index if conn.transport is not None else "-"
                c = conn._connector
                if c is None:
                    cs = "none"
                elif not c.done():
                    cs = "live"
                elif c.cancelled():
                    cs = "canc"
                elif c.exception() is not None:
                    cs = "auth" if isinstance(c.exception(), AuthenticationError) else "exc:" + type(c.exception()).__name__
                else:
                    cs = "done"
                live = sum(1 for t in asyncio.all_tasks(loop) if not t.done() and getattr(t.get_coro(), "__qualname__", "").endswith("._reconnect"))
                failed = sorted(hidx(h) for h in conn._pair_verify_failed_hosts)
                line = (" ".join(parts) + " | " + f"open={','.join(map(str, op)) or '-'} cur={cur} conn={cs} live={live} con={1 if p.is_connected else 0} "
                        f"failed={','.join(map(str, failed)) or '-'} t={now_units(loop)}")
                sim.lines.append(line)
                # ---- implementation-level oracles (independent of the model)
                if len(op) > 1:
                    problems.append(("more-than-one-open", f"after {ev}: the accessory sees connections {op} open at once"))
                if op and (cur == "-" or op != [cur]):
                    problems.append(("leaked-connection", f"after {ev}: connection(s) {op} open but the pairing's current connection is {cur}"))
                if live > 1 or net.max_in_flight > 1:
                    problems.append(("two-connectors", f"after {ev}: {live} connector tasks alive, {net.max_in_flight} connects in flight"))
                if close_raised:
                    problems.append(("close-raised", f"{'shutdown' if k == 'X' else 'close'}() raised {close_raised[0]}"))
                    del close_raised[:]
                if k in ("x", "X"):
                    quiet = True
                elif k in ("e", "s", "d") and not seen_shutdown:
                    quiet = False
                if k in ("x", "X") and op:
                    problems.append(("open-after-close", f"after {ev}: connection(s) {op} still open"))
                elif quiet and (op or new):
                    what = f"connection(s) {op} open" if op else f"connection attempt(s) {new}"
                    problems.append(("open-after-close", f"after {ev}: {what} although the pairing was {'shut down' if seen_shutdown else 'closed'} and nothing has asked for a connection since"))
                if new and conn_before is not None and conn_before in net.open:
                    # C10: retries end by success - a connector that keeps connecting although the session it set up is alive
                    problems.append(("attempt-while-connected", f"after {ev}: connection attempt(s) {new} although the pairing was connected (connection {conn_before.index}) and that connection was never lost"))
                if seen_shutdown and new:
                    problems.append(("attempt-after-shutdown", f"after {ev}: connection attempt(s) {new} after shutdown()"))
                for i, o, t, t0 in fin:
                    if o.startswith("other"):
                        problems.append(("waiter-wrong-error", f"waiting caller {i} got {o[6:]} instead of a disconnection or authentication error"))
                    if o == "canc" and i not in harness_cancelled:
                        problems.append(("waiter-wrong-error", f"waiting caller {i} got a bare CancelledError although nobody cancelled it (after {ev})"))
                    if t - t0 > 10 * UNIT:
                        problems.append(("waiter-unbounded", f"waiting caller {i} waited {(t - t0) / UNIT:.3f} s"))
                if net.errors:
                    problems.append(("callback-raised", f"after {ev}: {net.errors[0]}"))
                    del net.errors[:]
                # C10: retries end only by success, authentication failure or close
                if not conn.closing and cs in ("done", "canc") and not p.is_connected:
                    problems.append(("retries-ended", f"after {ev}: connector finished ({cs}), pairing not connected, close() not called - nothing will retry"))
                if cs.startswith("exc:"):
                    problems.append(("retries-ended", f"after {ev}: connector died with {cs[4:]}"))
                # C10: no busy loop - attempts at one instant are bounded by the address list (the longer of the lists in
                # force before and after this event: a zeroconf update may have replaced it while attempts were under way)
                H = max(len(conn.hosts), len(hosts_before), 1)
                bound = H * H + H + (H * H + H if list(conn.hosts) != hosts_before else 0)  # one round per list in force
                by_t = {}
                for t, hs in new:
                    by_t[t] = by_t.get(t, 0) + 1
                for t, n_at in by_t.items():
                    if n_at > bound:
                        problems.append(("busy-loop", f"after {ev}: {n_at} connection attempts at the same instant t={t / UNIT:.3f}s with {H} addresses"))
                ts = sorted(by_t)
                if k == "a":
                    for t1, t2 in zip(ts, ts[1:]):
                        if t2 - t1 < 6144:
                            problems.append(("backoff-too-short", f"after {ev}: attempts at {t1 / UNIT:.4f}s and {t2 / UNIT:.4f}s with no trigger in between"))
                        if t2 - t1 > 90 * UNIT:
                            problems.append(("backoff-too-long", f"after {ev}: {((t2 - t1) / UNIT):.1f}s between consecutive attempts"))
                if new:
                    last_attempt = new[-1][0]
                # C10: an immediate retry only moves on to another address - never the same one again at the same instant
                new_open = opened[n_open:]
                n_open = len(opened)
                seen_at = {}
                for t, h, adv in new_open:
                    if h in seen_at.get((t, adv), ()):
                        problems.append(("immediate-retry-same-address", f"after {ev}: address {h} was connected to twice at the same instant t={t / UNIT:.3f}s under the same advertised list (no back-off in between)"))
                    seen_at.setdefault((t, adv), set()).add(h)
                # C10: no advertised address is excluded forever
                if k in ("x", "X", "d"):
                    groups = []
                for t, hs in new:
                    if groups and groups[-1][0] == t:
                        groups[-1][1].update(hs)
                    else:
                        groups.append((t, set(hs)))
                if cs != "live":
                    groups = []
                else:
                    # the reference is what zeroconf advertises now, not the list the connection happens to hold: an address
                    # that was only ADDED to the advertisement must be tried as well
                    desc = getattr(p, "description", None)
                    adv_idx = sorted(set(hidx(h) for h in (desc.addresses if desc is not None and desc.addresses else conn.hosts)))
                    Ha = max(len(adv_idx), H)
                    if len(groups) >= Ha + 1:
                        seen_h = set().union(*(g[1] for g in groups[-(Ha + 1):]))
                        missing = sorted(set(adv_idx) - seen_h)
                        if missing:
                            problems.append(("address-excluded", f"after {ev}: advertised address(es) {missing} not tried in the last {Ha + 1} rounds of attempts ({[sorted(g[1]) for g in groups[-(Ha + 1):]]})"))
                if cs == "live" and last_attempt is not None and now_units(loop) - last_attempt > 90 * UNIT:
                    problems.append(("backoff-too-long", f"after {ev}: connector running but no attempt for {((now_units(loop) - last_attempt) / UNIT):.1f}s"))
            sim.attempts = raw_attempts
            sim.stats = {"connections": len(net.transports), "attempts": len(raw_attempts), "virtual_seconds": now_units(loop) / UNIT}
            # leave nothing behind
            for t in waiters.values():
                t.cancel()
            try:
                await p.shutdown()
            except BaseException:  # noqa: BLE001
                pass
            await settle(loop)
        finally:
            simnet.FakeTransport._lost = orig_lost


# --------------------------------------------------------------------------- generators

U = UNIT
VER_CLASSES = ["ok", "wr", "au", "fa", "ha", "ol"]


def ver_token(c, rng):
    mode = {"ok": "ok", "wr": "wrongid", "au": rng.choice(AUTH_MODES), "fa": rng.choice(FAIL_MODES), "ha": "hang", "ol": "oksubdrop"}[c]
    return f"v:{c}:{mode}"


def gen_fault_sequences(rng, max_len, n_hosts=(1, 2, 3), sample=None):
    """every sequence of pair-verify outcome classes up to max_len, with a fixed driving schedule"""
    import itertools
    out = []
    tails = [["e:1:-", f"a:{U // 2}", f"a:{2 * U}", "e:2:-", f"a:{40 * U}", f"a:{100 * U}", "x"],
             ["s", f"a:{U}", f"a:{35 * U}", "e:1:24577", f"a:{200 * U}", "p:0", "p:1", "p:2", f"a:{U}", "X"]]
    seqs = [seq for L in range(0, max_len + 1) for seq in itertools.product(VER_CLASSES, repeat=L)]
    if sample is not None and len(seqs) > sample:
        seqs = rng.sample(seqs, sample)
    for seq in seqs:
        H = rng.choice(n_hosts)
        hosts = list(range(1, H + 1))
        pre = []
        r = rng.random()
        if r < 0.25:
            pre = ["t:r"]
        elif r < 0.4:
            pre = ["t:t"]
        elif r < 0.6:
            pre = [f"t:o:{rng.randrange(0, 3)}" for _ in range(len(seq))]
        evs = pre + [ver_token(c, rng) for c in seq] + rng.choice(tails)
        out.append((hosts, evs))
    return out


def gen_schedules(rng, depth, scripts=None, sample=None):
    """every schedule of external events up to `depth` after a fixed fault script"""
    import itertools
    alpha = ["e:_:-", f"a:{3 * U // 4}", f"a:{12 * U}", "s", "x", "p:_", "d:2,3", "X", "e:_:24577", "c:_", "j", "h"]
    scripts = scripts or [(["v:fa:err17", "v:wr:wrongid", "v:ha:hang"], [1, 2]), (["t:t", "v:au:err22"], [1]), (["v:wr:wrongid", "v:wr:wrongid", "t:o:0", "t:o:0", "t:r"], [1, 2, 3])]
    out = []
    seqs = [seq for d in range(1, depth + 1) for seq in itertools.product(alpha, repeat=d)]
    if sample is not None and len(seqs) > sample:
        seqs = rng.sample(seqs, sample)
    for seq in seqs:
        script, hosts = scripts[rng.randrange(len(scripts))]
        evs = list(script)
        wid = 0
        nconn_guess = 0
        for a in seq:
            if a.startswith("e:_"):
                wid += 1
                evs.append(a.replace("_", str(wid)))
            elif a == "c:_":
                evs.append(f"c:{max(wid, 1)}")
            elif a == "p:_":
                evs.append(f"p:{rng.randrange(0, 4)}")
            else:
                evs.append(a)
        out.append((list(hosts), evs))
    return out


def gen_random(rng, long_run=False):
    H = rng.randrange(1, 4)
    hosts = list(range(1, H + 1))
    evs = []
    for _ in range(rng.randrange(0, 6)):
        r = rng.random()
        evs.append("t:r" if r < 0.3 else "t:t" if r < 0.45 else "t:o:%d" % rng.randrange(0, 3))
    nver = rng.randrange(0, 7) if not long_run else rng.randrange(10, 30)
    for _ in range(nver):
        c = rng.choice(["ok", "wr", "wr", "au", "fa", "fa", "ha", "ol"]) if not long_run else rng.choice(["fa", "fa", "fa", "wr", "ha", "fa", "ol"])
        evs.append(ver_token(c, rng))
    wid = 0
    for _ in range(rng.randrange(3, 25)):
        r = rng.random()
        if r < 0.3:
            evs.append("a:%d" % rng.choice([2, U // 2, U, 3 * U // 4, 2 * U, 10 * U, 12 * U, 31 * U, 70 * U, 6144, 9216] + ([600 * U, 1800 * U] if long_run else [])))
        elif r < 0.5:
            wid += 1
            evs.append("e:%d:%s" % (wid, rng.choice(["-", "-", "-", str(3 * U + 1), str(7 * U + 1)])))
        elif r < 0.56 and wid:
            evs.append("c:%d" % rng.randrange(1, wid + 1))
        elif r < 0.66:
            evs.append("s")
        elif r < 0.72:
            evs.append("d:" + ",".join(map(str, rng.sample([1, 2, 3, 4], rng.randrange(1, 4)))))
        elif r < 0.8:
            evs.append("x")
        elif r < 0.82:
            evs.append("X")
        elif r < 0.9:
            evs.append("p:%d" % rng.randrange(0, 6))
        elif r < 0.94:
            evs.append(rng.choice(["j", "h"]))
        else:
            evs.append(ver_token(rng.choice(VER_CLASSES), rng))
    return hosts, evs


def shrink(hosts, events, still_fails):
    """greedy removal of events while the failure persists"""
    evs = list(events)
    i = 0
    budget = 400
    while i < len(evs) and budget > 0:
        cand = evs[:i] + evs[i + 1:]
        budget -= 1
        try:
            if still_fails(hosts, cand):
                evs = cand
                continue
        except Exception:  # noqa: BLE001
            pass
        i += 1
    return evs
