"""Shared engine for C10 / C11: runs one scenario (address list + event tokens) against the real, unpatched
IpPairing / SecureHomeKitConnection under simnet with the scaffold accessory, and renders after every event the
same observation line the Lean model (`rc.run`) prints.

event tokens (python side; the third field of `v:` is the concrete accessory mode, dropped for the model):
  a:<dt>          advance virtual time by dt units of 1/8192 s
  e:<id>:<own|->  a caller enters IpPairing._ensure_connected (own = its own timeout in units)
  c:<id>          that caller is cancelled
  s               zeroconf sees the device again (IpPairing._async_description_update with the current description)
  d:<h,h,..>      zeroconf update carrying an address list
  x / X           IpPairing.close() / shutdown()
  p:<c>           the accessory closes connection c
  t:r | t:t | t:o:<k>        script the next TCP connect: refused / timeout / ok to the k-th target
  v:<class>:<mode>           script the next pair-verify: class ok|wr|au|fa|ha, mode = accessory behaviour
  g:<id>          a caller enters a public request that needs the connection (IpPairing.get_characteristics)
  A+B(+C)         composite event: the actions are issued back-to-back in ONE event-loop iteration (each as a task / a
                  call_soon callback, in this order) and only then is the loop run to quiescence; a part `.` lets one bare
                  loop iteration pass between two actions.  Parts: e g c s d x X p.  The Lean model has no such event: a
                  history is compared with the model only up to its first composite event.

pairing-record variants (`record=` of run_scenario, table RECORDS): the stored pairing data is damaged / altered the way a
hand-edited or half-written pairing file is, so that the secure-session setup fails with each exception class at each local
step (or, for the benign variants, must still succeed).
"""
from __future__ import annotations

import asyncio
import random
from unittest.mock import MagicMock

from harness import simnet
from harness.acc import Accessory, http

from aiohomekit.characteristic_cache import CharacteristicCacheMemory
from aiohomekit.controller.ip.pairing import IpPairing
from aiohomekit.exceptions import AccessoryDisconnectedError, AuthenticationError
from aiohomekit.model.categories import Categories
from aiohomekit.model.feature_flags import FeatureFlags
from aiohomekit.model.status_flags import StatusFlags
from aiohomekit.zeroconf import HomeKitService

UNIT = 8192
FAIL_MODES = ["badsig", "err11", "err13", "err14", "err15", "err16", "err17", "err21", "err23", "err27", "close1", "close2", "reset1", "reset2", "reset1", "reset2", "http470", "exc"]
AUTH_MODES = ["err12", "err22"]


FAMILY = {"v": "v4"}  # address family used for the scenario being run (set by run_scenario)


def host(i):
    """the i-th advertised address, as zeroconf / the pairing record spell it"""
    if FAMILY["v"] == "v6":
        # scoped link-local with zero compression and mixed case, as mDNS delivers them
        return f"fe80::AB:{i:x}%eth0"
    return f"10.0.0.{i}"


def peer_name(h):
    """how the connected socket reports the same address (getpeername): expanded, lower case, no scope id"""
    if ":" in h:
        import ipaddress
        return ipaddress.ip_address(h.partition("%")[0]).exploded
    return h


def hidx(h):
    if ":" in h:
        import ipaddress
        return int(ipaddress.ip_address(h.partition("%")[0])) & 0xFFFF
    return int(h.rsplit(".", 1)[1])


def model_token(tok):
    p = tok.split(":")
    if p[0] == "v":
        return "v:" + p[1]
    return tok


def model_line(hosts, events):
    return "rc.run " + ",".join(str(h) for h in hosts) + " " + " ".join(model_token(e) for e in events)


def model_line_of(hosts, sim):
    return "rc.run " + ",".join(str(h) for h in hosts) + " " + " ".join(sim.model_events)


# --------------------------------------------------------------------------- pairing-record variants
# name -> (local step of the controller's pair-verify at which this record makes the exchange fail, class of that failure
#          for the model: fa = any exception raised at once, wr = wrong pairing id, au = authentication error; None = the
#          record is as good as the original and the session must come up as usual)
# steps (HAP 5.7.2 / 5.7.4, controller side): 5 compare the accessory's pairing id, 6 load the accessory's LTPK and check the
# signature, 7 build iOSDeviceInfo, 8 load the controller's LTSK and sign, 9 = M3 is sent and an honest accessory rejects it.
RECORDS = {
    "ltsk-short": (8, "fa"), "ltsk-long": (8, "fa"), "ltsk-odd": (8, "fa"), "ltsk-nothex": (8, "fa"), "ltsk-empty": (8, "fa"),
    "ltsk-missing": (8, "fa"), "ltsk-none": (8, "fa"), "ltsk-other": (9, "au"),
    "ltpk-short": (6, "fa"), "ltpk-long": (6, "fa"), "ltpk-odd": (6, "fa"), "ltpk-nothex": (6, "fa"), "ltpk-missing": (6, "fa"),
    "ltpk-none": (6, "fa"), "ltpk-other": (6, "fa"),
    "iosid-missing": (7, "fa"), "iosid-none": (7, "fa"), "iosid-other": (9, "au"),
    "accid-other": (5, "wr"),
    "hex-upper": (None, None), "hex-spaced": (None, None), "no-ios-ltpk": (None, None), "extra-keys": (None, None),
}


def mutate_record(pd, name, rnd):
    """the pairing record `pd` (a dict as stored in the pairing file) altered as variant `name`"""
    pd = dict(pd)
    if name is None:
        return pd
    what, _, how = name.partition("-")
    key = {"ltsk": "iOSDeviceLTSK", "ltpk": "AccessoryLTPK", "iosid": "iOSPairingId", "accid": "AccessoryPairingID"}.get(what)
    if name == "hex-upper":
        pd["iOSDeviceLTSK"] = pd["iOSDeviceLTSK"].upper()
        pd["AccessoryLTPK"] = pd["AccessoryLTPK"].upper()
    elif name == "hex-spaced":
        # bytes.fromhex skips ASCII whitespace: a record that was pretty-printed by hand still parses
        pd["iOSDeviceLTSK"] = " ".join(pd["iOSDeviceLTSK"][i:i + 2] for i in range(0, 64, 2))
        pd["AccessoryLTPK"] = pd["AccessoryLTPK"][:32] + " " + pd["AccessoryLTPK"][32:]
    elif name == "no-ios-ltpk":
        pd.pop("iOSDeviceLTPK", None)
    elif name == "extra-keys":
        pd["AccessoryName"] = "acc"
        pd["iOSDeviceLTPK"] = pd["iOSDeviceLTPK"].upper()
    elif how == "short":
        pd[key] = pd[key][:-2]
    elif how == "long":
        pd[key] = pd[key] + "00"
    elif how == "odd":
        pd[key] = pd[key][:-1]
    elif how == "nothex":
        pd[key] = pd[key][:10] + "zz" + pd[key][12:]
    elif how == "empty":
        pd[key] = ""
    elif how == "missing":
        del pd[key]
    elif how == "none":
        pd[key] = None
    elif how == "other":
        if what in ("ltsk", "ltpk"):
            pd[key] = bytes(rnd.randrange(256) for _ in range(32)).hex()  # a well-formed key, but not the one that was paired
        elif what == "iosid":
            pd[key] = "ctrl-2"
        else:
            pd[key] = "12:34:56:00:01:0B"
    else:
        raise ValueError("unknown pairing-record variant " + name)
    return pd


def _acc_stage(mode):
    """the local step of the controller at which the accessory behaviour `mode` makes the exchange fail"""
    if mode == "hang":
        return 1
    if mode in ("close1", "reset1", "http470", "exc") or mode.startswith("err1"):
        return 2
    if mode == "wrongid":
        return 5
    if mode == "badsig":
        return 6.5
    if mode in ("close2", "reset2") or mode.startswith("err2"):
        return 8.5
    return 99


def effective_class(record, cls, mode):
    """the class of the pair-verify result when the accessory behaves as `mode` (scripted class `cls`) and the controller
    holds pairing record `record`: whichever of the two goes wrong first decides"""
    stage, rcls = RECORDS.get(record, (None, None)) if record else (None, None)
    if stage is None or _acc_stage(mode) <= stage:
        return cls
    return rcls


def description(hosts):
    return HomeKitService(name="acc", id="12:34:56:00:01:0A", model="m", feature_flags=FeatureFlags(0), status_flags=StatusFlags(0), config_num=0, state_num=1,
                          category=Categories.LIGHTBULB, protocol_version="1.1", type="_hap._tcp.local.", address=host(hosts[0]), addresses=[host(h) for h in hosts], port=80)


async def settle(loop):
    """run the loop until nothing is ready at the current virtual instant"""
    for _ in range(10000):
        await asyncio.sleep(0)
        if loop._ready:
            continue
        if loop._scheduled and not loop._scheduled[0]._cancelled and loop._scheduled[0]._when <= loop.time():
            continue
        # a cancelled head may hide a due timer; let one more iteration clean it up
        if loop._scheduled and loop._scheduled[0]._cancelled:
            live = [h for h in loop._scheduled if not h._cancelled and h._when <= loop.time()]
            if live:
                continue
        return
    raise RuntimeError("event loop does not settle")


class Sim:
    """result of one scenario"""

    def __init__(self):
        self.lines = []          # per event: observation line
        self.problems = []       # (signature, text) found by the implementation-level oracles
        self.attempts = []       # (units, [host idx])
        self.model_events = []   # the events as the model is given them (some harness events map to a model event decided at run time)
        self.stats = {}
        self.model_upto = None   # the history can be compared with the model only up to this event index (None = all of it)


def _run(hosts, events, seed, subs=None, family="v4", record=None):
    FAMILY["v"] = family
    loop = simnet.VLoop()
    asyncio.set_event_loop(loop)
    sim = Sim()
    try:
        loop.run_until_complete(_scenario(loop, sim, hosts, events, seed, record))
    except RuntimeError as e:
        if str(e) != "event loop does not settle" or not (record is not None or any("+" in ev or ev.startswith("g:") for ev in events)):
            raise
        # (new streams only) the library keeps the loop busy without time passing: that is the busy loop C10 excludes, not a harness error
        sim.problems.append(("busy-loop", f"after {events[len(sim.lines)] if len(sim.lines) < len(events) else '?'}: the event loop does not come to rest at t={loop.time():.3f}s (10000 iterations without quiescence)"))
        if sim.model_upto is None:
            sim.model_upto = len(sim.lines)
    finally:
        try:
            pend = [t for t in asyncio.all_tasks(loop) if not t.done()]
            for t in pend:
                t.cancel()
            if pend:
                loop.run_until_complete(asyncio.gather(*pend, return_exceptions=True))
        finally:
            asyncio.set_event_loop(None)
            loop.close()
    return sim


def run_scenario(hosts, events, seed=0, family="v4", record=None):
    return _run(hosts, events, seed, family=family, record=record)


def now_units(loop):
    u = loop.time() * UNIT
    return int(round(u))


async def _scenario(loop, sim, hosts, events, seed, record=None):
    rnd = random.Random(seed)
    net = simnet.Net(loop)
    acc = Accessory(loop, net, lambda n: bytes(rnd.randrange(256) for _ in range(n)))
    unscripted = []  # connections whose pair-verify behaviour was not scripted (the accessory's default: an honest exchange)
    orig_on_connect = net.on_connect

    def on_connect(t):
        if not acc.verify_mode:
            unscripted.append(t.index)
        orig_on_connect(t)
    net.on_connect = on_connect
    # single connector AT ANY TIME, not only at quiescence: the task factory sees every connector task the library creates
    connectors = []
    overlaps = []

    def task_factory(loop_, coro, **kw):
        t = asyncio.Task(coro, loop=loop_, **kw)
        if getattr(coro, "__qualname__", "").endswith("._reconnect"):
            alive = [c for c in connectors if not c.done()]
            if alive:
                overlaps.append((now_units(loop), len(alive) + 1))
            connectors[:] = alive + [t]
        return t
    loop.set_task_factory(task_factory)
    raw_attempts = []
    orig_start = net.start_connection

    async def start_connection(addr_infos, **kw):
        raw_attempts.append((now_units(loop), [hidx(a[3]) for a in addr_infos]))
        sock = await orig_start(addr_infos, **kw)
        sock.host = peer_name(sock.host)
        return sock
    net.start_connection = start_connection
    opened = []  # (units, host idx, advertised list) of every TCP connection that was established
    conn_ref = []
    orig_create = net.create_connection

    async def create_connection(factory, sock=None, **kw):
        # remember under which advertised address list the connection was made: a zeroconf update that changes the
        # list legitimately resets the exclusions ("host change clears exclusions"), so only repeats under the SAME
        # list count as "the same address again"
        opened.append((now_units(loop), hidx(sock.host), tuple(sorted(conn_ref[0].hosts)) if conn_ref else ()))
        return await orig_create(factory, sock=sock, **kw)
    net.create_connection = create_connection
    # stale-loss oracle: the loss of a transport that is not the current one must leave the current one alone
    ctrl = MagicMock()
    ctrl._char_cache = CharacteristicCacheMemory()
    waiters = {}
    done = []  # (id, outcome, units)
    close_raised = []
    problems = sim.problems
    with net.patched():
        try:
            p = IpPairing(ctrl, mutate_record(acc.pairing_data([host(h) for h in hosts]), record, random.Random(seed ^ 0x5EED)))
        except Exception as e:  # noqa: BLE001
            if record is None:
                raise
            # the library refuses the damaged record outright: no pairing exists, nothing can be opened or leaked
            sim.stats = {"record_refused": type(e).__name__}
            sim.model_upto = 0
            return
        conn = p.connection
        conn_ref.append(conn)
        # the caller subscribed to something in an earlier session: every new session re-subscribes inside connection_made,
        # i.e. while the connector task is still running
        p.subscriptions.add((1, 9))
        orig_lost = simnet.FakeTransport._lost

        def lost_hook(t, exc, _orig=orig_lost):
            cur = conn.transport
            was_closing = cur.closing if cur is not None else None
            _orig(t, exc)
            if cur is not None and cur is not t and not was_closing:
                if cur.closing or conn.transport is not cur:
                    problems.append(("stale-loss-disturbs-current", f"loss of abandoned connection {t.index} closed or replaced the current connection {cur.index}"))
        for tr_cls in (simnet.FakeTransport,):
            tr_cls._lost = lost_hook
        try:
            n_att = 0
            n_open = 0
            seen_shutdown = False
            quiet = False  # the pairing was closed and nothing has asked for a connection since
            last_attempt = None
            harness_cancelled = set()
            groups = []  # (timestamp, set of targeted addresses) while one connector keeps retrying
            # ---- composite events: several actions issued in one loop iteration
            cstate = {"log": None, "att": None}  # execution-order log of the composite under way: T = a caller asks for the connection,
            #                                      Z = zeroconf reports the device, C = close()/shutdown() is called, R = it
            #                                      returned; att = number of attempts seen when the last close returned
            request_callers = set()  # ids of callers that went through a public request (their wait is not the bare 10 s)
            had_composite = False

            async def caller(wid, own, kind):
                t0 = now_units(loop)
                if cstate["log"] is not None:
                    cstate["log"].append("T")
                try:
                    coro = p._ensure_connected() if kind == "e" else p.get_characteristics([(1, 9)])
                    if own is None:
                        await coro
                    else:
                        await asyncio.wait_for(coro, own)
                    out = "ok"
                except asyncio.TimeoutError:
                    out = "own"
                except AccessoryDisconnectedError:
                    out = "disc"
                except AuthenticationError:
                    out = "auth"
                except asyncio.CancelledError:
                    done.append((wid, "canc", now_units(loop), t0))
                    raise
                except BaseException as e:  # noqa: BLE001
                    out = "other:" + type(e).__name__
                done.append((wid, out, now_units(loop), t0))

            async def closer2(kind):
                nonlocal seen_shutdown
                if cstate["log"] is not None:
                    cstate["log"].append("C")
                if kind == "X":
                    seen_shutdown = True
                try:
                    await (p.close() if kind == "x" else p.shutdown())
                except BaseException as e:  # noqa: BLE001
                    close_raised.append(type(e).__name__)
                if cstate["log"] is not None:
                    cstate["log"].append("R")
                    cstate["att"] = len(raw_attempts)

            def sync_action(part):
                g_ = part.split(":")
                if g_[0] == "c":
                    t_ = waiters.get(int(g_[1]))
                    if t_ is not None and not t_.done():
                        harness_cancelled.add(int(g_[1]))
                        t_.cancel()
                elif g_[0] in ("s", "d"):
                    new_desc = p.description if g_[0] == "s" else description([int(x) for x in g_[1].split(",")])
                    cstate["log"].append("Z")
                    try:
                        p._async_description_update(new_desc)
                    except Exception as e:  # noqa: BLE001
                        problems.append(("update-raised", f"the zeroconf update {part} (part of a composite event) raised {type(e).__name__}: {e}"))
                elif g_[0] == "p":
                    c_ = int(g_[1])
                    if c_ < len(net.transports) and net.transports[c_] in net.open:
                        net.transports[c_].peer_close()

            for ei, ev in enumerate(events):
                hosts_before = list(conn.hosts)
                conn_before = conn.transport if p.is_connected else None  # the healthy session at the start of this event
                f = ev.split(":")
                k = f[0]
                mtok = model_token(ev)
                comp = None
                if "+" in ev or k == "g":
                    # no model event corresponds to this: the model is consulted on the history before it only
                    if sim.model_upto is None:
                        sim.model_upto = ei
                    had_composite = True
                    k = "+"
                    comp = {"parts": ev.split("+"), "log": []}
                    cstate["log"] = comp["log"]
                    cstate["att"] = None
                    for part in comp["parts"]:
                        g_ = part.split(":")
                        if g_[0] not in (".", "e", "g", "x", "X", "c", "s", "d", "p"):
                            raise ValueError("bad part of a composite event: " + part)
                        if part == ".":
                            await asyncio.sleep(0)  # one bare loop iteration: whatever was issued so far takes its first step
                        elif g_[0] in ("e", "g"):
                            own_ = None if (len(g_) < 3 or g_[2] == "-") else int(g_[2]) / UNIT
                            if g_[0] == "g":
                                request_callers.add(int(g_[1]))
                            waiters[int(g_[1])] = asyncio.ensure_future(caller(int(g_[1]), own_, g_[0]))
                        elif g_[0] in ("x", "X"):
                            asyncio.ensure_future(closer2(g_[0]))
                        else:
                            loop.call_soon(sync_action, part)
                elif k in ("j", "h"):
                    # an established session gets a reply that makes the request layer give the connection up: malformed JSON to
                    # a JSON PUT (j) or an HTTP 470 to a TLV POST outside pair-verify (h).  For the supervisor this is the loss
                    # of the current connection: it must be followed by a new attempt like any other loss.
                    cur_t = conn.transport
                    if p.is_connected and cur_t is not None:
                        mtok = f"p:{cur_t.index}"
                        if k == "j":
                            acc.responder = lambda s_, m_, t_, b_: http(b'{"characteristics": [', b"application/hap+json")
                            coro = conn.put_json("/characteristics", {"characteristics": [{"aid": 1, "iid": 9, "ev": True}]})
                        else:
                            acc.responder = lambda s_, m_, t_, b_: http(b"\x06\x01\x02\x07\x01\x02", code=b"470 Connection Authorization Required")
                            coro = conn.post_tlv("/pairings", [(6, b"\x01")])
                        try:
                            await coro
                        except AccessoryDisconnectedError:
                            pass
                        except Exception as e:  # noqa: BLE001
                            problems.append(("request-error-wrong-exception", f"after {ev}: the request raised {type(e).__name__}"))
                        acc.responder = None
                    else:
                        mtok = "p:9999"
                elif k == "a":
                    await asyncio.sleep(int(f[1]) / UNIT)
                elif k == "e":
                    wid = int(f[1])
                    own = None if f[2] == "-" else int(f[2]) / UNIT

                    async def w(wid=wid, own=own):
                        t0 = now_units(loop)
                        try:
                            if own is None:
                                await p._ensure_connected()
                            else:
                                await asyncio.wait_for(p._ensure_connected(), own)
                            out = "ok"
                        except asyncio.TimeoutError:
                            out = "own"
                        except AccessoryDisconnectedError:
                            out = "disc"
                        except AuthenticationError:
                            out = "auth"
                        except asyncio.CancelledError:
                            done.append((wid, "canc", now_units(loop), t0))
                            raise
                        except BaseException as e:  # noqa: BLE001
                            out = "other:" + type(e).__name__
                        done.append((wid, out, now_units(loop), t0))
                    waiters[wid] = asyncio.ensure_future(w())
                elif k == "c":
                    t = waiters.get(int(f[1]))
                    if t is not None and not t.done():
                        harness_cancelled.add(int(f[1]))
                        t.cancel()
                elif k == "s":
                    p._async_description_update(p.description)
                elif k == "d":
                    p._async_description_update(description([int(x) for x in f[1].split(",")]))
                elif k in ("x", "X"):
                    async def closer(k=k):
                        try:
                            await (p.close() if k == "x" else p.shutdown())
                        except BaseException as e:  # noqa: BLE001
                            close_raised.append(type(e).__name__)
                    if k == "X":
                        seen_shutdown = True
                    await asyncio.ensure_future(closer())
                elif k == "p":
                    c = int(f[1])
                    if c < len(net.transports) and net.transports[c] in net.open:
                        net.transports[c].peer_close()
                elif k == "t":
                    net.connect_outcomes.append({"r": "refused", "t": "timeout"}.get(f[1]) or ("ok", int(f[2])))
                elif k == "v":
                    acc.verify_mode.append(f[2] if len(f) > 2 else {"ok": "ok", "wr": "wrongid", "au": "err22", "fa": "err17", "ha": "hang", "ol": "oksubdrop"}[f[1]])
                    if record is not None:
                        # what the model is told is the class that results from the accessory's behaviour AND the controller's record
                        mtok = "v:" + effective_class(record, f[1], acc.verify_mode[-1])
                else:
                    raise ValueError("bad event " + ev)
                await settle(loop)
                if unscripted and RECORDS.get(record, (None, None))[0] is not None and sim.model_upto is None:
                    # a connection used the accessory's default behaviour, which the model takes for a successful pair-verify;
                    # with this record it is not
                    sim.model_upto = ei
                sim.model_events.append(mtok)
                # ---- observation
                new = raw_attempts[n_att:]
                n_att = len(raw_attempts)
                parts = [f"A{t}@{','.join(str(h) for h in hs)}" for t, hs in new]
                fin = sorted(done)
                del done[:]
                parts += [f"W{i}={o}@{t}" for i, o, t, _ in fin]
                op = sorted(t.index for t in net.open)
                cur = conn.transport.index if conn.transport is not None else "-"
                c = conn._connector
                if c is None:
                    cs = "none"
                elif not c.done():
                    cs = "live"
                elif c.cancelled():
                    cs = "canc"
                elif c.exception() is not None:
                    cs = "auth" if isinstance(c.exception(), AuthenticationError) else "exc:" + type(c.exception()).__name__
                else:
                    cs = "done"
                live = sum(1 for t in asyncio.all_tasks(loop) if not t.done() and getattr(t.get_coro(), "__qualname__", "").endswith("._reconnect"))
                failed = sorted(hidx(h) for h in conn._pair_verify_failed_hosts)
                line = (" ".join(parts) + " | " + f"open={','.join(map(str, op)) or '-'} cur={cur} conn={cs} live={live} con={1 if p.is_connected else 0} "
                        f"failed={','.join(map(str, failed)) or '-'} t={now_units(loop)}")
                sim.lines.append(line)
                # ---- implementation-level oracles (independent of the model)
                if len(op) > 1:
                    problems.append(("more-than-one-open", f"after {ev}: the accessory sees connections {op} open at once"))
                if op and (cur == "-" or op != [cur]):
                    problems.append(("leaked-connection", f"after {ev}: connection(s) {op} open but the pairing's current connection is {cur}"))
                for t_ in net.open:
                    # C11: a connection whose secure-session setup failed is closed by the controller - seen from the accessory: at
                    # quiescence an open connection either carries an established session or the accessory still owes an answer on it
                    s_ = acc.sessions.get(t_)
                    if s_ is not None and not s_.secure and not (s_.mode == "hang" and s_.step >= 1):
                        problems.append(("setup-failed-left-open", f"after {ev}: connection {t_.index} is still open although no secure session came up on it and the accessory owes no answer "
                                         f"(pair-verify requests it received: {s_.step}, its behaviour: {s_.mode})"))
                if live > 1 or net.max_in_flight > 1:
                    problems.append(("two-connectors", f"after {ev}: {live} connector tasks alive, {net.max_in_flight} connects in flight"))
                if overlaps:
                    # C10: a single connector at any time - seen at the moment the library creates the task, not only at quiescence
                    problems.append(("two-connectors", f"after {ev}: a new connector task was started at t={overlaps[0][0] / UNIT:.3f}s while an earlier one had not finished ({overlaps[0][1]} alive at once)"))
                    del overlaps[:]
                if close_raised:
                    problems.append(("close-raised", f"{'shutdown' if (k == 'X' or (comp is not None and 'X' in comp['parts'] and 'x' not in comp['parts'])) else 'close'}() raised {close_raised[0]}"))
                    del close_raised[:]
                shutdown_before = seen_shutdown and not (k == "X" or (comp is not None and "X" in comp["parts"]))
                new_after = new  # the attempts of this event that were started after its (last) close had returned
                comp_closed = False
                if comp is not None:
                    log = comp["log"]
                    cstate["log"] = None
                    if "C" in log:
                        comp_closed = True
                        if log.count("R") < log.count("C"):
                            problems.append(("close-raised", f"after {ev}: close()/shutdown() had not returned when the event loop went quiet"))
                        # which requests for the connection does the close cover?  A caller's request made before close() was CALLED
                        # is ended by it; one made after every close had RETURNED is a new request; one made while a close was still
                        # in progress is concurrent with it - either order is a correct outcome (the close wins: nothing runs any
                        # more, or the request wins: the pairing is open again) - so nothing is demanded until the history
                        # shows which it was.  A zeroconf update is fire-and-forget: the library may act on it in a background
                        # task (the accessory-list refresh after a new configuration number), so one handed over in the same loop
                        # iteration as the close - even just before it - counts as concurrent too.
                        # shutdown() is irreversible: nothing may follow it in either order.
                        last_c = len(log) - 1 - log[::-1].index("C")
                        state, inprog, z_before, others = True, 0, False, False
                        for i_, it in enumerate(log):
                            if it == "C":
                                inprog += 1
                            elif it == "R":
                                inprog -= 1
                            elif i_ > last_c:
                                others = True
                                if inprog == 0:
                                    state = False
                                elif state is True:
                                    state = None
                            elif it == "Z":
                                z_before = True
                        if z_before and state is True:
                            state = None
                        new_after = raw_attempts[cstate["att"]:] if cstate["att"] is not None else []
                        if state is None and new_after:
                            state = False  # attempts after the close had returned: the concurrent request won
                            if z_before and not others and not seen_shutdown:
                                # noted, not reported (see the comment above)
                                problems.append(("zeroconf-update-outlives-close", f"after {ev}: the zeroconf update was handed over before close() was called, yet connection attempt(s) {new_after} followed after close() had returned"))
                        quiet = True if seen_shutdown else state
                    elif ("T" in log or "Z" in log) and not seen_shutdown:
                        quiet = False
                elif k in ("x", "X"):
                    quiet = True
                elif k in ("e", "s", "d") and not seen_shutdown:
                    quiet = False
                elif quiet is None and new:
                    quiet = False  # the request that was concurrent with the close won: the pairing is open
                if k in ("x", "X") and op:
                    problems.append(("open-after-close", f"after {ev}: connection(s) {op} still open"))
                elif comp_closed and quiet is True and (op or new_after):
                    what = f"connection(s) {op} open" if op else f"connection attempt(s) {new_after} after close() had returned"
                    problems.append(("open-after-close", f"after {ev}: {what} although every request for the connection in this event was made before the {'shutdown' if seen_shutdown else 'close'} was called"))
                    if new_after:
                        problems.append(("attempt-after-close", f"after {ev}: connection attempt(s) {new_after} after close() had returned although every request for the connection in this event was made before the close was called"))
                elif not comp_closed and quiet and (op or new):
                    what = f"connection(s) {op} open" if op else f"connection attempt(s) {new}"
                    problems.append(("open-after-close", f"after {ev}: {what} although the pairing was {'shut down' if seen_shutdown else 'closed'} and nothing has asked for a connection since"))
                    if new:
                        problems.append(("attempt-after-close", f"after {ev}: connection attempt(s) {new} although the pairing was {'shut down' if seen_shutdown else 'closed'} and nothing has asked for a connection since"))
                if new and conn_before is not None and conn_before in net.open:
                    # C10: retries end by success - a connector that keeps connecting although the session it set up is alive
                    problems.append(("attempt-while-connected", f"after {ev}: connection attempt(s) {new} although the pairing was connected (connection {conn_before.index}) and that connection was never lost"))
                if comp is None:
                    if seen_shutdown and new:
                        problems.append(("attempt-after-shutdown", f"after {ev}: connection attempt(s) {new} after shutdown()"))
                elif seen_shutdown and (new if shutdown_before else new_after):
                    problems.append(("attempt-after-shutdown", f"after {ev}: connection attempt(s) {new if shutdown_before else new_after} after shutdown() {'had been called' if shutdown_before else 'had returned'}"))
                for i, o, t, t0 in fin:
                    if o.startswith("other"):
                        if i in request_callers:
                            problems.append(("request-wrong-error", f"the request of caller {i} raised {o[6:]} instead of a disconnection or authentication error (after {ev})"))
                        else:
                            problems.append(("waiter-wrong-error", f"waiting caller {i} got {o[6:]} instead of a disconnection or authentication error"))
                    if o == "canc" and i not in harness_cancelled:
                        problems.append(("waiter-wrong-error", f"waiting caller {i} got a bare CancelledError although nobody cancelled it (after {ev})"))
                    if t - t0 > 10 * UNIT and i not in request_callers:
                        problems.append(("waiter-unbounded", f"waiting caller {i} waited {(t - t0) / UNIT:.3f} s"))
                if net.errors:
                    problems.append(("callback-raised", f"after {ev}: {net.errors[0]}"))
                    del net.errors[:]
                # C10: retries end only by success, authentication failure or close
                # (whether the pairing is closed: the library's flag in plain histories - there it is what the harness did last - ,
                # the harness's own reckoning once composite events made the two differ; nothing is demanded while it is undecided)
                if (not conn.closing if not had_composite else quiet is False) and cs in ("done", "canc") and not p.is_connected:
                    problems.append(("retries-ended", f"after {ev}: connector finished ({cs}), pairing not connected, close() not called - nothing will retry"))
                if cs.startswith("exc:"):
                    problems.append(("retries-ended", f"after {ev}: connector died with {cs[4:]}"))
                # C10: no busy loop - attempts at one instant are bounded by the address list (the longer of the lists in
                # force before and after this event: a zeroconf update may have replaced it while attempts were under way)
                H = max(len(conn.hosts), len(hosts_before), 1)
                bound = H * H + H + (H * H + H if list(conn.hosts) != hosts_before else 0)  # one round per list in force
                if comp is not None:
                    bound *= max(1, comp["log"].count("T") + comp["log"].count("Z"))  # ... and per request for the connection made in this event
                by_t = {}
                for t, hs in new:
                    by_t[t] = by_t.get(t, 0) + 1
                for t, n_at in by_t.items():
                    if n_at > bound:
                        problems.append(("busy-loop", f"after {ev}: {n_at} connection attempts at the same instant t={t / UNIT:.3f}s with {H} addresses"))
                ts = sorted(by_t)
                if k == "a":
                    for t1, t2 in zip(ts, ts[1:]):
                        if t2 - t1 < 6144:
                            problems.append(("backoff-too-short", f"after {ev}: attempts at {t1 / UNIT:.4f}s and {t2 / UNIT:.4f}s with no trigger in between"))
                        if t2 - t1 > 90 * UNIT:
                            problems.append(("backoff-too-long", f"after {ev}: {((t2 - t1) / UNIT):.1f}s between consecutive attempts"))
                if new:
                    last_attempt = new[-1][0]
                # C10: an immediate retry only moves on to another address - never the same one again at the same instant
                new_open = opened[n_open:]
                n_open = len(opened)
                seen_at = {}
                if comp is not None and (comp_closed or comp["log"].count("T") + comp["log"].count("Z") > 1):
                    new_open = []  # a close and a new request, or two requests (the second cuts the back-off short), in one event: two legitimate rounds
                for t, h, adv in new_open:
                    if h in seen_at.get((t, adv), ()):
                        problems.append(("immediate-retry-same-address", f"after {ev}: address {h} was connected to twice at the same instant t={t / UNIT:.3f}s under the same advertised list (no back-off in between)"))
                    seen_at.setdefault((t, adv), set()).add(h)
                # C10: no advertised address is excluded forever
                if k in ("x", "X", "d") or comp_closed or (comp is not None and any(x.startswith("d:") for x in comp["parts"])):
                    groups = []
                for t, hs in new:
                    if groups and groups[-1][0] == t:
                        groups[-1][1].update(hs)
                    else:
                        groups.append((t, set(hs)))
                if cs != "live":
                    groups = []
                else:
                    # the reference is what zeroconf advertises now, not the list the connection happens to hold: an address
                    # that was only ADDED to the advertisement must be tried as well
                    desc = getattr(p, "description", None)
                    adv_idx = sorted(set(hidx(h) for h in (desc.addresses if desc is not None and desc.addresses else conn.hosts)))
                    Ha = max(len(adv_idx), H)
                    if len(groups) >= Ha + 1:
                        seen_h = set().union(*(g[1] for g in groups[-(Ha + 1):]))
                        missing = sorted(set(adv_idx) - seen_h)
                        if missing:
                            problems.append(("address-excluded", f"after {ev}: advertised address(es) {missing} not tried in the last {Ha + 1} rounds of attempts ({[sorted(g[1]) for g in groups[-(Ha + 1):]]})"))
                if cs == "live" and last_attempt is not None and now_units(loop) - last_attempt > 90 * UNIT:
                    problems.append(("backoff-too-long", f"after {ev}: connector running but no attempt for {((now_units(loop) - last_attempt) / UNIT):.1f}s"))
            sim.attempts = raw_attempts
            sim.stats = {"connections": len(net.transports), "attempts": len(raw_attempts), "virtual_seconds": now_units(loop) / UNIT}
            # leave nothing behind
            for t in waiters.values():
                t.cancel()
            try:
                await p.shutdown()
            except BaseException:  # noqa: BLE001
                pass
            await settle(loop)
        finally:
            simnet.FakeTransport._lost = orig_lost


# --------------------------------------------------------------------------- generators

U = UNIT
VER_CLASSES = ["ok", "wr", "au", "fa", "ha", "ol"]


def ver_token(c, rng):
    mode = {"ok": "ok", "wr": "wrongid", "au": rng.choice(AUTH_MODES), "fa": rng.choice(FAIL_MODES), "ha": "hang", "ol": "oksubdrop"}[c]
    return f"v:{c}:{mode}"


def gen_fault_sequences(rng, max_len, n_hosts=(1, 2, 3), sample=None):
    """every sequence of pair-verify outcome classes up to max_len, with a fixed driving schedule"""
    import itertools
    out = []
    tails = [["e:1:-", f"a:{U // 2}", f"a:{2 * U}", "e:2:-", f"a:{40 * U}", f"a:{100 * U}", "x"],
             ["s", f"a:{U}", f"a:{35 * U}", "e:1:24577", f"a:{200 * U}", "p:0", "p:1", "p:2", f"a:{U}", "X"]]
    seqs = [seq for L in range(0, max_len + 1) for seq in itertools.product(VER_CLASSES, repeat=L)]
    if sample is not None and len(seqs) > sample:
        seqs = rng.sample(seqs, sample)
    for seq in seqs:
        H = rng.choice(n_hosts)
        hosts = list(range(1, H + 1))
        pre = []
        r = rng.random()
        if r < 0.25:
            pre = ["t:r"]
        elif r < 0.4:
            pre = ["t:t"]
        elif r < 0.6:
            pre = [f"t:o:{rng.randrange(0, 3)}" for _ in range(len(seq))]
        evs = pre + [ver_token(c, rng) for c in seq] + rng.choice(tails)
        out.append((hosts, evs))
    return out


def gen_schedules(rng, depth, scripts=None, sample=None):
    """every schedule of external events up to `depth` after a fixed fault script"""
    import itertools
    alpha = ["e:_:-", f"a:{3 * U // 4}", f"a:{12 * U}", "s", "x", "p:_", "d:2,3", "X", "e:_:24577", "c:_", "j", "h"]
    scripts = scripts or [(["v:fa:err17", "v:wr:wrongid", "v:ha:hang"], [1, 2]), (["t:t", "v:au:err22"], [1]), (["v:wr:wrongid", "v:wr:wrongid", "t:o:0", "t:o:0", "t:r"], [1, 2, 3])]
    out = []
    seqs = [seq for d in range(1, depth + 1) for seq in itertools.product(alpha, repeat=d)]
    if sample is not None and len(seqs) > sample:
        seqs = rng.sample(seqs, sample)
    for seq in seqs:
        script, hosts = scripts[rng.randrange(len(scripts))]
        evs = list(script)
        wid = 0
        nconn_guess = 0
        for a in seq:
            if a.startswith("e:_"):
                wid += 1
                evs.append(a.replace("_", str(wid)))
            elif a == "c:_":
                evs.append(f"c:{max(wid, 1)}")
            elif a == "p:_":
                evs.append(f"p:{rng.randrange(0, 4)}")
            else:
                evs.append(a)
        out.append((list(hosts), evs))
    return out


def gen_random(rng, long_run=False):
    H = rng.randrange(1, 4)
    hosts = list(range(1, H + 1))
    evs = []
    for _ in range(rng.randrange(0, 6)):
        r = rng.random()
        evs.append("t:r" if r < 0.3 else "t:t" if r < 0.45 else "t:o:%d" % rng.randrange(0, 3))
    nver = rng.randrange(0, 7) if not long_run else rng.randrange(10, 30)
    for _ in range(nver):
        c = rng.choice(["ok", "wr", "wr", "au", "fa", "fa", "ha", "ol"]) if not long_run else rng.choice(["fa", "fa", "fa", "wr", "ha", "fa", "ol"])
        evs.append(ver_token(c, rng))
    wid = 0
    for _ in range(rng.randrange(3, 25)):
        r = rng.random()
        if r < 0.3:
            evs.append("a:%d" % rng.choice([2, U // 2, U, 3 * U // 4, 2 * U, 10 * U, 12 * U, 31 * U, 70 * U, 6144, 9216] + ([600 * U, 1800 * U] if long_run else [])))
        elif r < 0.5:
            wid += 1
            evs.append("e:%d:%s" % (wid, rng.choice(["-", "-", "-", str(3 * U + 1), str(7 * U + 1)])))
        elif r < 0.56 and wid:
            evs.append("c:%d" % rng.randrange(1, wid + 1))
        elif r < 0.66:
            evs.append("s")
        elif r < 0.72:
            evs.append("d:" + ",".join(map(str, rng.sample([1, 2, 3, 4], rng.randrange(1, 4)))))
        elif r < 0.8:
            evs.append("x")
        elif r < 0.82:
            evs.append("X")
        elif r < 0.9:
            evs.append("p:%d" % rng.randrange(0, 6))
        elif r < 0.94:
            evs.append(rng.choice(["j", "h"]))
        else:
            evs.append(ver_token(rng.choice(VER_CLASSES), rng))
    return hosts, evs


def shrink(hosts, events, still_fails):
    """greedy removal of events while the failure persists"""
    evs = list(events)
    i = 0
    budget = 400
    while i < len(evs) and budget > 0:
        cand = evs[:i] + evs[i + 1:]
        budget -= 1
        try:
            if still_fails(hosts, cand):
                evs = cand
                continue
        except Exception:  # noqa: BLE001
            pass
        i += 1
    return evs


# --------------------------------------------------------------------------- composite events (several actions in one loop iteration)

# how to bring the supervisor to each phase (fault script, addresses, events before the composite); the third field names
# the phase for the distribution in the evidence
PHASES = [
    ("idle", [1], []),
    ("idle", [1, 2], ["v:wr:wrongid"]),
    ("connected", [1], ["e:1:-"]),
    ("connected", [1, 2], ["s", f"a:{U}"]),
    ("connecting", [1], ["t:t", "e:1:-", f"a:{U}"]),
    ("connecting", [1, 2, 3], ["t:t", "t:t", "s", f"a:{11 * U}"]),
    ("verifying", [1], ["v:ha:hang", "e:1:-", f"a:{U}"]),
    ("verifying", [1, 2], ["v:wr:wrongid", "v:ha:hang", "s", f"a:{12 * U}"]),
    ("sleeping", [1], ["t:r"] * 12 + ["e:1:-", f"a:{U}"]),
    ("sleeping", [1], ["v:fa:err17"] * 12 + ["s", f"a:{50 * U}"]),
    ("sleeping", [1, 2], ["v:fa:badsig", "t:r", "v:fa:close1"] + ["t:r"] * 9 + ["e:1:24577", f"a:{20 * U}"]),
    ("auth-ended", [1], ["v:au:err22", "e:1:-", f"a:{U}"]),
    ("closed", [1], ["e:1:-", "x"]),
    ("closed-while-retrying", [1, 2], ["t:r"] * 6 + ["e:1:-", f"a:{3 * U}", "x"]),
    ("lost", [1], ["v:ok:ok", "t:r", "t:r", "t:r", "e:1:-", "p:0", f"a:{U}"]),
]
COMPOSITE_ACTIONS = ["x", "X", "e", "g", "s", "d", "c", "p"]
COMPOSITE_TAIL = ["a:2", f"a:{12 * U}", f"a:{100 * U}"]


def _composite(actions, yields, rng, wid0=10):
    """the token of a composite event: `actions` joined with `yields[i]` bare loop iterations after the i-th action"""
    parts = []
    wid = wid0
    for i, a in enumerate(actions):
        if a in ("e", "g"):
            wid += 1
            parts.append(f"{a}:{wid}:" + ("-" if rng.random() < 0.75 else "24577"))
        elif a == "d":
            parts.append("d:" + ",".join(map(str, sorted(rng.sample([1, 2, 3, 4], rng.randrange(1, 4))))))
        elif a == "c":
            parts.append(f"c:{rng.choice([1, 1, wid]) if wid > wid0 else 1}")
        elif a == "p":
            parts.append(f"p:{rng.randrange(0, 3)}")
        else:
            parts.append(a)
        if i < len(actions) - 1:
            parts += ["."] * yields[i]
    return "+".join(parts)


def gen_composites(rng, n_spaced=300, n_triples=200, n_random=150):
    """(A) EVERY ordered pair of actions over COMPOSITE_ACTIONS issued back-to-back in one loop iteration, in every phase of the
    supervisor; (B) pairs with 1..4 bare loop iterations in between (the second action then meets the first one half-way:
    close() after its connector has been cancelled but before it resumed, ...); (C) triples; (D) random histories in which
    composite events replace some plain events.  Each followed by time passing (2 units, 12 s, 100 s) and sometimes a close."""
    import itertools
    out = []

    def tail():
        r = rng.random()
        return COMPOSITE_TAIL + ([] if r < 0.6 else ["x", f"a:{12 * U}"] if r < 0.8 else ["e:99:-", f"a:{12 * U}", "X", f"a:{12 * U}"])
    pairs = list(itertools.product(COMPOSITE_ACTIONS, repeat=2))
    phase_names = sorted(set(ph[0] for ph in PHASES))
    for name in phase_names:
        variants = [ph for ph in PHASES if ph[0] == name]
        for i, pr in enumerate(pairs):
            _, hosts, pre = variants[(i + rng.randrange(len(variants))) % len(variants)]
            out.append((list(hosts), list(pre) + [_composite(pr, [0], rng)] + tail(), "pair", name))
    for _ in range(n_spaced):
        name, hosts, pre = rng.choice(PHASES)
        pr = rng.choice(pairs)
        out.append((list(hosts), list(pre) + [_composite(pr, [rng.randrange(1, 5)], rng)] + tail(), "pair-spaced", name))
    for _ in range(n_triples):
        name, hosts, pre = rng.choice(PHASES)
        tr = [rng.choice(COMPOSITE_ACTIONS) for _ in range(3)]
        out.append((list(hosts), list(pre) + [_composite(tr, [rng.choice([0, 0, 1, 2, 3]) for _ in range(2)], rng)] + tail(), "triple", name))
    for _ in range(n_random):
        hosts, evs = gen_random(rng)
        evs = list(evs)
        idx = [i for i, e in enumerate(evs) if e[0] in "esdxXpc"]
        for i in rng.sample(idx, min(len(idx), rng.randrange(1, 4))):
            other = rng.choice(COMPOSITE_ACTIONS)
            first = evs[i]
            second = _composite([other], [], rng, wid0=50 + i)
            ys = ["."] * rng.choice([0, 0, 0, 1, 2, 3])
            evs[i] = "+".join([first] + ys + [second] if rng.random() < 0.5 else [second] + ys + [first])
        out.append((hosts, evs + [f"a:{12 * U}"], "random", "any"))
    return out


# --------------------------------------------------------------------------- pairing-record variants: histories

def _scripted(rng, n=16):
    """n scripted pair-verify behaviours (so that, with a record that cannot work, no connection falls back on the accessory's
    unscripted default, which the model would take for a success)"""
    return [ver_token(rng.choice(["ok", "ok", "ok", "ok", "ok", "wr", "au", "fa", "fa", "ha", "ol"]), rng) for _ in range(n)]


def record_core(name):
    """one fixed history per record variant: honest accessory, a caller, two back-off retries, a zeroconf wake-up, a long wait, close"""
    return ([1], ["v:ok:ok"] * 16 + ["e:1:-", f"a:{U}", f"a:{2 * U}", "s", f"a:{12 * U}", "x", f"a:{12 * U}"], name)


def gen_record_histories(rng, n, names=None):
    """histories run with a damaged / altered pairing record: 16 scripted accessory behaviours, TCP faults, then a random
    schedule of callers, zeroconf updates, time, accessory-side drops, closes; ends with close or shutdown and a wait"""
    names = list(names or RECORDS)
    out = [record_core(nm) for nm in names]
    for i in range(n):
        rec = names[i % len(names)]
        H = rng.randrange(1, 4)
        hosts = list(range(1, H + 1))
        evs = []
        r = rng.random()
        if r < 0.2:
            evs.append("t:r")
        elif r < 0.3:
            evs.append("t:t")
        elif r < 0.5:
            evs += [f"t:o:{rng.randrange(0, 3)}" for _ in range(rng.randrange(1, 4))]
        evs += _scripted(rng)
        wid = 1
        evs.append(rng.choice(["e:1:-", "e:1:-", "s", "e:1:24577"]))
        for _ in range(rng.randrange(4, 12)):
            r = rng.random()
            if r < 0.4:
                evs.append("a:%d" % rng.choice([2, U // 2, 3 * U // 4, U, 2 * U, 5 * U, 12 * U, 31 * U, 70 * U]))
            elif r < 0.55:
                wid += 1
                evs.append(f"e:{wid}:" + rng.choice(["-", "-", str(3 * U + 1)]))
            elif r < 0.65:
                evs.append("s")
            elif r < 0.7:
                evs.append("d:" + ",".join(map(str, rng.sample([1, 2, 3, 4], rng.randrange(1, 4)))))
            elif r < 0.8:
                evs.append("p:%d" % rng.randrange(0, 6))
            elif r < 0.87:
                evs.append("x")
            elif r < 0.9:
                evs.append(f"c:{rng.randrange(1, wid + 1)}")
            else:
                evs.append(f"x+e:{wid + 20}:-" if rng.random() < 0.5 else f"a:{U}")
        end = rng.choice(["x", "x", "X"])
        evs += [end, f"a:{U}", f"a:{12 * U}"]
        out.append((hosts, evs, rec))
    return out
