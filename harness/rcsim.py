"""Shared engine for C10 / C11: runs one scenario (address list + event tokens) against the real, unpatched
IpPairing / SecureHomeKitConnection under simnet with the scaffold accessory, and renders after every event the
same observation line the Lean model (`rc.run`) prints.

event tokens (python side; the third field of `v:` is the concrete accessory mode, dropped for the model):
  a:<dt>          advance virtual time by dt units of 1/8192 s
  e:<id>:<own|->  a caller enters IpPairing._ensure_connected (own = its own timeout in units)
  c:<id>          that caller is cancelled
  s               zeroconf sees the device again (IpPairing._async_description_update with the current description)
  d:<h,h,..>      zeroconf update carrying an address list
  x / X           IpPairing.close() / shutdown()
  p:<c>           the accessory closes connection c
  t:r | t:t | t:o:<k>        script the next TCP connect: refused / timeout / ok to the k-th target
  v:<class>:<mode>           script the next pair-verify: class ok|wr|au|fa|ha, mode = accessory behaviour
  g:<id>          a caller enters a public request that needs the connection (IpPairing.get_characteristics)
  A+B(+C)         composite event: the actions are issued back-to-back in ONE event-loop iteration (each as a task / a
                  call_soon callback, in this order) and only then is the loop run to quiescence; a part `.` lets one bare
                  loop iteration pass between two actions.  Parts: e g c s d x X p.  The Lean model has no such event: a
                  history is compared with the model only up to its first composite event.
                  A part a:<dt> lets dt units of virtual time pass INSIDE the composite event WITHOUT running the loop to
                  quiescence afterwards: the parts after it are issued in the loop iterations that follow the instant t+dt
                  (a close that lands in the k-th iteration of a retry the connector makes by itself after its back-off).

session / browser tokens (no model event either; a history is tied to the model up to the first of them):
  r:<id>:<api>:<own|->   a caller enters a public request of IpPairing: g get_characteristics, w put_characteristics,
                  l list_accessories_and_characteristics, s subscribe, u unsubscribe, i identify, k list_pairings, m image,
                  f async_populate_accessories_state(force_update=True); several of them joined by `+` overlap (one on the
                  wire, the others queued on the request slot)
  q:h / q:a       the accessory stops answering application requests (it keeps them) / answers what it kept, in order,
                  and answers at once from now on
  p:c / p:c:r     the accessory closes / resets whatever connection is current (p:<c>:r = reset of connection c)
  n:<h,h,..> | n:- | n:*   from now on the accessory is reachable at exactly these addresses / nowhere / anywhere (the
                  default): an unscripted TCP connect succeeds iff one of its targets is reachable
  zA:<h,..> / zU:<h,..> / zR   mDNS: the records of the accessory are put into (zR: taken out of) the zeroconf cache and the
                  service browser reports Added / Updated / Removed to the real IpController (ZeroconfController.
                  _handle_service, 0.5 s resolve debounce), which owns the pairing (IpController.load_pairing)

pairing-record variants (`record=` of run_scenario, table RECORDS): the stored pairing data is damaged / altered the way a
hand-edited or half-written pairing file is, so that the secure-session setup fails with each exception class at each local
step (or, for the benign variants, must still succeed).

subscriptions (`subs=` of run_scenario): the characteristics the application subscribed to in an earlier session (default: (1, 9));
every new session re-subscribes to them, one request per accessory id; `[]` = none (no re-subscription at all).
"""
from __future__ import annotations

import asyncio
import json
import random
from unittest.mock import MagicMock

from harness import simnet
from harness.acc import Accessory, http
from harness.refacc import tlv

from aiohomekit.characteristic_cache import CharacteristicCacheMemory
from aiohomekit.controller.ip.pairing import IpPairing
from aiohomekit.exceptions import AccessoryDisconnectedError, AuthenticationError
from aiohomekit.model.categories import Categories
from aiohomekit.model.feature_flags import FeatureFlags
from aiohomekit.model.status_flags import StatusFlags
from aiohomekit.zeroconf import HomeKitService

UNIT = 8192
FAIL_MODES = ["badsig", "err11", "err13", "err14", "err15", "err16", "err17", "err21", "err23", "err27", "close1", "close2", "reset1", "reset2", "reset1", "reset2", "http470", "exc"]
AUTH_MODES = ["err12", "err22"]


FAMILY = {"v": "v4"}  # address family used for the scenario being run (set by run_scenario)

# the accessory database served in the session / browser streams: (1, 2) identify, (1, 9) on, (1, 10) brightness
ACCESSORY_DB = [{"aid": 1, "services": [
    {"iid": 1, "type": "0000003E-0000-1000-8000-0026BB765291", "characteristics": [
        {"iid": 2, "type": "00000014-0000-1000-8000-0026BB765291", "perms": ["pw"], "format": "bool"},
        {"iid": 3, "type": "00000023-0000-1000-8000-0026BB765291", "perms": ["pr"], "format": "string", "value": "acc"}]},
    {"iid": 8, "type": "00000043-0000-1000-8000-0026BB765291", "characteristics": [
        {"iid": 9, "type": "00000025-0000-1000-8000-0026BB765291", "perms": ["pr", "pw", "ev"], "format": "bool", "value": False},
        {"iid": 10, "type": "00000008-0000-1000-8000-0026BB765291", "perms": ["pr", "pw", "ev"], "format": "int", "value": 50}]}]}]


def host(i):
    """the i-th advertised address, as zeroconf / the pairing record spell it"""
    if FAMILY["v"] == "v6":
        # scoped link-local with zero compression and mixed case, as mDNS delivers them
        return f"fe80::AB:{i:x}%eth0"
    return f"10.0.0.{i}"


def peer_name(h):
    """how the connected socket reports the same address (getpeername): expanded, lower case, no scope id"""
    if ":" in h:
        import ipaddress
        return ipaddress.ip_address(h.partition("%")[0]).exploded
    return h


def hidx(h):
    if ":" in h:
        import ipaddress
        return int(ipaddress.ip_address(h.partition("%")[0])) & 0xFFFF
    return int(h.rsplit(".", 1)[1])


def model_token(tok):
    p = tok.split(":")
    if p[0] == "v":
        return "v:" + p[1]
    return tok


def model_line(hosts, events):
    return "rc.run " + ",".join(str(h) for h in hosts) + " " + " ".join(model_token(e) for e in events)


def model_line_of(hosts, sim):
    return "rc.run " + ",".join(str(h) for h in hosts) + " " + " ".join(sim.model_events)


# --------------------------------------------------------------------------- pairing-record variants
# name -> (local step of the controller's pair-verify at which this record makes the exchange fail, class of that failure
#          for the model: fa = any exception raised at once, wr = wrong pairing id, au = authentication error; None = the
#          record is as good as the original and the session must come up as usual)
# steps (HAP 5.7.2 / 5.7.4, controller side): 5 compare the accessory's pairing id, 6 load the accessory's LTPK and check the
# signature, 7 build iOSDeviceInfo, 8 load the controller's LTSK and sign, 9 = M3 is sent and an honest accessory rejects it.
RECORDS = {
    "ltsk-short": (8, "fa"), "ltsk-long": (8, "fa"), "ltsk-odd": (8, "fa"), "ltsk-nothex": (8, "fa"), "ltsk-empty": (8, "fa"),
    "ltsk-missing": (8, "fa"), "ltsk-none": (8, "fa"), "ltsk-other": (9, "au"),
    "ltpk-short": (6, "fa"), "ltpk-long": (6, "fa"), "ltpk-odd": (6, "fa"), "ltpk-nothex": (6, "fa"), "ltpk-missing": (6, "fa"),
    "ltpk-none": (6, "fa"), "ltpk-other": (6, "fa"),
    "iosid-missing": (7, "fa"), "iosid-none": (7, "fa"), "iosid-other": (9, "au"),
    "accid-other": (5, "wr"),
    "hex-upper": (None, None), "hex-spaced": (None, None), "no-ios-ltpk": (None, None), "extra-keys": (None, None),
}


def mutate_record(pd, name, rnd):
    """the pairing record `pd` (a dict as stored in the pairing file) altered as variant `name`"""
    pd = dict(pd)
    if name is None:
        return pd
    what, _, how = name.partition("-")
    key = {"ltsk": "iOSDeviceLTSK", "ltpk": "AccessoryLTPK", "iosid": "iOSPairingId", "accid": "AccessoryPairingID"}.get(what)
    if name == "hex-upper":
        pd["iOSDeviceLTSK"] = pd["iOSDeviceLTSK"].upper()
        pd["AccessoryLTPK"] = pd["AccessoryLTPK"].upper()
    elif name == "hex-spaced":
        # bytes.fromhex skips ASCII whitespace: a record that was pretty-printed by hand still parses
        pd["iOSDeviceLTSK"] = " ".join(pd["iOSDeviceLTSK"][i:i + 2] for i in range(0, 64, 2))
        pd["AccessoryLTPK"] = pd["AccessoryLTPK"][:32] + " " + pd["AccessoryLTPK"][32:]
    elif name == "no-ios-ltpk":
        pd.pop("iOSDeviceLTPK", None)
    elif name == "extra-keys":
        pd["AccessoryName"] = "acc"
        pd["iOSDeviceLTPK"] = pd["iOSDeviceLTPK"].upper()
    elif how == "short":
        pd[key] = pd[key][:-2]
    elif how == "long":
        pd[key] = pd[key] + "00"
    elif how == "odd":
        pd[key] = pd[key][:-1]
    elif how == "nothex":
        pd[key] = pd[key][:10] + "zz" + pd[key][12:]
    elif how == "empty":
        pd[key] = ""
    elif how == "missing":
        del pd[key]
    elif how == "none":
        pd[key] = None
    elif how == "other":
        if what in ("ltsk", "ltpk"):
            pd[key] = bytes(rnd.randrange(256) for _ in range(32)).hex()  # a well-formed key, but not the one that was paired
        elif what == "iosid":
            pd[key] = "ctrl-2"
        else:
            pd[key] = "12:34:56:00:01:0B"
    else:
        raise ValueError("unknown pairing-record variant " + name)
    return pd


def _acc_stage(mode):
    """the local step of the controller at which the accessory behaviour `mode` makes the exchange fail"""
    if mode == "hang":
        return 1
    if mode in ("close1", "reset1", "http470", "exc") or mode.startswith("err1"):
        return 2
    if mode == "wrongid":
        return 5
    if mode == "badsig":
        return 6.5
    if mode in ("close2", "reset2") or mode.startswith("err2"):
        return 8.5
    return 99


def effective_class(record, cls, mode):
    """the class of the pair-verify result when the accessory behaves as `mode` (scripted class `cls`) and the controller
    holds pairing record `record`: whichever of the two goes wrong first decides"""
    stage, rcls = RECORDS.get(record, (None, None)) if record else (None, None)
    if stage is None or _acc_stage(mode) <= stage:
        return cls
    return rcls


def description(hosts):
    return HomeKitService(name="acc", id="12:34:56:00:01:0A", model="m", feature_flags=FeatureFlags(0), status_flags=StatusFlags(0), config_num=0, state_num=1,
                          category=Categories.LIGHTBULB, protocol_version="1.1", type="_hap._tcp.local.", address=host(hosts[0]), addresses=[host(h) for h in hosts], port=80)


async def settle(loop):
    """run the loop until nothing is ready at the current virtual instant; returns the number of loop iterations that took"""
    for n_ in range(10000):
        await asyncio.sleep(0)
        if loop._ready:
            continue
        if loop._scheduled and not loop._scheduled[0]._cancelled and loop._scheduled[0]._when <= loop.time():
            continue
        # a cancelled head may hide a due timer; let one more iteration clean it up
        if loop._scheduled and loop._scheduled[0]._cancelled:
            live = [h for h in loop._scheduled if not h._cancelled and h._when <= loop.time()]
            if live:
                continue
        return n_ + 1
    raise RuntimeError("event loop does not settle")


class Sim:
    """result of one scenario"""

    def __init__(self):
        self.lines = []          # per event: observation line
        self.problems = []       # (signature, text) found by the implementation-level oracles
        self.attempts = []       # (units, [host idx])
        self.model_events = []   # the events as the model is given them (some harness events map to a model event decided at run time)
        self.stats = {}
        self.model_upto = None   # the history can be compared with the model only up to this event index (None = all of it)
        self.iters = []          # per event: loop iterations until the loop came to rest after the event's action


def new_tokens(events):
    """the session / browser / environment tokens of a history (see the module docstring)"""
    return [x for ev in events for x in ev.split("+") if x.split(":")[0] in ("r", "q", "n", "zA", "zU", "zR") or x.startswith("p:c") or x.endswith(":r") and x.startswith("p:")]


def _run(hosts, events, seed, subs=None, family="v4", record=None):
    if any(x.startswith("z") for ev in events for x in ev.split("+")):
        family = "v4"  # link-local IPv6 records are not usable addresses for HomeKitService.from_service_info
    FAMILY["v"] = family
    loop = simnet.VLoop()
    asyncio.set_event_loop(loop)
    sim = Sim()
    try:
        loop.run_until_complete(_scenario(loop, sim, hosts, events, seed, record, subs))
    except asyncio.CancelledError:
        # the watchdog of _scenario: a call the harness made into the library (a request, close()) did not return within 600
        # virtual seconds - a library that blocks for ever must be reported, not hang the check
        at = events[len(sim.lines)] if len(sim.lines) < len(events) else "the end of the history"
        sim.problems.append(("call-never-returned", f"at {at}: the call into the library made by this event had not returned 600 s (virtual) later, t={loop.time():.3f}s"))
        if sim.model_upto is None:
            sim.model_upto = len(sim.lines)
    except RuntimeError as e:
        if str(e) != "event loop does not settle":
            raise
        # the library keeps the loop busy without time passing: that is the busy loop C10 excludes, not a harness error
        sim.problems.append(("busy-loop", f"after {events[len(sim.lines)] if len(sim.lines) < len(events) else '?'}: the event loop does not come to rest at t={loop.time():.3f}s (10000 iterations without quiescence)"))
        if sim.model_upto is None:
            sim.model_upto = len(sim.lines)
    finally:
        try:
            pend = [t for t in asyncio.all_tasks(loop) if not t.done()]
            for t in pend:
                t.cancel()
            if pend:
                loop.run_until_complete(asyncio.gather(*pend, return_exceptions=True))
        finally:
            asyncio.set_event_loop(None)
            loop.close()
    return sim


def run_scenario(hosts, events, seed=0, family="v4", record=None, subs=None):
    return _run(hosts, events, seed, subs=subs, family=family, record=record)


def now_units(loop):
    u = loop.time() * UNIT
    return int(round(u))


async def _scenario(loop, sim, hosts, events, seed, record=None, subs=None):
    rnd = random.Random(seed)
    net = simnet.Net(loop)
    acc = Accessory(loop, net, lambda n: bytes(rnd.randrange(256) for _ in range(n)))
    unscripted = []  # connections whose pair-verify behaviour was not scripted (the accessory's default: an honest exchange)
    orig_on_connect = net.on_connect

    def on_connect(t):
        if not acc.verify_mode:
            unscripted.append(t.index)
        orig_on_connect(t)
    net.on_connect = on_connect
    # single connector AT ANY TIME, not only at quiescence: the task factory sees every connector task the library creates
    connectors = []
    overlaps = []
    n_connectors = [0]  # connector tasks created so far

    def task_factory(loop_, coro, **kw):
        t = asyncio.Task(coro, loop=loop_, **kw)
        if getattr(coro, "__qualname__", "").endswith("._reconnect"):
            alive = [c for c in connectors if not c.done()]
            if alive:
                overlaps.append((now_units(loop), len(alive) + 1))
            connectors[:] = alive + [t]
            n_connectors[0] += 1
        return t
    loop.set_task_factory(task_factory)
    raw_attempts = []
    orig_start = net.start_connection
    # ---- session / browser streams (tokens r q n p:c zA zU zR): what the harness itself did and saw, the reference of the oracles
    toks = new_tokens(events)
    session_mode = bool(toks)
    browser_mode = any(x.startswith("z") for x in toks)
    reach = {"at": None}     # addresses (indices) at which the accessory is reachable; None = anywhere (the default of the older streams)
    rq = {"hold": False, "held": [], "issued": 0}  # the accessory's answering policy for application requests
    rx = {}                  # connection index -> bytes the accessory has received on it
    accepted = {}            # connection index -> instant (units) at which the TCP connection was accepted
    losses = []              # (instant, connection index, instant it was accepted) of every connection that had carried a secure session
    starved = set()
    zb = {"adv": None, "adv_t": None, "records": [], "calls": [], "groups": [], "sn": 1, "maxlist": len(hosts), "removed_in_window": 0, "n": 0}
    orig_handler = net.handler

    def on_write(t, data):
        rx[t.index] = rx.get(t.index, 0) + len(data)
        act[t.index] = now_units(loop)
        orig_handler(t, data)
    net.handler = on_write

    # ---- back-off bookkeeping (C10, lower bound of the delay): what the NETWORK saw of every connection attempt
    att_log = []             # per TCP connect: t0 (instant it was started), targets, end / out (instant and way the connect ended), tidx (the
    #                          connection it led to), la_prev (the last instant at which the attempt before it did anything on the network)
    act = {}                 # connection index -> last instant at which the controller wrote on it, or it was lost
    hasten = []              # (from, to) instants at which zeroconf reported the device (a legitimate reason to retry at once)
    resets = []              # instants at which close() / shutdown() was called or returned: whatever is attempted afterwards is a new beginning

    def last_activity(rec):
        if rec["end"] is None:
            return None
        return max(rec["end"], act.get(rec["tidx"], 0)) if rec["tidx"] is not None else rec["end"]

    async def start_connection(addr_infos, **kw):
        rec = {"t0": now_units(loop), "targets": [hidx(a[3]) for a in addr_infos], "end": None, "out": None, "tidx": None, "host": None,
               "la_prev": last_activity(att_log[-1]) if att_log else None}
        att_log.append(rec)
        raw_attempts.append((rec["t0"], rec["targets"]))
        if reach["at"] is not None and not net.connect_outcomes:
            # address-aware network: the connect succeeds iff one of the targeted addresses is one the accessory has
            pick = next((i for i, a in enumerate(addr_infos) if hidx(a[3]) in reach["at"]), None)
            net.connect_outcomes.append("refused" if pick is None else ("ok", pick))
        try:
            sock = await orig_start(addr_infos, **kw)
        except BaseException as e:  # noqa: BLE001
            rec["end"], rec["out"] = now_units(loop), "refused" if isinstance(e, OSError) else "gave-up" if isinstance(e, asyncio.CancelledError) else "error"
            raise
        rec["end"], rec["out"] = now_units(loop), "ok"
        sock.host = peer_name(sock.host)
        sock.attempt = rec
        return sock
    net.start_connection = start_connection
    opened = []  # (units, host idx, advertised list) of every TCP connection that was established
    conn_ref = []
    orig_create = net.create_connection

    async def create_connection(factory, sock=None, **kw):
        # remember under which advertised address list the connection was made: a zeroconf update that changes the
        # list legitimately resets the exclusions ("host change clears exclusions"), so only repeats under the SAME
        # list count as "the same address again"
        opened.append((now_units(loop), hidx(sock.host), tuple(sorted(conn_ref[0].hosts)) if conn_ref else (), n_connectors[0], len(net.transports)))
        if getattr(sock, "attempt", None) is not None:
            sock.attempt["tidx"], sock.attempt["host"] = len(net.transports), hidx(sock.host)
            act[len(net.transports)] = now_units(loop)
        res = await orig_create(factory, sock=sock, **kw)
        accepted[res[0].index] = now_units(loop)
        return res
    net.create_connection = create_connection
    # stale-loss oracle: the loss of a transport that is not the current one must leave the current one alone
    waiters = {}
    done = []  # (id, outcome, units)
    close_raised = []
    problems = sim.problems
    import contextlib
    zpatch = contextlib.nullcontext()
    if session_mode:
        # request-carrying callers need an accessory database, and an accessory that can be slow or silent
        acc.accessories = ACCESSORY_DB
        orig_handle = acc._handle

        def answer(t, method, target, body):
            if not t.closing and target.startswith(("/pairings", "/resource", "/characteristics?")):
                acc.sessions[t].requests.append((method, target, body))
                if target.startswith("/pairings"):
                    return acc.send(t, http(tlv([(6, b"\x02"), (1, b"ctrl-1"), (3, bytes(32)), (11, b"\x01")])))
                if target.startswith("/resource"):
                    return acc.send(t, http(b"\xff\xd8\xff\xd9", b"image/jpeg"))
                ids = [x.split(".") for x in target.split("id=")[1].split("&")[0].split(",")]
                return acc.send(t, http(json.dumps({"characteristics": [{"aid": int(a_), "iid": int(i_), "value": False} for a_, i_ in ids]}).encode(), b"application/hap+json"))
            return orig_handle(t, method, target, body)

        def handle(t, method, target, body):
            if target == "/pair-verify" or acc.responder is not None:
                return orig_handle(t, method, target, body)
            if rq["hold"]:
                rq["held"].append((t, method, target, body))
                return None
            return answer(t, method, target, body)
        acc._handle = handle
    if browser_mode:
        # the real mDNS controller owns the pairing; below it only the record cache is the harness's (filled and emptied the
        # way the mDNS listener would) and no multicast query is ever sent
        import socket
        from unittest import mock

        from zeroconf import DNSCache, ServiceStateChange
        from zeroconf.asyncio import AsyncServiceInfo

        import aiohomekit.zeroconf as hkz
        from aiohomekit.controller.ip.controller import IpController

        class CacheOnlyInfo(AsyncServiceInfo):
            async def async_request(self, zc, timeout, *a, **kw):
                return self.load_from_cache(zc)
        azc = MagicMock()
        azc.zeroconf.cache = DNSCache()
        ctrl = IpController(char_cache=CharacteristicCacheMemory(), zeroconf_instance=azc)
        zpatch = mock.patch.object(hkz, "AsyncServiceInfo", CacheOnlyInfo)
        zname = "acc." + ctrl.hap_type
    else:
        ctrl = MagicMock()
        ctrl._char_cache = CharacteristicCacheMemory()
    with net.patched(), zpatch:
        try:
            pdata = mutate_record(acc.pairing_data([host(h) for h in hosts]), record, random.Random(seed ^ 0x5EED))
            p = ctrl.load_pairing("acc", pdata) if browser_mode else IpPairing(ctrl, pdata)
            if p is None:
                raise ValueError("load_pairing returned no pairing")
        except Exception as e:  # noqa: BLE001
            if record is None:
                raise
            # the library refuses the damaged record outright: no pairing exists, nothing can be opened or leaked
            sim.stats = {"record_refused": type(e).__name__}
            sim.model_upto = 0
            return
        conn = p.connection
        conn_ref.append(conn)
        # the caller subscribed to something in an earlier session: every new session re-subscribes inside connection_made,
        # i.e. while the connector task is still running
        p.subscriptions.update({(1, 9)} if subs is None else {(int(a_), int(i_)) for a_, i_ in subs})
        orig_lost = simnet.FakeTransport._lost

        def lost_hook(t, exc, _orig=orig_lost):
            cur = conn.transport
            was_closing = cur.closing if cur is not None else None
            if not t.closed and t in acc.sessions and acc.sessions[t].secure:
                losses.append((now_units(loop), t.index, accepted.get(t.index)))
            if not t.closed:
                act[t.index] = now_units(loop)
            _orig(t, exc)
            if cur is not None and cur is not t and not was_closing:
                if cur.closing or conn.transport is not cur:
                    problems.append(("stale-loss-disturbs-current", f"loss of abandoned connection {t.index} closed or replaced the current connection {cur.index}"))
        for tr_cls in (simnet.FakeTransport,):
            tr_cls._lost = lost_hook
        try:
            n_att = 0
            n_open = 0
            seen_shutdown = False
            quiet = False  # the pairing was closed and nothing has asked for a connection since
            last_attempt = None
            harness_cancelled = set()
            groups = []  # (timestamp, set of targeted addresses) while one connector keeps retrying
            # ---- composite events: several actions issued in one loop iteration
            cstate = {"log": None, "att": None}  # execution-order log of the composite under way: T = a caller asks for the connection,
            #                                      Z = zeroconf reports the device, C = close()/shutdown() is called, R = it
            #                                      returned; att = number of attempts seen when the last close returned
            request_callers = set()  # ids of callers that went through a public request (their wait is not the bare 10 s)
            had_composite = False

            maybe_asked = [False]  # a caller of this event may or may not have asked for the connection (subscribe does not once the session was marked push-less)

            def api_call(api):
                return {"g": lambda: p.get_characteristics([(1, 9)]), "w": lambda: p.put_characteristics([(1, 9, True)]),
                        "l": p.list_accessories_and_characteristics, "s": lambda: p.subscribe([(1, 10)]), "u": lambda: p.unsubscribe([(1, 10)]),
                        "i": p.identify, "k": p.list_pairings, "m": lambda: p.image(1, 32, 32),
                        "f": lambda: p.async_populate_accessories_state(force_update=True)}[api]()

            async def caller(wid, own, kind, api=None):
                t0 = now_units(loop)
                if api == "s":
                    maybe_asked[0] = True
                elif cstate["log"] is not None and api != "u":  # unsubscribe never asks for a connection that is not there
                    cstate["log"].append("T")
                try:
                    coro = p._ensure_connected() if kind == "e" else p.get_characteristics([(1, 9)]) if kind == "g" else api_call(api)
                    if own is None:
                        await coro
                    else:
                        await asyncio.wait_for(coro, own)
                    out = "ok"
                except asyncio.TimeoutError:
                    out = "own"
                except AccessoryDisconnectedError:
                    out = "disc"
                except AuthenticationError:
                    out = "auth"
                except asyncio.CancelledError:
                    done.append((wid, "canc", now_units(loop), t0))
                    raise
                except BaseException as e:  # noqa: BLE001
                    out = "other:" + type(e).__name__
                done.append((wid, out, now_units(loop), t0))

            req_kind = {}  # caller id -> api of the public request it made (r: callers)

            def multi_step_in_progress():
                """callers whose public request is still under way and asks for the connection more than once in its course
                (get / put / identify fetch the accessory database first): if a close() falls between two of its steps, the next
                step asks for the connection after the close has returned - the request and the close are concurrent"""
                return {w_ for w_, a_ in req_kind.items() if a_ in ("g", "w", "i") and w_ in waiters and not waiters[w_].done()}

            async def closer2(kind):
                nonlocal seen_shutdown
                if cstate["log"] is not None:
                    cstate["log"].append("C")
                    cstate["inprog"] = cstate.get("inprog", set()) | multi_step_in_progress()
                if kind == "X":
                    seen_shutdown = True
                resets.append(now_units(loop))
                try:
                    await (p.close() if kind == "x" else p.shutdown())
                except BaseException as e:  # noqa: BLE001
                    close_raised.append(type(e).__name__)
                resets.append(now_units(loop))
                if cstate["log"] is not None:
                    cstate["log"].append("R")
                    cstate["att"] = len(raw_attempts)

            def sync_action(part):
                g_ = part.split(":")
                if g_[0] == "c":
                    t_ = waiters.get(int(g_[1]))
                    if t_ is not None and not t_.done():
                        harness_cancelled.add(int(g_[1]))
                        t_.cancel()
                elif g_[0] in ("s", "d"):
                    new_desc = p.description if g_[0] == "s" else description([int(x) for x in g_[1].split(",")])
                    cstate["log"].append("Z")
                    hasten.append((now_units(loop), now_units(loop)))
                    try:
                        p._async_description_update(new_desc)
                    except Exception as e:  # noqa: BLE001
                        problems.append(("update-raised", f"the zeroconf update {part} (part of a composite event) raised {type(e).__name__}: {e}"))
                elif g_[0] == "p":
                    drop(g_)
                else:
                    env_action(g_)

            def drop(g_):
                """p:<c>[:r] / p:c[:r] - the accessory closes (resets) connection c / the current connection; returns the index"""
                if g_[1] == "c":
                    c_ = net.open[-1].index if net.open else 9999  # the connection the accessory accepted last and still has
                else:
                    c_ = int(g_[1])
                if c_ < len(net.transports) and net.transports[c_] in net.open:
                    if len(g_) > 2 and g_[2] == "r":
                        net.transports[c_].peer_reset()
                    else:
                        net.transports[c_].peer_close()
                return c_

            def env_action(g_):
                """q (answering policy of the accessory), n (where it is reachable), zA / zU / zR (mDNS records + browser callback)"""
                if g_[0] == "q":
                    rq["hold"] = g_[1] == "h"
                    if not rq["hold"]:
                        held, rq["held"] = rq["held"], []
                        for t_, m_, tg_, b_ in held:
                            if not t_.closing and not t_.closed:
                                answer(t_, m_, tg_, b_)
                elif g_[0] == "n":
                    reach["at"] = None if g_[1] == "*" else set() if g_[1] == "-" else {int(x) for x in g_[1].split(",")}
                else:
                    cache = azc.zeroconf.cache
                    hasten.append((now_units(loop), now_units(loop) + UNIT))  # the browser hands it to the pairing after its resolve debounce
                    if zb["records"]:
                        cache.async_remove_records(zb["records"])
                        zb["records"] = []
                    zb["n"] += 1
                    if g_[0] == "zR":
                        if zb["calls"] and now_units(loop) - zb["calls"][-1] < UNIT // 2:
                            zb["removed_in_window"] += 1
                        zb["adv"], zb["groups"] = None, []
                        change = ServiceStateChange.Removed
                    else:
                        hs = [int(x) for x in g_[1].split(",")]
                        zb["sn"] += 1
                        info = AsyncServiceInfo(ctrl.hap_type, zname, addresses=[socket.inet_aton(host(h)) for h in hs], port=80, server="acc.local.",
                                                properties={"id": acc.ident.acc_id.decode(), "c#": "0", "s#": str(zb["sn"]), "sf": "0", "ff": "0", "ci": "5", "md": "m", "pv": "1.1"})
                        zb["records"] = [*info.dns_addresses(), info.dns_pointer(), info.dns_service(), info.dns_text()]
                        cache.async_add_records(zb["records"])
                        if zb["adv"] != set(hs):
                            zb["adv"], zb["adv_t"], zb["groups"] = set(hs), now_units(loop), []
                        zb["calls"].append(now_units(loop))
                        zb["maxlist"] = max(zb["maxlist"], len(hs))
                        change = ServiceStateChange.Added if g_[0] == "zA" else ServiceStateChange.Updated
                    try:
                        ctrl._handle_service(azc.zeroconf, ctrl.hap_type, zname, change)
                    except Exception as e:  # noqa: BLE001
                        problems.append(("update-raised", f"the service browser callback {change.name} for {':'.join(g_)} raised {type(e).__name__}: {e}"))

            bk = {"n": 0, "ref": None, "round": 0}  # back-off oracle: attempts judged so far, the last unhastened delay of the streak of failures under way, start of the round of attempts under way

            def plain_failure(rec):
                """the attempt failed, and not in a way that ends the retries or begins anew: the TCP connect was refused / given up, or
                the accessory was scripted to spoil the pair-verify without an authentication error"""
                if rec["out"] in ("refused", "gave-up"):
                    return True
                if rec["out"] != "ok" or rec["tidx"] is None or rec["tidx"] >= len(acc.order):
                    return False
                s_ = acc.order[rec["tidx"]]
                return not s_.secure and s_.mode not in AUTH_MODES and s_.mode not in ("ok", "oksubdrop")

            def describe_attempt(rec):
                if rec["out"] != "ok":
                    return {"refused": "TCP connect refused", "gave-up": "TCP connect given up"}.get(rec["out"], rec["out"])
                return f"connection {rec['tidx']}, accessory behaviour in pair-verify: {acc.order[rec['tidx']].mode}"

            main_task = asyncio.current_task()
            watchdog = [None]

            for ei, ev in enumerate(events):
                if watchdog[0] is not None:
                    watchdog[0].cancel()
                watchdog[0] = loop.call_later(sum(int(x.split(":")[1]) for x in ev.split("+") if x.startswith("a:")) / UNIT + 600, main_task.cancel)
                hosts_before = list(conn.hosts)
                t_ev0 = now_units(loop)
                inprog_at_start = multi_step_in_progress()
                conn_before = conn.transport if p.is_connected else None  # the healthy session at the start of this event
                f = ev.split(":")
                k = f[0]
                mtok = model_token(ev)
                comp = None
                if "+" in ev or k in ("g", "r"):
                    # no model event corresponds to this: the model is consulted on the history before it only
                    if sim.model_upto is None:
                        sim.model_upto = ei
                    had_composite = True
                    k = "+"
                    comp = {"parts": ev.split("+"), "log": []}
                    cstate["log"] = comp["log"]
                    cstate["att"] = None
                    cstate["inprog"] = set()
                    for part in comp["parts"]:
                        g_ = part.split(":")
                        if g_[0] not in (".", "a", "e", "g", "x", "X", "c", "s", "d", "p", "r", "q", "n", "zA", "zU", "zR"):
                            raise ValueError("bad part of a composite event: " + part)
                        if part == ".":
                            await asyncio.sleep(0)  # one bare loop iteration: whatever was issued so far takes its first step
                        elif g_[0] == "a":
                            await asyncio.sleep(int(g_[1]) / UNIT)  # time passes; the loop is NOT run to quiescence at the new instant
                        elif g_[0] in ("e", "g"):
                            own_ = None if (len(g_) < 3 or g_[2] == "-") else int(g_[2]) / UNIT
                            if g_[0] == "g":
                                request_callers.add(int(g_[1]))
                            waiters[int(g_[1])] = asyncio.ensure_future(caller(int(g_[1]), own_, g_[0]))
                        elif g_[0] == "r":
                            own_ = None if (len(g_) < 4 or g_[3] == "-") else int(g_[3]) / UNIT
                            request_callers.add(int(g_[1]))
                            rq["issued"] += 1
                            req_kind[int(g_[1])] = g_[2]
                            waiters[int(g_[1])] = asyncio.ensure_future(caller(int(g_[1]), own_, "r", g_[2]))
                        elif g_[0] in ("x", "X"):
                            asyncio.ensure_future(closer2(g_[0]))
                        else:
                            loop.call_soon(sync_action, part)
                elif k in ("j", "h"):
                    # an established session gets a reply that makes the request layer give the connection up: malformed JSON to
                    # a JSON PUT (j) or an HTTP 470 to a TLV POST outside pair-verify (h).  For the supervisor this is the loss
                    # of the current connection: it must be followed by a new attempt like any other loss.
                    cur_t = conn.transport
                    if p.is_connected and cur_t is not None:
                        mtok = f"p:{cur_t.index}"
                        if k == "j":
                            acc.responder = lambda s_, m_, t_, b_: http(b'{"characteristics": [', b"application/hap+json")
                            coro = conn.put_json("/characteristics", {"characteristics": [{"aid": 1, "iid": 9, "ev": True}]})
                        else:
                            acc.responder = lambda s_, m_, t_, b_: http(b"\x06\x01\x02\x07\x01\x02", code=b"470 Connection Authorization Required")
                            coro = conn.post_tlv("/pairings", [(6, b"\x01")])
                        try:
                            await coro
                        except AccessoryDisconnectedError:
                            pass
                        except Exception as e:  # noqa: BLE001
                            problems.append(("request-error-wrong-exception", f"after {ev}: the request raised {type(e).__name__}"))
                        acc.responder = None
                    else:
                        mtok = "p:9999"
                elif k == "a":
                    await asyncio.sleep(int(f[1]) / UNIT)
                elif k == "e":
                    wid = int(f[1])
                    own = None if f[2] == "-" else int(f[2]) / UNIT

                    async def w(wid=wid, own=own):
                        t0 = now_units(loop)
                        try:
                            if own is None:
                                await p._ensure_connected()
                            else:
                                await asyncio.wait_for(p._ensure_connected(), own)
                            out = "ok"
                        except asyncio.TimeoutError:
                            out = "own"
                        except AccessoryDisconnectedError:
                            out = "disc"
                        except AuthenticationError:
                            out = "auth"
                        except asyncio.CancelledError:
                            done.append((wid, "canc", now_units(loop), t0))
                            raise
                        except BaseException as e:  # noqa: BLE001
                            out = "other:" + type(e).__name__
                        done.append((wid, out, now_units(loop), t0))
                    waiters[wid] = asyncio.ensure_future(w())
                elif k == "c":
                    t = waiters.get(int(f[1]))
                    if t is not None and not t.done():
                        harness_cancelled.add(int(f[1]))
                        t.cancel()
                elif k == "s":
                    hasten.append((t_ev0, t_ev0))
                    p._async_description_update(p.description)
                elif k == "d":
                    hasten.append((t_ev0, t_ev0))
                    p._async_description_update(description([int(x) for x in f[1].split(",")]))
                elif k in ("x", "X"):
                    async def closer(k=k):
                        try:
                            await (p.close() if k == "x" else p.shutdown())
                        except BaseException as e:  # noqa: BLE001
                            close_raised.append(type(e).__name__)
                    if k == "X":
                        seen_shutdown = True
                    resets.append(t_ev0)
                    await asyncio.ensure_future(closer())
                    resets.append(now_units(loop))
                elif k == "p":
                    mtok = f"p:{drop(f)}"
                elif k in ("q", "n", "zA", "zU", "zR"):
                    if sim.model_upto is None:
                        sim.model_upto = ei
                    env_action(f)
                elif k == "t":
                    net.connect_outcomes.append({"r": "refused", "t": "timeout"}.get(f[1]) or ("ok", int(f[2])))
                elif k == "v":
                    acc.verify_mode.append(f[2] if len(f) > 2 else {"ok": "ok", "wr": "wrongid", "au": "err22", "fa": "err17", "ha": "hang", "ol": "oksubdrop"}[f[1]])
                    if record is not None:
                        # what the model is told is the class that results from the accessory's behaviour AND the controller's record
                        mtok = "v:" + effective_class(record, f[1], acc.verify_mode[-1])
                    elif subs is not None and not subs and acc.verify_mode[-1] == "oksubdrop":
                        # nothing to re-subscribe to: the new session makes no request for the accessory to drop it at - for the
                        # model this pair-verify simply succeeds
                        mtok = "v:ok"
                else:
                    raise ValueError("bad event " + ev)
                sim.iters.append(await settle(loop))
                if unscripted and RECORDS.get(record, (None, None))[0] is not None and sim.model_upto is None:
                    # a connection used the accessory's default behaviour, which the model takes for a successful pair-verify;
                    # with this record it is not
                    sim.model_upto = ei
                sim.model_events.append(mtok)
                # ---- observation
                new = raw_attempts[n_att:]
                n_att = len(raw_attempts)
                parts = [f"A{t}@{','.join(str(h) for h in hs)}" for t, hs in new]
                fin = sorted(done)
                del done[:]
                parts += [f"W{i}={o}@{t}" for i, o, t, _ in fin]
                op = sorted(t.index for t in net.open)
                cur = conn.transport.index if conn.transport is not None else "-"
                c = conn._connector
                if c is None:
                    cs = "none"
                elif not c.done():
                    cs = "live"
                elif c.cancelled():
                    cs = "canc"
                elif c.exception() is not None:
                    cs = "auth" if isinstance(c.exception(), AuthenticationError) else "exc:" + type(c.exception()).__name__
                else:
                    cs = "done"
                live = sum(1 for t in asyncio.all_tasks(loop) if not t.done() and getattr(t.get_coro(), "__qualname__", "").endswith("._reconnect"))
                failed = sorted(hidx(h) for h in conn._pair_verify_failed_hosts)
                line = (" ".join(parts) + " | " + f"open={','.join(map(str, op)) or '-'} cur={cur} conn={cs} live={live} con={1 if p.is_connected else 0} "
                        f"failed={','.join(map(str, failed)) or '-'} t={now_units(loop)}")
                sim.lines.append(line)
                # ---- implementation-level oracles (independent of the model)
                if len(op) > 1:
                    problems.append(("more-than-one-open", f"after {ev}: the accessory sees connections {op} open at once"))
                if op and (cur == "-" or op != [cur]):
                    problems.append(("leaked-connection", f"after {ev}: connection(s) {op} open but the pairing's current connection is {cur}"))
                for t_ in net.open:
                    # C11: a connection whose secure-session setup failed is closed by the controller - seen from the accessory: at
                    # quiescence an open connection either carries an established session or the accessory still owes an answer on it
                    s_ = acc.sessions.get(t_)
                    if s_ is not None and not s_.secure and not (s_.mode == "hang" and s_.step >= 1) and not any(h_[0] is t_ for h_ in rq["held"]):
                        problems.append(("setup-failed-left-open", f"after {ev}: connection {t_.index} is still open although no secure session came up on it and the accessory owes no answer "
                                         f"(pair-verify requests it received: {s_.step}, its behaviour: {s_.mode})"))
                if live > 1 or net.max_in_flight > 1:
                    problems.append(("two-connectors", f"after {ev}: {live} connector tasks alive, {net.max_in_flight} connects in flight"))
                if overlaps:
                    # C10: a single connector at any time - seen at the moment the library creates the task, not only at quiescence
                    problems.append(("two-connectors", f"after {ev}: a new connector task was started at t={overlaps[0][0] / UNIT:.3f}s while an earlier one had not finished ({overlaps[0][1]} alive at once)"))
                    del overlaps[:]
                if close_raised:
                    problems.append(("close-raised", f"{'shutdown' if (k == 'X' or (comp is not None and 'X' in comp['parts'] and 'x' not in comp['parts'])) else 'close'}() raised {close_raised[0]}"))
                    del close_raised[:]
                shutdown_before = seen_shutdown and not (k == "X" or (comp is not None and "X" in comp["parts"]))
                new_after = new  # the attempts of this event that were started after its (last) close had returned
                comp_closed = False
                if comp is not None:
                    log = comp["log"]
                    cstate["log"] = None
                    if "C" in log:
                        comp_closed = True
                        if log.count("R") < log.count("C"):
                            problems.append(("close-raised", f"after {ev}: close()/shutdown() had not returned when the event loop went quiet"))
                        # which requests for the connection does the close cover?  A caller's request made before close() was CALLED
                        # is ended by it; one made after every close had RETURNED is a new request; one made while a close was still
                        # in progress is concurrent with it - either order is a correct outcome (the close wins: nothing runs any
                        # more, or the request wins: the pairing is open again) - so nothing is demanded until the history
                        # shows which it was.  A zeroconf update is fire-and-forget: the library may act on it in a background
                        # task (the accessory-list refresh after a new configuration number), so one handed over in the same loop
                        # iteration as the close - even just before it - counts as concurrent too.
                        # shutdown() is irreversible: nothing may follow it in either order.
                        last_c = len(log) - 1 - log[::-1].index("C")
                        state, inprog, z_before, others = True, 0, False, False
                        for i_, it in enumerate(log):
                            if it == "C":
                                inprog += 1
                            elif it == "R":
                                inprog -= 1
                            elif i_ > last_c:
                                others = True
                                if inprog == 0:
                                    state = False
                                elif state is True:
                                    state = None
                            elif it == "Z":
                                z_before = True
                        if z_before and state is True:
                            state = None
                        # (request-carrying callers) a multi-step request that was under way when close() was called and did not end
                        # with a disconnection error at this instant may have asked for the connection again after the close
                        ended_by_close = {i_ for i_, o_, _, _ in fin if o_ in ("disc", "canc")}
                        if state is True and cstate["inprog"] and (cstate["inprog"] - ended_by_close or log.count("C") > 1):
                            state = None
                        new_after = raw_attempts[cstate["att"]:] if cstate["att"] is not None else []
                        if state is None and new_after:
                            state = False  # attempts after the close had returned: the concurrent request won
                            if z_before and not others and not seen_shutdown:
                                # noted, not reported (see the comment above)
                                problems.append(("zeroconf-update-outlives-close", f"after {ev}: the zeroconf update was handed over before close() was called, yet connection attempt(s) {new_after} followed after close() had returned"))
                        quiet = True if seen_shutdown else state
                    elif ("T" in log or "Z" in log) and not seen_shutdown:
                        quiet = False
                elif k in ("x", "X"):
                    quiet = True
                    if k == "x" and inprog_at_start - {i_ for i_, o_, _, _ in fin if o_ in ("disc", "canc")}:
                        quiet = None  # as above, for a close issued as an event of its own while such a request is under way
                elif k in ("e", "s", "d") and not seen_shutdown:
                    quiet = False
                elif quiet is None and new:
                    quiet = False  # the request that was concurrent with the close won: the pairing is open
                t_now = now_units(loop)
                if session_mode:
                    if any(x.startswith("d:") for x in ev.split("+")):
                        zb["adv"], zb["groups"] = None, []  # the pairing was told another list directly: that is the advertisement now
                    # an announcement made through the browser reaches the pairing after the resolve debounce: from then on the
                    # pairing is open again, whatever was closed before - within a second of the callback either order is correct
                    announced = zb["adv"] is not None and bool(zb["calls"]) and t_now - zb["calls"][-1] <= UNIT
                    if quiet is True and not seen_shutdown and (maybe_asked[0] or announced):
                        quiet = None
                    maybe_asked[0] = False
                if k in ("x", "X") and op:
                    problems.append(("open-after-close", f"after {ev}: connection(s) {op} still open"))
                elif comp_closed and quiet is True and (op or new_after):
                    what = f"connection(s) {op} open" if op else f"connection attempt(s) {new_after} after close() had returned"
                    problems.append(("open-after-close", f"after {ev}: {what} although every request for the connection in this event was made before the {'shutdown' if seen_shutdown else 'close'} was called"))
                    if new_after:
                        problems.append(("attempt-after-close", f"after {ev}: connection attempt(s) {new_after} after close() had returned although every request for the connection in this event was made before the close was called"))
                elif not comp_closed and quiet and (op or new):
                    what = f"connection(s) {op} open" if op else f"connection attempt(s) {new}"
                    problems.append(("open-after-close", f"after {ev}: {what} although the pairing was {'shut down' if seen_shutdown else 'closed'} and nothing has asked for a connection since"))
                    if new:
                        problems.append(("attempt-after-close", f"after {ev}: connection attempt(s) {new} although the pairing was {'shut down' if seen_shutdown else 'closed'} and nothing has asked for a connection since"))
                if new and conn_before is not None and conn_before in net.open:
                    # C10: retries end by success - a connector that keeps connecting although the session it set up is alive
                    problems.append(("attempt-while-connected", f"after {ev}: connection attempt(s) {new} although the pairing was connected (connection {conn_before.index}) and that connection was never lost"))
                if comp is None:
                    if seen_shutdown and new:
                        problems.append(("attempt-after-shutdown", f"after {ev}: connection attempt(s) {new} after shutdown()"))
                elif seen_shutdown and (new if shutdown_before else new_after):
                    problems.append(("attempt-after-shutdown", f"after {ev}: connection attempt(s) {new if shutdown_before else new_after} after shutdown() {'had been called' if shutdown_before else 'had returned'}"))
                for i, o, t, t0 in fin:
                    if o.startswith("other"):
                        if i in request_callers:
                            problems.append(("request-wrong-error", f"the request of caller {i} raised {o[6:]} instead of a disconnection or authentication error (after {ev})"))
                        else:
                            problems.append(("waiter-wrong-error", f"waiting caller {i} got {o[6:]} instead of a disconnection or authentication error"))
                    if o == "canc" and i not in harness_cancelled:
                        problems.append(("waiter-wrong-error", f"waiting caller {i} got a bare CancelledError although nobody cancelled it (after {ev})"))
                    if t - t0 > 10 * UNIT and i not in request_callers:
                        problems.append(("waiter-unbounded", f"waiting caller {i} waited {(t - t0) / UNIT:.3f} s"))
                if net.errors:
                    problems.append(("callback-raised", f"after {ev}: {net.errors[0]}"))
                    del net.errors[:]
                # C10: retries end only by success, authentication failure or close
                # (whether the pairing is closed: the library's flag in plain histories - there it is what the harness did last - ,
                # the harness's own reckoning once composite events made the two differ; nothing is demanded while it is undecided)
                if (not conn.closing if not had_composite else quiet is False) and cs in ("done", "canc") and not p.is_connected:
                    problems.append(("retries-ended", f"after {ev}: connector finished ({cs}), pairing not connected, close() not called - nothing will retry"))
                if cs.startswith("exc:"):
                    problems.append(("retries-ended", f"after {ev}: connector died with {cs[4:]}"))
                # C10: a failed or lost connection is followed by further attempts - an attempt that got its TCP connection must go on
                # to the pair-verify request (or give the connection up): a connection on which the accessory has not received a
                # single byte 31 s after accepting it (no request of this library waits longer than 30 s for anything) while the
                # pairing is not connected means the connector has come to a halt without finishing or failing
                for t_ in net.open:
                    t_acc = accepted.get(t_.index)
                    if t_acc is not None and not rx.get(t_.index) and t_now - t_acc > 31 * UNIT and t_.index not in starved and not p.is_connected:
                        starved.add(t_.index)
                        problems.append(("retries-ended", f"after {ev}: connection {t_.index} was accepted by the accessory at t={t_acc / UNIT:.3f}s, {(t_now - t_acc) / UNIT:.1f} s ago, and is still open, but the accessory has not "
                                         f"received a single request on it (no pair-verify); connector state: {cs}, last connection attempt at t={(raw_attempts[-1][0] / UNIT) if raw_attempts else -1:.3f}s - the connector has come to a halt: "
                                         f"no authentication failure, no close, yet nothing retries any more"))
                # C10: no busy loop - attempts at one instant are bounded by the address list (the longer of the lists in
                # force before and after this event: a zeroconf update may have replaced it while attempts were under way)
                H = max(len(conn.hosts), len(hosts_before), 1)
                bound = H * H + H + (H * H + H if list(conn.hosts) != hosts_before else 0)  # one round per list in force
                if comp is not None:
                    bound *= max(1, comp["log"].count("T") + comp["log"].count("Z"))  # ... and per request for the connection made in this event
                by_t = {}
                for t, hs in new:
                    by_t[t] = by_t.get(t, 0) + 1
                for t, n_at in by_t.items():
                    if n_at > bound:
                        problems.append(("busy-loop", f"after {ev}: {n_at} connection attempts at the same instant t={t / UNIT:.3f}s with {H} addresses"))
                ts = sorted(by_t)
                if k == "a":
                    for t1, t2 in zip(ts, ts[1:]):
                        if session_mode and (any(tcb <= t2 <= tcb + UNIT for tcb in zb["calls"]) or any(ta == t1 and t1 < tl <= t2 for tl, _, ta in losses)):
                            # (new streams) there WAS a trigger in between: a browser announcement came out of its debounce (it hastens
                            # the reconnect), or the session that the attempt at t1 had established was lost later on (request time-out,
                            # caller's own time-out with its request on the wire): the first attempt after a loss is not a back-off retry
                            continue
                        if t2 - t1 < 6144:
                            problems.append(("backoff-too-short", f"after {ev}: attempts at {t1 / UNIT:.4f}s and {t2 / UNIT:.4f}s with no trigger in between"))
                        if t2 - t1 > 90 * UNIT:
                            problems.append(("backoff-too-long", f"after {ev}: {((t2 - t1) / UNIT):.1f}s between consecutive attempts"))
                # C10: attempts are separated by a GROWING delay - the lower bound, across events.  Reference: the network's own record
                # of the attempts (when each was started, at which addresses, when it last did anything on the wire) and the harness's
                # own actions.  A retry may follow a failed attempt at once only to move on to other addresses (its targets are a
                # proper subset of those of an attempt that got no TCP connection, or do not include the address whose pair-verify has just failed); otherwise, unless zeroconf reported the device in between (that hastens the
                # retry) and unless the attempt before it was a new beginning (it followed a close, the loss of a session that had come
                # up, or an exchange the accessory may have ended with an authentication error - retries end there), the next attempt
                # starts no earlier than 0.75 s after the failed one came to rest, and no earlier than the delay before it in the same
                # streak of failures (up to the 60 s cap).  A caller asking for the connection - with or without its own time-out,
                # repeatedly, cancelled - is no reason to retry early.
                while bk["n"] < len(att_log):
                    i_ = bk["n"]
                    bk["n"] += 1
                    if i_ == 0:
                        bk["round"] = att_log[0]["t0"]
                        continue
                    prev_, cur_ = att_log[i_ - 1], att_log[i_]
                    lo_, hi_ = prev_["t0"], cur_["t0"]
                    moves_on = (set(cur_["targets"]) < set(prev_["targets"])) if prev_["out"] != "ok" else (prev_["host"] is not None and prev_["host"] not in cur_["targets"])
                    round_t0 = bk["round"]
                    if not moves_on:
                        bk["round"] = cur_["t0"]
                    if not plain_failure(prev_) or any(lo_ <= r_ <= hi_ for r_ in resets) or any(lo_ <= l_[0] <= hi_ for l_ in losses):
                        bk["ref"] = None
                        continue
                    if moves_on:
                        continue  # the same round moves on to other addresses: the remaining ones / not the one that has just failed
                    # (a zeroconf update that arrived while the round was under way - it may carry another address list - counts as well)
                    if any(a_ <= hi_ and b_ >= round_t0 for a_, b_ in hasten) or cur_["la_prev"] is None:
                        bk["ref"] = None
                        continue
                    slept = cur_["t0"] - cur_["la_prev"]
                    why = (f"after {ev}: the connection attempt at t={prev_['t0'] / UNIT:.4f}s (addresses {prev_['targets']}, {describe_attempt(prev_)}) came to rest at t={cur_['la_prev'] / UNIT:.4f}s; "
                           f"the next attempt (addresses {cur_['targets']}) was started at t={cur_['t0'] / UNIT:.4f}s, only {slept / UNIT:.4f}s later, although zeroconf did not report the device, nothing was closed "
                           f"and no session was lost in between")
                    if slept < 6144 - 4:
                        problems.append(("backoff-too-short", why + " (the shortest back-off is 0.75 s)"))
                    elif bk["ref"] is not None and slept < min(bk["ref"], 60 * UNIT) - 4:
                        problems.append(("backoff-not-growing", why + f" - the delay before it in the same streak of failed attempts was {bk['ref'] / UNIT:.4f}s: the delay shrank instead of growing"))
                    bk["ref"] = slept
                if new:
                    last_attempt = new[-1][0]
                # C10: an immediate retry only moves on to another address - never the same one again at the same instant
                new_open = opened[n_open:]
                n_open = len(opened)
                seen_at = {}
                if comp is not None and (comp_closed or comp["log"].count("T") + comp["log"].count("Z") > 1):
                    new_open = []  # a close and a new request, or two requests (the second cuts the back-off short), in one event: two legitimate rounds
                prev_conn = {}
                for t, h, adv, ncon, tidx in new_open:
                    pc = prev_conn.get((t, adv, h))
                    prev_conn[(t, adv, h)] = (ncon, tidx)
                    if (session_mode or request_callers) and pc is not None and pc[0] != ncon and pc[1] < len(acc.order) and acc.order[pc[1]].secure:
                        # (request-carrying callers) not a retry: the earlier connection carried a secure session that its connector
                        # had handed over (it finished; this attempt belongs to a NEW connector task) and that was lost at the very
                        # instant it came up - a waiting caller's request went out on it and the accessory dropped it
                        continue
                    if h in seen_at.get((t, adv), ()):
                        problems.append(("immediate-retry-same-address", f"after {ev}: address {h} was connected to twice at the same instant t={t / UNIT:.3f}s under the same advertised list (no back-off in between)"))
                    seen_at.setdefault((t, adv), set()).add(h)
                # C10: no advertised address is excluded forever
                if k in ("x", "X", "d") or comp_closed or (comp is not None and any(x.startswith("d:") for x in comp["parts"])):
                    groups = []
                    zb["groups"] = []
                if session_mode and any(t_ev0 <= tcb + UNIT and tcb <= t_now for tcb in zb["calls"]):
                    groups = []  # a browser announcement was (or may have been) handed to the pairing during this event: like `d`
                for t, hs in new:
                    if groups and groups[-1][0] == t:
                        groups[-1][1].update(hs)
                    else:
                        groups.append((t, set(hs)))
                if cs != "live":
                    groups = []
                else:
                    # the reference is what zeroconf advertises now, not the list the connection happens to hold: an address
                    # that was only ADDED to the advertisement must be tried as well
                    desc = getattr(p, "description", None)
                    adv_idx = sorted(set(hidx(h) for h in (desc.addresses if desc is not None and desc.addresses else conn.hosts)))
                    Ha = max(len(adv_idx), H)
                    if len(groups) >= Ha + 1:
                        seen_h = set().union(*(g[1] for g in groups[-(Ha + 1):]))
                        missing = sorted(set(adv_idx) - seen_h)
                        if missing:
                            problems.append(("address-excluded", f"after {ev}: advertised address(es) {missing} not tried in the last {Ha + 1} rounds of attempts ({[sorted(g[1]) for g in groups[-(Ha + 1):]]})"))
                if browser_mode:
                    # the reference is what the harness itself announced through the service browser (records in the cache + Added /
                    # Updated callback, not withdrawn since): every address of that list is tried within (longest list + 1) rounds of
                    # attempts, counting only rounds begun more than a second after the announcement (resolve debounce 0.5 s)
                    if zb["adv"] is None or cs != "live":
                        zb["groups"] = []
                    else:
                        for t, hs in new:
                            if t <= zb["adv_t"] + UNIT:
                                continue
                            if zb["groups"] and zb["groups"][-1][0] == t:
                                zb["groups"][-1][1].update(hs)
                            else:
                                zb["groups"].append((t, set(hs)))
                        Hz = zb["maxlist"] + 1
                        if len(zb["groups"]) >= Hz:
                            missing = sorted(zb["adv"] - set().union(*(g[1] for g in zb["groups"][-Hz:])))
                            if missing:
                                problems.append(("address-excluded", f"after {ev}: address(es) {missing} have been advertised through the service browser since t={zb['adv_t'] / UNIT:.3f}s (announced list {sorted(zb['adv'])}, "
                                                 f"records still in the cache) but were not tried in the last {Hz} rounds of attempts ({[(round(g[0] / UNIT, 3), sorted(g[1])) for g in zb['groups'][-Hz:]]})"))
                                zb["groups"] = []
                if cs == "live" and last_attempt is not None and now_units(loop) - last_attempt > 90 * UNIT:
                    problems.append(("backoff-too-long", f"after {ev}: connector running but no attempt for {((now_units(loop) - last_attempt) / UNIT):.1f}s"))
            if watchdog[0] is not None:
                watchdog[0].cancel()
            watchdog[0] = loop.call_later(600, main_task.cancel)  # ... the cleanup below must not hang either
            sim.attempts = raw_attempts
            sim.stats = {"connections": len(net.transports), "attempts": len(raw_attempts), "virtual_seconds": now_units(loop) / UNIT}
            if session_mode:
                sim.stats.update({"requests": rq["issued"], "secure_sessions_lost": len(losses), "browser_callbacks": zb["n"], "removed_in_debounce": zb["removed_in_window"]})
                if browser_mode:
                    for h_ in list(getattr(ctrl, "_resolve_later", {}).values()):
                        h_.cancel()
            # leave nothing behind
            for t in waiters.values():
                t.cancel()
            try:
                await p.shutdown()
            except BaseException:  # noqa: BLE001
                pass
            watchdog[0].cancel()
            await settle(loop)
        finally:
            simnet.FakeTransport._lost = orig_lost


# --------------------------------------------------------------------------- generators

U = UNIT
VER_CLASSES = ["ok", "wr", "au", "fa", "ha", "ol"]


def ver_token(c, rng):
    mode = {"ok": "ok", "wr": "wrongid", "au": rng.choice(AUTH_MODES), "fa": rng.choice(FAIL_MODES), "ha": "hang", "ol": "oksubdrop"}[c]
    return f"v:{c}:{mode}"


def gen_fault_sequences(rng, max_len, n_hosts=(1, 2, 3), sample=None):
    """every sequence of pair-verify outcome classes up to max_len, with a fixed driving schedule"""
    import itertools
    out = []
    tails = [["e:1:-", f"a:{U // 2}", f"a:{2 * U}", "e:2:-", f"a:{40 * U}", f"a:{100 * U}", "x"],
             ["s", f"a:{U}", f"a:{35 * U}", "e:1:24577", f"a:{200 * U}", "p:0", "p:1", "p:2", f"a:{U}", "X"]]
    seqs = [seq for L in range(0, max_len + 1) for seq in itertools.product(VER_CLASSES, repeat=L)]
    if sample is not None and len(seqs) > sample:
        seqs = rng.sample(seqs, sample)
    for seq in seqs:
        H = rng.choice(n_hosts)
        hosts = list(range(1, H + 1))
        pre = []
        r = rng.random()
        if r < 0.25:
            pre = ["t:r"]
        elif r < 0.4:
            pre = ["t:t"]
        elif r < 0.6:
            pre = [f"t:o:{rng.randrange(0, 3)}" for _ in range(len(seq))]
        evs = pre + [ver_token(c, rng) for c in seq] + rng.choice(tails)
        out.append((hosts, evs))
    return out


def gen_schedules(rng, depth, scripts=None, sample=None):
    """every schedule of external events up to `depth` after a fixed fault script"""
    import itertools
    alpha = ["e:_:-", f"a:{3 * U // 4}", f"a:{12 * U}", "s", "x", "p:_", "d:2,3", "X", "e:_:24577", "c:_", "j", "h"]
    scripts = scripts or [(["v:fa:err17", "v:wr:wrongid", "v:ha:hang"], [1, 2]), (["t:t", "v:au:err22"], [1]), (["v:wr:wrongid", "v:wr:wrongid", "t:o:0", "t:o:0", "t:r"], [1, 2, 3])]
    out = []
    seqs = [seq for d in range(1, depth + 1) for seq in itertools.product(alpha, repeat=d)]
    if sample is not None and len(seqs) > sample:
        seqs = rng.sample(seqs, sample)
    for seq in seqs:
        script, hosts = scripts[rng.randrange(len(scripts))]
        evs = list(script)
        wid = 0
        nconn_guess = 0
        for a in seq:
            if a.startswith("e:_"):
                wid += 1
                evs.append(a.replace("_", str(wid)))
            elif a == "c:_":
                evs.append(f"c:{max(wid, 1)}")
            elif a == "p:_":
                evs.append(f"p:{rng.randrange(0, 4)}")
            else:
                evs.append(a)
        out.append((list(hosts), evs))
    return out


def gen_random(rng, long_run=False):
    H = rng.randrange(1, 4)
    hosts = list(range(1, H + 1))
    evs = []
    for _ in range(rng.randrange(0, 6)):
        r = rng.random()
        evs.append("t:r" if r < 0.3 else "t:t" if r < 0.45 else "t:o:%d" % rng.randrange(0, 3))
    nver = rng.randrange(0, 7) if not long_run else rng.randrange(10, 30)
    for _ in range(nver):
        c = rng.choice(["ok", "wr", "wr", "au", "fa", "fa", "ha", "ol"]) if not long_run else rng.choice(["fa", "fa", "fa", "wr", "ha", "fa", "ol"])
        evs.append(ver_token(c, rng))
    wid = 0
    for _ in range(rng.randrange(3, 25)):
        r = rng.random()
        if r < 0.3:
            evs.append("a:%d" % rng.choice([2, U // 2, U, 3 * U // 4, 2 * U, 10 * U, 12 * U, 31 * U, 70 * U, 6144, 9216] + ([600 * U, 1800 * U] if long_run else [])))
        elif r < 0.5:
            wid += 1
            evs.append("e:%d:%s" % (wid, rng.choice(["-", "-", "-", str(3 * U + 1), str(7 * U + 1)])))
        elif r < 0.56 and wid:
            evs.append("c:%d" % rng.randrange(1, wid + 1))
        elif r < 0.66:
            evs.append("s")
        elif r < 0.72:
            evs.append("d:" + ",".join(map(str, rng.sample([1, 2, 3, 4], rng.randrange(1, 4)))))
        elif r < 0.8:
            evs.append("x")
        elif r < 0.82:
            evs.append("X")
        elif r < 0.9:
            evs.append("p:%d" % rng.randrange(0, 6))
        elif r < 0.94:
            evs.append(rng.choice(["j", "h"]))
        else:
            evs.append(ver_token(rng.choice(VER_CLASSES), rng))
    return hosts, evs


def shrink(hosts, events, still_fails):
    """greedy removal of events while the failure persists"""
    evs = list(events)
    i = 0
    budget = 400
    while i < len(evs) and budget > 0:
        cand = evs[:i] + evs[i + 1:]
        budget -= 1
        try:
            if still_fails(hosts, cand):
                evs = cand
                continue
        except Exception:  # noqa: BLE001
            pass
        i += 1
    return evs


# --------------------------------------------------------------------------- composite events (several actions in one loop iteration)

# how to bring the supervisor to each phase (fault script, addresses, events before the composite); the third field names
# the phase for the distribution in the evidence
PHASES = [
    ("idle", [1], []),
    ("idle", [1, 2], ["v:wr:wrongid"]),
    ("connected", [1], ["e:1:-"]),
    ("connected", [1, 2], ["s", f"a:{U}"]),
    ("connecting", [1], ["t:t", "e:1:-", f"a:{U}"]),
    ("connecting", [1, 2, 3], ["t:t", "t:t", "s", f"a:{11 * U}"]),
    ("verifying", [1], ["v:ha:hang", "e:1:-", f"a:{U}"]),
    ("verifying", [1, 2], ["v:wr:wrongid", "v:ha:hang", "s", f"a:{12 * U}"]),
    ("sleeping", [1], ["t:r"] * 12 + ["e:1:-", f"a:{U}"]),
    ("sleeping", [1], ["v:fa:err17"] * 12 + ["s", f"a:{50 * U}"]),
    ("sleeping", [1, 2], ["v:fa:badsig", "t:r", "v:fa:close1"] + ["t:r"] * 9 + ["e:1:24577", f"a:{20 * U}"]),
    ("auth-ended", [1], ["v:au:err22", "e:1:-", f"a:{U}"]),
    ("closed", [1], ["e:1:-", "x"]),
    ("closed-while-retrying", [1, 2], ["t:r"] * 6 + ["e:1:-", f"a:{3 * U}", "x"]),
    ("lost", [1], ["v:ok:ok", "t:r", "t:r", "t:r", "e:1:-", "p:0", f"a:{U}"]),
]
COMPOSITE_ACTIONS = ["x", "X", "e", "g", "s", "d", "c", "p"]
COMPOSITE_TAIL = ["a:2", f"a:{12 * U}", f"a:{100 * U}"]


def _composite(actions, yields, rng, wid0=10):
    """the token of a composite event: `actions` joined with `yields[i]` bare loop iterations after the i-th action"""
    parts = []
    wid = wid0
    for i, a in enumerate(actions):
        if a in ("e", "g"):
            wid += 1
            parts.append(f"{a}:{wid}:" + ("-" if rng.random() < 0.75 else "24577"))
        elif a == "d":
            parts.append("d:" + ",".join(map(str, sorted(rng.sample([1, 2, 3, 4], rng.randrange(1, 4))))))
        elif a == "c":
            parts.append(f"c:{rng.choice([1, 1, wid]) if wid > wid0 else 1}")
        elif a == "p":
            parts.append(f"p:{rng.randrange(0, 3)}")
        else:
            parts.append(a)
        if i < len(actions) - 1:
            parts += ["."] * yields[i]
    return "+".join(parts)


def gen_composites(rng, n_spaced=300, n_triples=200, n_random=150):
    """(A) EVERY ordered pair of actions over COMPOSITE_ACTIONS issued back-to-back in one loop iteration, in every phase of the
    supervisor; (B) pairs with 1..4 bare loop iterations in between (the second action then meets the first one half-way:
    close() after its connector has been cancelled but before it resumed, ...); (C) triples; (D) random histories in which
    composite events replace some plain events.  Each followed by time passing (2 units, 12 s, 100 s) and sometimes a close."""
    import itertools
    out = []

    def tail():
        r = rng.random()
        return COMPOSITE_TAIL + ([] if r < 0.6 else ["x", f"a:{12 * U}"] if r < 0.8 else ["e:99:-", f"a:{12 * U}", "X", f"a:{12 * U}"])
    pairs = list(itertools.product(COMPOSITE_ACTIONS, repeat=2))
    phase_names = sorted(set(ph[0] for ph in PHASES))
    for name in phase_names:
        variants = [ph for ph in PHASES if ph[0] == name]
        for i, pr in enumerate(pairs):
            _, hosts, pre = variants[(i + rng.randrange(len(variants))) % len(variants)]
            out.append((list(hosts), list(pre) + [_composite(pr, [0], rng)] + tail(), "pair", name))
    for _ in range(n_spaced):
        name, hosts, pre = rng.choice(PHASES)
        pr = rng.choice(pairs)
        out.append((list(hosts), list(pre) + [_composite(pr, [rng.randrange(1, 5)], rng)] + tail(), "pair-spaced", name))
    for _ in range(n_triples):
        name, hosts, pre = rng.choice(PHASES)
        tr = [rng.choice(COMPOSITE_ACTIONS) for _ in range(3)]
        out.append((list(hosts), list(pre) + [_composite(tr, [rng.choice([0, 0, 1, 2, 3]) for _ in range(2)], rng)] + tail(), "triple", name))
    for _ in range(n_random):
        hosts, evs = gen_random(rng)
        evs = list(evs)
        idx = [i for i, e in enumerate(evs) if e[0] in "esdxXpc"]
        for i in rng.sample(idx, min(len(idx), rng.randrange(1, 4))):
            other = rng.choice(COMPOSITE_ACTIONS)
            first = evs[i]
            second = _composite([other], [], rng, wid0=50 + i)
            ys = ["."] * rng.choice([0, 0, 0, 1, 2, 3])
            evs[i] = "+".join([first] + ys + [second] if rng.random() < 0.5 else [second] + ys + [first])
        out.append((hosts, evs + [f"a:{12 * U}"], "random", "any"))
    return out


# --------------------------------------------------------------------------- pairing-record variants: histories

def _scripted(rng, n=16):
    """n scripted pair-verify behaviours (so that, with a record that cannot work, no connection falls back on the accessory's
    unscripted default, which the model would take for a success)"""
    return [ver_token(rng.choice(["ok", "ok", "ok", "ok", "ok", "wr", "au", "fa", "fa", "ha", "ol"]), rng) for _ in range(n)]


def record_core(name):
    """one fixed history per record variant: honest accessory, a caller, two back-off retries, a zeroconf wake-up, a long wait, close"""
    return ([1], ["v:ok:ok"] * 16 + ["e:1:-", f"a:{U}", f"a:{2 * U}", "s", f"a:{12 * U}", "x", f"a:{12 * U}"], name)


def gen_record_histories(rng, n, names=None):
    """histories run with a damaged / altered pairing record: 16 scripted accessory behaviours, TCP faults, then a random
    schedule of callers, zeroconf updates, time, accessory-side drops, closes; ends with close or shutdown and a wait"""
    names = list(names or RECORDS)
    out = [record_core(nm) for nm in names]
    for i in range(n):
        rec = names[i % len(names)]
        H = rng.randrange(1, 4)
        hosts = list(range(1, H + 1))
        evs = []
        r = rng.random()
        if r < 0.2:
            evs.append("t:r")
        elif r < 0.3:
            evs.append("t:t")
        elif r < 0.5:
            evs += [f"t:o:{rng.randrange(0, 3)}" for _ in range(rng.randrange(1, 4))]
        evs += _scripted(rng)
        wid = 1
        evs.append(rng.choice(["e:1:-", "e:1:-", "s", "e:1:24577"]))
        for _ in range(rng.randrange(4, 12)):
            r = rng.random()
            if r < 0.4:
                evs.append("a:%d" % rng.choice([2, U // 2, 3 * U // 4, U, 2 * U, 5 * U, 12 * U, 31 * U, 70 * U]))
            elif r < 0.55:
                wid += 1
                evs.append(f"e:{wid}:" + rng.choice(["-", "-", str(3 * U + 1)]))
            elif r < 0.65:
                evs.append("s")
            elif r < 0.7:
                evs.append("d:" + ",".join(map(str, rng.sample([1, 2, 3, 4], rng.randrange(1, 4)))))
            elif r < 0.8:
                evs.append("p:%d" % rng.randrange(0, 6))
            elif r < 0.87:
                evs.append("x")
            elif r < 0.9:
                evs.append(f"c:{rng.randrange(1, wid + 1)}")
            else:
                evs.append(f"x+e:{wid + 20}:-" if rng.random() < 0.5 else f"a:{U}")
        end = rng.choice(["x", "x", "X"])
        evs += [end, f"a:{U}", f"a:{12 * U}"]
        out.append((hosts, evs, rec))
    return out


# --------------------------------------------------------------------------- request-carrying callers (sessions with application requests in flight)

REQ_APIS = ["g", "g", "g", "w", "w", "l", "s", "u", "i", "k", "m", "f"]
# what the NEXT connection attempts meet when the session is lost (scripts are consumed in order, then the defaults apply)
REQ_NEXT = [[], ["t:r"], ["t:r", "t:r", "t:r"], ["t:t"], ["v:fa:reset1"], ["v:ha:hang"], ["v:wr:wrongid"], ["t:r", "v:ol:oksubdrop"]]
REQ_LOSSES = ["close", "reset", "timeout", "x", "cancel", "own", "zeroconf", "none"]


def _burst(rng, n, wid0, spaced=False, own_first=False):
    """n overlapping public requests (parts of one composite event): the first one gets the request slot and goes on the wire,
    the others queue behind it"""
    parts = []
    for i in range(n):
        own = str(3 * U + 1) if (own_first and i == 0) else "-" if rng.random() < 0.9 else str(rng.choice([3 * U + 1, 7 * U + 1]))
        parts.append(f"r:{wid0 + i}:{rng.choice(REQ_APIS)}:{own}")
        if spaced and i < n - 1:
            parts += ["."] * rng.randrange(1, 4)
    return parts


def _req_tail(rng, hold):
    tail = ["a:2", f"a:{12 * U}"] + (["q:a"] if hold and rng.random() < 0.5 else []) + [f"a:{40 * U}", f"a:{100 * U}"]
    r = rng.random()
    if r < 0.35:
        tail += [f"r:70:{rng.choice(REQ_APIS)}:-", f"a:{12 * U}"]
    elif r < 0.5:
        tail += ["e:71:-", f"a:{12 * U}"]
    if rng.random() < 0.3:
        tail += [rng.choice(["x", "x", "X"]), f"a:{12 * U}", f"a:{70 * U}"]
    return tail


def gen_request_histories(rng, n_random=200, grid_sample=None):
    """(A) EVERY combination of {1, 2, 3 overlapping public requests} x {accessory answers at once, accessory keeps the answers}
    x {what the next attempts meet: connects at once, refused once / three times, TCP time-out, reset in pair-verify, pair-verify
    unanswered, wrong pairing id, refused then dropped at the first request} x {how the session ends: accessory closes, accessory
    resets, the request times out after 30 s, close(), the caller on the wire is cancelled, its own time-out expires, a zeroconf
    update arrives, it does not end}, the end of the session issued in the same loop iteration as the requests, a few bare
    iterations later, as the next event or after a pause; (B) random histories over the same alphabet mixed with the
    supervisor's events.  Each followed by 150 s of time passing, sometimes new callers, sometimes a close."""
    out = []
    for n in (1, 2, 3):
        for hold in (False, True):
            for nxt in REQ_NEXT:
                for loss in REQ_LOSSES:
                    H = rng.choice([1, 1, 2, 3])
                    evs = [rng.choice(["e:1:-", "e:1:-", "s", "r:1:l:-", "r:1:g:-"])] + list(nxt)
                    burst = _burst(rng, n, 10, spaced=rng.random() < 0.3, own_first=(loss == "own"))
                    end = {"close": ["p:c"], "reset": ["p:c:r"], "x": ["x"], "cancel": ["c:10"], "zeroconf": ["s"]}.get(loss, [])
                    if hold:
                        evs.append("q:h")
                    how = rng.choice(["same", "spaced", "next", "later"] if hold else ["same", "same", "spaced"])
                    if end and how in ("same", "spaced"):
                        evs.append("+".join(burst + ["."] * (0 if how == "same" else rng.randrange(1, 5)) + end))
                    else:
                        evs.append("+".join(burst))
                        if how == "later":
                            evs.append("a:%d" % rng.choice([2, U // 2, 5 * U]))
                        evs += end
                    if loss == "timeout":
                        evs.append(f"a:{31 * U}")
                    elif loss == "own":
                        evs.append(f"a:{4 * U}")
                    elif loss == "x":
                        evs += ["a:2", rng.choice(["e:60:-", "r:60:g:-", "s"])]
                    out.append((list(range(1, H + 1)), evs + _req_tail(rng, hold), "grid"))
    if grid_sample is not None and len(out) > grid_sample:
        out = rng.sample(out, grid_sample)
    for _ in range(n_random):
        H = rng.randrange(1, 4)
        evs = []
        for _ in range(rng.randrange(0, 4)):
            r = rng.random()
            evs.append("t:r" if r < 0.3 else "t:t" if r < 0.4 else ver_token(rng.choice(["ok", "ok", "ok", "wr", "fa", "ha", "ol"]), rng))
        wid = 0
        hold = False
        for _ in range(rng.randrange(4, 16)):
            r = rng.random()
            if r < 0.3:
                n = rng.choice([1, 2, 2, 3])
                parts = _burst(rng, n, wid + 1, spaced=rng.random() < 0.3)
                wid += n
                if rng.random() < 0.35:
                    parts += ["."] * rng.choice([0, 0, 1, 2]) + [rng.choice(["p:c", "p:c:r", "x", f"c:{wid}", f"c:{wid - n + 1}", "s", "e:%d:-" % (wid + 40)])]
                evs.append("+".join(parts))
            elif r < 0.5:
                evs.append("a:%d" % rng.choice([2, U // 2, 3 * U // 4, U, 5 * U, 12 * U, 31 * U, 31 * U, 70 * U]))
            elif r < 0.6:
                hold = not hold
                evs.append("q:h" if hold else "q:a")
            elif r < 0.72:
                evs.append(rng.choice(["p:c", "p:c", "p:c:r"]))
            elif r < 0.8:
                evs.append("t:r" if rng.random() < 0.6 else rng.choice(["t:t", ver_token(rng.choice(VER_CLASSES), rng)]))
            elif r < 0.85 and wid:
                evs.append("c:%d" % rng.randrange(1, wid + 1))
            elif r < 0.9:
                wid += 1
                evs.append(f"e:{wid}:" + rng.choice(["-", "-", str(3 * U + 1)]))
            elif r < 0.94:
                evs.append(rng.choice(["s", "s", "d:" + ",".join(map(str, rng.sample([1, 2, 3, 4], rng.randrange(1, 4))))]))
            elif r < 0.98:
                evs.append("x")
            else:
                evs.append(rng.choice(["X", "j", "h"]))
        out.append((list(range(1, H + 1)), evs + _req_tail(rng, hold), "random"))
    return out


# --------------------------------------------------------------------------- zeroconf through the service browser of the real controller

def _hl(hs):
    return ",".join(str(h) for h in hs)


def gen_browser_histories(rng, n_random=200, grid_sample=None):
    """the accessory's mDNS life as the service browser reports it to the real IpController, on a network where a TCP connect
    succeeds only to an address the accessory really has.  (A) EVERY combination of {re-announcement reported as Added, Updated}
    x {goodbye (Removed) 0.1 s / 0.4 s after it - inside the 0.5 s resolve debounce - , 0.6 s after it, no goodbye} x {the session
    was up and is dropped, the accessory was never reached} x {away for 0.2 s, 5 s, 100 s} x {back on the same addresses, on
    another address, with an address added (only the new one works), partly moved} x {reported as Added, Updated};
    (B) random lives: announcements, goodbyes, flapping within and across the debounce window, address changes with and without
    a goodbye, power cuts, callers, requests, closes.  Each followed by more than 400 s of retries."""
    out = []
    for first in ("zA", "zU"):
        for gap in (U // 10, 2 * U // 5, 3 * U // 5, None):
            for up in (True, False):
                for away in (U // 5, 5 * U, 100 * U):
                    for back in ("same", "other", "added", "partly"):
                        for backcb in ("zA", "zU"):
                            H = rng.choice([1, 1, 2])
                            hosts = list(range(1, H + 1))
                            evs = [f"n:{_hl(hosts)}" if up else "n:-", f"zA:{_hl(hosts)}", f"a:{U}", "a:%d" % rng.choice([3 * U, 20 * U])]
                            evs.append(f"{first}:{_hl(hosts)}")
                            if gap is not None:
                                evs += [f"a:{gap}", "zR"]
                            evs += ["n:-"] + ([rng.choice(["p:c", "p:c:r"])] if up else []) + [f"a:{away}"]
                            new, at = {"same": (hosts, hosts), "other": ([4], [4]), "added": (hosts + [4], [4]), "partly": ([hosts[0], 4], [4])}[back]
                            evs += [f"n:{_hl(at)}", f"{backcb}:{_hl(new)}"]
                            evs += [f"a:{U}", f"a:{12 * U}"] + ([f"zU:{_hl(new)}"] if rng.random() < 0.4 else []) + [f"a:{100 * U}", f"a:{300 * U}"]
                            if rng.random() < 0.25:
                                evs += [rng.choice(["x", "X"]), f"zU:{_hl(new)}", f"a:{12 * U}"]
                            out.append((hosts, evs, "grid"))
    if grid_sample is not None and len(out) > grid_sample:
        out = rng.sample(out, grid_sample)
    for _ in range(n_random):
        H = rng.randrange(1, 4)
        hosts = list(range(1, H + 1))
        cur = list(hosts)   # the addresses the accessory has at the moment
        on = rng.random() < 0.8
        evs = [f"n:{_hl(cur)}" if on else "n:-"]
        if rng.random() < 0.8:
            evs += [f"zA:{_hl(cur)}", f"a:{U}"]
        wid = 0
        for _ in range(rng.randrange(4, 14)):
            r = rng.random()
            if r < 0.22:
                evs.append("a:%d" % rng.choice([U // 10, U // 5, 2 * U // 5, 3 * U // 5, U, 3 * U, 12 * U, 40 * U, 130 * U]))
            elif r < 0.36:
                evs.append(rng.choice(["zU", "zU", "zA"]) + ":" + _hl(cur))
            elif r < 0.48:
                evs.append("zR")
                if rng.random() < 0.6:
                    on = False
                    evs += ["n:-", rng.choice(["p:c", "p:c:r"])]
            elif r < 0.62:
                # the accessory gets other addresses (new lease, another interface), with or without announcing it at once
                cur = sorted(rng.sample([1, 2, 3, 4, 5], rng.randrange(1, 4)))
                on = True
                evs += [f"n:{_hl(cur)}"] + ([rng.choice(["p:c", "p:c:r"])] if rng.random() < 0.7 else [])
                if rng.random() < 0.85:
                    evs.append(rng.choice(["zA", "zU"]) + ":" + _hl(cur if rng.random() < 0.8 else sorted(set(cur) | {rng.choice([1, 2, 3])})))
            elif r < 0.7:
                on = not on
                evs += [f"n:{_hl(cur)}"] if on else ["n:-", "p:c"]
            elif r < 0.78:
                wid += 1
                evs.append(rng.choice([f"e:{wid}:-", f"r:{wid}:g:-", f"r:{wid}:w:-", f"e:{wid}:{3 * U + 1}"]))
            elif r < 0.84:
                evs.append(rng.choice(["p:c", "p:c:r"]))
            elif r < 0.9:
                evs.append("x")
            elif r < 0.93:
                evs.append("s")
            elif r < 0.95:
                evs.append("X")
            else:
                evs.append(rng.choice(["zR", "zU:" + _hl(cur)]) + "+" + rng.choice(["zA:" + _hl(cur), "zU:" + _hl(cur), "zR", f"e:{wid + 30}:-", "x"]))
        evs += [f"a:{U}", f"a:{12 * U}", f"a:{100 * U}", f"a:{300 * U}"]
        out.append((hosts, evs, "random"))
    return out


# --------------------------------------------------------------------------- callers that keep asking while every attempt fails

POLL_PERIODS = [U // 4, U, 3 * U, 7 * U, 10 * U, 10 * U + 1, 15 * U, 30 * U, 45 * U, 61 * U]


def _fail_script(rng, n, hosts):
    """n scripted outcomes of connection attempts, none of which brings a session up (and none an authentication error)"""
    r = rng.random()
    if r < 0.3:
        return ["t:r"] * n                                     # nothing listens
    if r < 0.4:
        return ["t:t"] * max(3, n // 8) + ["t:r"] * n          # packets vanish (10 s per address), then refused
    if r < 0.55:
        return [ver_token("fa", rng) for _ in range(n)]        # the accessory answers and spoils every pair-verify
    out, tcp = [], []
    for _ in range(n):
        c = rng.random()
        if c < 0.45:
            tcp.append("t:r")
        elif c < 0.5:
            tcp.append("t:t")
        else:
            tcp.append(f"t:o:{rng.randrange(0, len(hosts))}")
            out.append(ver_token(rng.choice(["fa", "fa", "fa", "fa", "wr", "wr", "ha", "ol"]), rng))
    return tcp + out


def gen_polling_histories(rng, n):
    """an accessory that stays unreachable for minutes (every TCP connect refused / unanswered, every pair-verify spoilt - scripted,
    or `n:-`: the accessory is nowhere) while callers KEEP ASKING for the connection: after a first request (a caller, a public
    request or a zeroconf sighting) and a lead time {0, 0.3 s, 5 s, 40 s, 100 s, 300 s}, 8..70 callers arrive one per period
    (period from 0.25 s to 61 s: faster than, as fast as and slower than the caller's bounded 10 s wait) through
    _ensure_connected with and without their own time-out, get_characteristics or another public request; some are cancelled half
    a period later; now and then zeroconf reports the device (same / other addresses) - the one legitimate reason to retry early -
    and the polling goes on; at the end sometimes the accessory comes back, sometimes the pairing is closed."""
    out = []
    for i in range(n):
        H = rng.choice([1, 1, 2, 3])
        hosts = list(range(1, H + 1))
        period = rng.choice(POLL_PERIODS)
        polls = rng.randrange(8, 71) if period <= 15 * U else rng.randrange(8, 25)
        nowhere = rng.random() < 0.25
        evs = ["n:-"] if nowhere else _fail_script(rng, 90, hosts)
        evs.append(rng.choice(["e:1:-", "e:1:-", "s", "g:1:-", "r:1:l:-", "e:1:24577"]))
        lead = rng.choice([0, U // 3, 5 * U, 40 * U, 100 * U, 300 * U])
        if lead:
            evs.append(f"a:{lead}")
        wid = 1
        style = rng.choice(["e", "e", "e-own", "g", "r", "mixed"])
        for _ in range(polls):
            wid += 1
            st = style if style != "mixed" else rng.choice(["e", "e-own", "g", "r"])
            if st == "e":
                evs.append(f"e:{wid}:-")
            elif st == "e-own":
                evs.append(f"e:{wid}:{rng.choice([U // 2 + 1, 3 * U + 1, 7 * U + 1, 20 * U + 1])}")
            elif st == "g":
                evs.append(f"g:{wid}:-")
            else:
                evs.append(f"r:{wid}:{rng.choice(REQ_APIS)}:" + ("-" if rng.random() < 0.8 else str(3 * U + 1)))
            r = rng.random()
            if r < 0.12:
                evs += [f"a:{period // 2}", f"c:{wid}", f"a:{period - period // 2}"]
            elif r < 0.17:
                # zeroconf reports the device: a retry at once is in order, and the polling goes on
                evs += [f"a:{period // 2}", rng.choice(["s", "s", "d:" + ",".join(map(str, sorted(rng.sample([1, 2, 3, 4], rng.randrange(1, 4)))))]), f"a:{period - period // 2}"]
            else:
                evs.append(f"a:{period}")
        r = rng.random()
        if r < 0.3:
            evs += ["n:*" if nowhere else "s", f"a:{70 * U}", f"e:{wid + 1}:-", f"a:{12 * U}"]
        elif r < 0.6:
            evs += [rng.choice(["x", "x", "X"]), f"a:{70 * U}"]
        else:
            evs += [f"a:{130 * U}"]
        out.append((hosts, evs, "polling-%s" % ("fast" if period < 10 * U else "slow" if period > 10 * U + 1 else "10s")))
    return out


# --------------------------------------------------------------------------- a close (shutdown, cancel, drop, update) in EVERY loop iteration of a connection set-up

# (name, addresses, history before, the event that makes the library set a connection up - a part of the composite event)
SWEEP_PHASES = [
    ("first-by-caller", [1], [], "e:1:-"),
    ("first-by-request", [1], [], "g:1:-"),
    ("first-by-zeroconf", [1], [], "s"),
    ("reconnect-after-accessory-close", [1], ["e:1:-"], "p:0"),
    ("reconnect-after-reset", [1], ["s", f"a:{U}"], "p:0:r"),
    ("retry-after-back-off", [1], ["t:r", "e:1:-"], "a:6144"),
    ("retry-after-spoilt-verify", [1, 2], ["v:fa:close2", "s"], "a:6144"),
    ("retry-after-drop-at-resubscription", [1], ["v:ol:oksubdrop", "e:1:-"], "a:6144"),
    ("second-address-after-wrong-id", [1, 2], ["v:wr:wrongid"], "e:1:-"),
    ("second-address-after-tcp-timeout", [1, 2], ["t:t", "e:1:24577"], f"a:{10 * U}"),
    ("woken-by-zeroconf", [1], ["t:r", "t:r", "t:r", "e:1:-", f"a:{U}"], "s"),
    ("reopened-after-close", [1], ["e:1:-", "x"], "e:1:-"),
    ("slow-resubscription", [1], ["q:h"], "e:1:-"),
]
SWEEP_SUBS = [None, [[1, 9], [2, 9], [3, 9], [1, 10]], []]   # the default (1, 9); three accessories of a bridge (three requests); none
SWEEP_ACTIONS = ["x", "X", "c:1", "p:c", "s", "x+e:9:-"]


def gen_close_sweeps(rng, sample=None, margin=2):
    """for every way a connection comes to be set up (SWEEP_PHASES) x every set of subscriptions to restore (SWEEP_SUBS): the
    number N of loop iterations the set-up takes - from the event that starts it, through TCP connect, pair-verify and the
    re-subscription of the new session, until the loop is at rest - is MEASURED on a dry run, and then each action of
    SWEEP_ACTIONS (close, shutdown, cancel the caller, accessory drops the connection, zeroconf update, close + new request) is
    issued after k = 0 .. N+margin bare loop iterations: in EVERY iteration of the window, in particular in each one between the
    accessory's last pair-verify reply and the end of the re-subscription.  Followed by long quiet periods (2 units, 12 s, 100 s,
    300 s), sometimes a new caller and a close.  `sample`: the close sweeps with the default subscription are kept in full, the
    rest is sampled down to that many histories."""
    core, rest = [], []
    for name, hosts, pre, trig in SWEEP_PHASES:
        for si, subs in enumerate(SWEEP_SUBS):
            try:
                dry = run_scenario(hosts, list(pre) + [trig], seed=1, subs=subs)
                n_iter = dry.iters[len(pre)]
            except Exception:  # noqa: BLE001
                n_iter = 12
            for act in SWEEP_ACTIONS:
                for k in range(0, min(n_iter, 60) + margin + 1):
                    tail = ["a:2", f"a:{12 * U}"] + (["q:a"] if "q:h" in pre and rng.random() < 0.7 else []) + [f"a:{100 * U}", f"a:{300 * U}"]
                    if rng.random() < 0.3:
                        tail += ["e:99:-", f"a:{12 * U}", rng.choice(["x", "X"]), f"a:{12 * U}"]
                    evs = list(pre) + ["+".join([trig] + ["."] * k + [act])] + tail
                    tup = (list(hosts), evs, "sweep", {"subs": subs, "sweep": {"phase": name, "offset": k, "action": act, "window": n_iter}})
                    (core if act == "x" and si == 0 else rest).append(tup)
    if sample is not None and len(rest) > sample:
        rest = rng.sample(rest, sample)
    return core + rest
