"""C12 - subscriptions survive reconnects and every event reaches every listener once."""
from __future__ import annotations

import asyncio
import functools
import itertools
import json
import random
from unittest.mock import MagicMock

from harness import simnet
from harness.acc import Accessory, http
from harness.common import Ctx, Driver, compare_with_model, load_corpus, shrink_list
from harness.rcsim import settle

from aiohomekit.characteristic_cache import CharacteristicCacheMemory
from aiohomekit.controller.ip.pairing import IpPairing

ID = "C12"
RULE = ("histories on the simulated network (unpatched IpPairing against a scaffold accessory with real pair-verify and encrypted frames), EXHAUSTIVE to depth 4 (quick) / 5 (thorough) over "
        "{subscribe / unsubscribe overlapping sets on two accessory ids (lists with interleaved ids), subscribe cut off by a disconnection, accessory drops the connection, reconnect, "
        "register listener of each kind (normal, raising, unregistering itself inside the callback, registering another listener inside the callback), remove listener, "
        "event bursts (1..3 EVENT messages in one read or split at arbitrary byte offsets; empty, non-JSON and non-UTF-8 bodies)} plus random histories to length 30. "
        "non-trivial = distinct history")
TRUSTED = ["harness/simnet.py virtual-time loop and in-memory transport", "harness/acc.py scaffold accessory: per-session record of ev registrations from PUT /characteristics", "orjson parses the event bodies"]
ASSUMPTIONS = ["one model event = one harness action followed by running the loop to quiescence",
               "a subscribe issued while disconnected is left to run out its 10 s pairing-level wait before the next action (so it cannot overlap a later reconnect)",
               "reconnection is refused by the simulated network until the explicit reconnect event; no request of the accessory is answered with a per-characteristic error status",
               "the order in which listeners are called within one delivery is not observed (set iteration order); each listener's own log is"]
EXPLANATION = ("Lean theorems C12_* over the subscription/listener automaton HapVerif.Subs (wanted set changes only by subscribe/unsubscribe; after every connect the registered set covers the wanted set unless the polling fallback was entered, "
               "and every listener is told; each delivery calls every listener of the snapshot exactly once, bursts in order; raising/unregistering/registering listeners do not affect the others or the connection; junk bodies deliver nothing) "
               "+ differential tie on the accessory's per-session registrations and every listener's call log")


class CallableListener:
    """a listener that is an object with __call__ (no __name__)"""

    def __init__(self, inner):
        self.inner = inner

    def __call__(self, ev):
        return self.inner(ev)


def parse_chs(t):
    return [] if t in ("-", "") else [tuple(int(x) for x in c.split(".")) for c in t.split(",")]


def show_chs(cs):
    cs = sorted(set(cs))
    return ",".join(f"{a}.{i}" for a, i in cs) if cs else "-"


def body_bytes(b):
    if b.startswith("c="):
        keys = parse_chs(b[2:])
        return json.dumps({"characteristics": [{"aid": a, "iid": i, "value": 1} for a, i in keys]}).encode()
    return {"empty": b"", "notjson": b"garbage{", "notutf8": b"\xff\xfe\xfa"}[b]


async def scenario(loop, events, seed):
    rnd = random.Random(seed)
    net = simnet.Net(loop)
    acc = Accessory(loop, net, lambda n: bytes(rnd.randrange(256) for _ in range(n)))
    cut = {"on": False}
    auto_put = acc._handle

    def responder(s, method, target, body):
        if target == "/characteristics" and method == "PUT":
            if cut["on"]:
                cut["on"] = False
                s.t.peer_close()
                return None
            d = json.loads(body)
            refused = False
            for c in d["characteristics"]:
                if "ev" in c:
                    s.sub_log.append((c["aid"], c["iid"], bool(c["ev"])))
                    # `subs` = what this session was asked to notify (the model's view); instance ids from 90 up do not
                    # support events on this accessory: it says so in a multi-status reply that lists EVERY characteristic
                    (s.subs.add if c["ev"] else s.subs.discard)((c["aid"], c["iid"]))
                    refused = refused or (c["ev"] and c["iid"] >= 90)
            if refused:
                rows = [{"aid": c["aid"], "iid": c["iid"], "status": (-70406 if c["iid"] >= 90 else 0)} for c in d["characteristics"]]
                return http(json.dumps({"characteristics": rows}).encode(), b"application/hap+json", code=b"207 Multi-Status")
            return b"HTTP/1.1 204 No Content\r\n\r\n"
        return http(b"{}", b"application/hap+json")
    acc.responder = responder
    ctrl = MagicMock()
    ctrl._char_cache = CharacteristicCacheMemory()
    lines, problems = [], []
    logs = {}      # listener id -> list of key lists
    kinds = {}
    removers = {}
    cb_ids = {}
    with net.patched():
        p = IpPairing(ctrl, acc.pairing_data(["10.0.0.1"]))
        conn = p.connection
        net.connect_outcomes = ["refused"] * 1000000

        def make_listener(lid, kind):
            logs[lid] = []
            kinds[lid] = kind

            def cb(ev):
                logs[lid].append(sorted(ev.keys()))
                if kind == "x":
                    raise ValueError("listener boom")
                if kind == "rm":
                    removers[lid]()
                if kind.startswith("add~"):
                    k = int(kind[4:])
                    if k not in logs:
                        make_listener(k, "n")
            # callers register all sorts of callables: plain functions, functools.partial objects, callable instances
            shape = lid % 3
            if shape == 1:
                reg = functools.partial(lambda inner, ev: inner(ev), cb)
            elif shape == 2:
                reg = CallableListener(cb)
            else:
                reg = cb
            cb_ids[reg] = lid
            removers[lid] = p.dispatcher_connect(reg)

        async def call(coro):
            t = asyncio.ensure_future(coro)
            await settle(loop)
            if not t.done():
                # disconnected: let the pairing-level wait run out
                await asyncio.sleep(10.5)
                await settle(loop)
            if not t.done():
                problems.append(("call-hangs", "subscribe/unsubscribe did not return within 10.5 s"))
                t.cancel()
            elif t.exception() is not None:
                problems.append(("call-raised", f"subscribe/unsubscribe raised {type(t.exception()).__name__}"))

        wanted_ref = set()  # what the caller has subscribed to and not successfully unsubscribed from (kept by the harness)
        for ev in events:
            f = ev.split(":", 1)
            k = f[0]
            if k in ("sub", "cutsub"):
                wanted_ref |= set(parse_chs(f[1]))
            elif k == "unsub":
                wanted_ref -= set(parse_chs(f[1]))  # this accessory accepts every unsubscription
            n_sessions_before = len(acc.order)
            was_connected = bool(p.is_connected)
            was_supported = bool(p.supports_subscribe)
            before_active = active_ids(p, cb_ids)
            before_len = {lid: len(logs[lid]) for lid in logs}
            if k == "sub":
                await call(p.subscribe(parse_chs(f[1])))
            elif k == "unsub":
                await call(p.unsubscribe(parse_chs(f[1])))
            elif k == "cutsub":
                cut["on"] = bool(p.is_connected and p.supports_subscribe)
                await call(p.subscribe(parse_chs(f[1])))
                cut["on"] = False
            elif k == "drop":
                if net.open:
                    net.open[-1].peer_close()
            elif k == "conn":
                if not p.is_connected:
                    net.connect_outcomes = ["ok"] + ["refused"] * 1000000
                    conn.reconnect_soon()
            elif k == "ladd":
                lid, kind = f[1].split(":")
                if int(lid) not in logs:
                    make_listener(int(lid), kind)
            elif k == "lrem":
                lid = int(f[1])
                if lid in removers:
                    removers[lid]()
            elif k == "ev":
                if p.is_connected and net.open:
                    t = net.open[-1]
                    data = b"".join(http(body_bytes(b), b"application/hap+json", kind=b"EVENT/1.0") for b in f[1].split("|"))
                    data = acc.frame(acc.sessions[t], data)
                    cuts = sorted(rnd.sample(range(1, len(data)), min(rnd.choice([0, 0, 1, 3]), len(data) - 1)))
                    prev = 0
                    for c in cuts + [len(data)]:
                        t.feed(data[prev:c])
                        prev = c
            else:
                raise ValueError(ev)
            await settle(loop)
            cur = net.open[-1] if net.open else None
            reg = sorted(acc.sessions[cur].subs) if (cur is not None and p.is_connected) else []
            ses = sum(1 for s in acc.order if s.secure)
            line = (f"wanted={show_chs(p.subscriptions)} reg={show_chs(reg)} sup={1 if p.supports_subscribe else 0} con={1 if p.is_connected else 0} ses={ses} active={len(p.listeners)} "
                    + " ".join(f"L{lid}=[" + ";".join(show_chs(x) for x in logs[lid]) + "]" for lid in sorted(logs)))
            lines.append(line)
            # ---- property oracle on the implementation
            if k == "conn" and not was_connected and p.is_connected:
                if p.supports_subscribe and not set(p.subscriptions) <= set(reg):
                    problems.append(("not-resubscribed", f"after reconnect the accessory was not asked again for {show_chs(set(p.subscriptions) - set(reg))}"))
                asked = {(a, i) for a, i, e in acc.sessions[cur].sub_log if e} if cur is not None else set()
                if p.supports_subscribe and not wanted_ref <= asked:
                    problems.append(("not-resubscribed", f"after reconnect the accessory was asked for events of {show_chs(asked)} only; the caller's subscriptions {show_chs(wanted_ref - asked)} were never requested again"))
                for lid in before_active:
                    if logs[lid][before_len[lid]:] != [[]]:
                        problems.append(("not-told-connection-back", f"listener {lid} got {logs[lid][before_len[lid]:]} instead of one empty 'connection is back' event"))
            if k == "ev" and was_connected:
                want = [sorted(set(parse_chs(b[2:]))) for b in f[1].split("|") if b.startswith("c=")]
                for lid in before_active:
                    got = logs[lid][before_len[lid]:]
                    exp = want[:1] if kinds[lid] == "rm" else want
                    if got != exp:
                        sig = "event-lost" if len(got) < len(exp) else ("event-duplicated" if len(got) > len(exp) else "event-wrong")
                        problems.append((sig, f"listener {lid} ({kinds[lid]}) got {got} but the accessory sent {exp}"))
                if not p.is_connected:
                    problems.append(("connection-broken-by-event", f"the connection was torn down while delivering {f[1]}"))
            if was_supported and not p.supports_subscribe and not (k == "cutsub" and was_connected):
                problems.append(("fallback-without-cut", f"after {ev}: the pairing fell back to polling (supports_subscribe=False) although no subscription request was cut off by a disconnection; nothing will be re-subscribed after the next reconnect"))
            if net.errors:
                problems.append(("callback-raised", f"after {ev}: {net.errors[0]}"))
                del net.errors[:]
        await p.shutdown()
        await settle(loop)
    return lines, problems


def active_ids(p, cb_ids):
    return {cb_ids[cb] for cb in p.listeners if cb in cb_ids}


def model_line(events):
    return "sb.run " + " ".join(e.replace(":n", ":n").replace(" ", "") for e in events)


ALPHA = ["sub:1.10,2.20,1.11", "sub:2.21", "sub:1.12,1.90", "unsub:1.10", "unsub:2.20,2.21", "cutsub:1.12", "drop", "conn", "ladd:1:n", "ladd:2:x", "ladd:3:rm", "ladd:4:add~5", "lrem:1",
         "ev:c=1.10", "ev:c=1.10,2.20|c=1.11", "ev:empty|c=2.21|notjson", "ev:notutf8|c=1.10"]


def gen_exhaustive(depth, rng, sample=None):
    seqs = []
    for d in range(1, depth + 1):
        for seq in itertools.product(ALPHA, repeat=d):
            seqs.append(list(seq))
    if sample is not None and len(seqs) > sample:
        seqs = rng.sample(seqs, sample)
    out = []
    for seq in seqs:
        # most histories start connected with a listener, so that depth is spent on the interesting part
        r = rng.random()
        pre = ["conn", "ladd:1:n"] if r < 0.6 else (["ladd:2:x", "sub:1.10", "conn"] if r < 0.8 else [])
        out.append(pre + seq)
    return out


def gen_random(rng):
    evs = []
    for _ in range(rng.randrange(4, 30)):
        r = rng.random()
        chs = ",".join(f"{rng.choice([1, 2])}.{rng.choice([10, 11, 12, 20, 21, 90])}" for _ in range(rng.randrange(1, 5)))
        if r < 0.18:
            evs.append("sub:" + chs)
        elif r < 0.28:
            evs.append("unsub:" + chs)
        elif r < 0.32:
            evs.append("cutsub:" + chs)
        elif r < 0.42:
            evs.append("drop")
        elif r < 0.56:
            evs.append("conn")
        elif r < 0.68:
            lid = rng.randrange(1, 7)
            evs.append(f"ladd:{lid}:" + rng.choice(["n", "n", "x", "rm", f"add~{rng.randrange(1, 9)}"]))
        elif r < 0.73:
            evs.append(f"lrem:{rng.randrange(1, 7)}")
        else:
            bodies = []
            for _ in range(rng.randrange(1, 4)):
                b = rng.random()
                if b < 0.75:
                    bodies.append("c=" + ",".join(f"{rng.choice([1, 2])}.{rng.choice([10, 11, 20])}" for _ in range(rng.randrange(1, 3))))
                else:
                    bodies.append(rng.choice(["empty", "notjson", "notutf8"]))
            evs.append("ev:" + "|".join(bodies))
    return evs


def run_cases(ctx: Ctx, driver: Driver, cases):
    loop = simnet.VLoop()
    asyncio.set_event_loop(loop)
    impl, lines, cs = [], [], []
    minimized = {}
    try:
        for i, (events, kind) in enumerate(cases):
            out, problems = loop.run_until_complete(scenario(loop, events, ctx.seed * 104729 + i))
            pend = [t for t in asyncio.all_tasks(loop) if not t.done()]
            for t in pend:
                t.cancel()
            if pend:
                loop.run_until_complete(asyncio.gather(*pend, return_exceptions=True))
            ctx.evaluations += 1
            ctx.nontrivial.add(tuple(events))
            ctx.dist["kind:" + kind] += 1
            for e in events:
                ctx.dist["ev:" + e.split(":")[0]] += 1
                if e.startswith("ev:"):
                    for b in e[3:].split("|"):
                        ctx.dist["body:" + b.split("=")[0]] += 1
            case = {"stream": "subs", "events": events, "seed": ctx.seed * 104729 + i}
            seen = set()
            for sig, text in problems:
                if sig not in seen:
                    seen.add(sig)
                    vcase = dict(case)
                    if sig not in minimized and len(minimized) < 4:
                        def still(evs, sig=sig):
                            _, pr = loop.run_until_complete(scenario(loop, evs, vcase["seed"]))
                            pend2 = [t for t in asyncio.all_tasks(loop) if not t.done()]
                            for t in pend2:
                                t.cancel()
                            if pend2:
                                loop.run_until_complete(asyncio.gather(*pend2, return_exceptions=True))
                            return any(s2 == sig for s2, _ in pr)
                        small = shrink_list(events, still)
                        minimized[sig] = small
                        vcase["minimized_events"] = small
                        text = text + f" [minimal history: {' '.join(small)}]"
                    ctx.violation(f"ip/{sig}", text, vcase)
            cs.append(case)
            impl.append(" ; ".join(x.strip() for x in out))
            lines.append(model_line(events))
    finally:
        asyncio.set_event_loop(None)
        loop.close()
    if cs:
        ctx.sample(cs[min(9, len(cs) - 1)])
        ctx.sample(cs[-1])
    compare_with_model(ctx, "subs", cs, impl, lines, driver, canon=lambda s: " ; ".join(x.strip() for x in s.split(" ; ")))


def cases_for(ctx):
    rng = ctx.rng
    cases = [(c["events"], "corpus") for c in load_corpus(ID)]
    for evs in gen_exhaustive(ctx.budget(2, 3), rng, sample=ctx.budget(None, 6000)):
        cases.append((evs, "exhaustive"))
    for evs in gen_exhaustive(ctx.budget(3, 4), rng, sample=ctx.budget(500, 8000)):
        cases.append((evs, "exhaustive-sampled"))
    for _ in range(ctx.budget(500, 10000)):
        cases.append((gen_random(rng), "random"))
    return cases


def run(ctx: Ctx, driver: Driver):
    run_cases(ctx, driver, cases_for(ctx))


def replay(ctx: Ctx, driver: Driver, case):
    run_cases(ctx, driver, [(case["events"], "replay")])


def search(ctx: Ctx, driver: Driver, broken):
    rng = ctx.rng
    run_cases(ctx, driver, [(gen_random(rng), "search") for _ in range(ctx.budget(3000, 30000))])
