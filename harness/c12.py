"""C12 - subscriptions survive reconnects and every event reaches every listener once."""
from __future__ import annotations

import asyncio
import base64
import functools
import itertools
import json
import random
import re
import struct
from unittest import mock
from unittest.mock import MagicMock

from cryptography.exceptions import InvalidTag
from cryptography.hazmat.primitives.ciphers.aead import ChaCha20Poly1305

from harness import refacc, simnet
from harness.acc import Accessory, http
from harness.common import Ctx, Driver, compare_with_model, load_corpus, shrink_list
from harness.rcsim import settle

from aiohomekit import hkjson
from aiohomekit.characteristic_cache import CharacteristicCacheMemory
from aiohomekit.controller.ip.pairing import IpPairing

ID = "C12"
RULE = ("histories on the simulated network (unpatched IpPairing against a scaffold accessory with real pair-verify and encrypted frames), EXHAUSTIVE to depth 4 (quick) / 5 (thorough) over "
        "{subscribe / unsubscribe overlapping sets on two accessory ids (lists with interleaved ids), subscribe cut off by a disconnection, accessory drops the connection, reconnect, "
        "register listener of each kind (normal, raising, unregistering itself inside the callback, registering another listener inside the callback), remove listener, "
        "event bursts (1..3 EVENT messages in one read or split at arbitrary byte offsets; empty, non-JSON and non-UTF-8 bodies; bodies in every dialect the library's own JSON layer hkjson.loads accepts - trailing commas in "
        "arrays and objects, // and # comments, CRLF/tab pretty-printing, permuted and extra keys, non-ASCII strings, values longer than one encrypted frame - and near-JSON it rejects - block comments, single quotes, doubled and leading "
        "commas, NaN, truncated and concatenated documents; every event carries its own value so that order and multiplicity are observed per event)} plus random histories to length 30; "
        "OVERLAPPING-CALL histories (stream overlap): the accessory withholds its answers to PUT /characteristics while further subscribe / unsubscribe calls (disjoint and overlapping sets, two accessory ids, list/tuple/set arguments) are issued by other tasks "
        "- subscribe during unsubscribe, unsubscribe during subscribe, several of each, calls issued while disconnected and overtaken by the reconnect, calls issued during the re-subscription of a reconnect - answers released one at a time, all at once, or "
        "in the same read as EVENT messages, connection drops with calls in flight, events arriving while a request is unanswered, then disconnect/reconnect cycles (directed family over all pairs of calls x sets x release order + random histories to length 24). "
        "THE WIRE (token `wire:`, streams wire-directed / wire-random / overlap-wire): the accessory writes its EVENT messages and its answers to PUT /characteristics Content-Length framed, `Transfer-Encoding: chunked` or alternately "
        "(whole body in one chunk, one byte per chunk, N bytes, random sizes; lower/upper-case/zero-padded sizes; empty bodies), and its plaintext is cut into encrypted frames - the reads of the HTTP parser - in every way: one write per burst, "
        "per message, per piece (head / size line / chunk data / CRLF / last-chunk line / final CRLF), two writes per message cut at each byte of the terminator (`0 CRLF CRLF`, or the blank line of the head), n cuts anywhere, one byte per frame; "
        "the ciphertext again cut into reads (one, one per frame, random, one byte per read); bursts of 1..4 messages, multi-status answers and the re-subscription answers of a reconnect written the same way. "
        "MANY SUBSCRIPTIONS (streams many-subscriptions / overlap-many-subscriptions): 40..120 characteristics of one accessory id plus some of others, subscribed a few at a time, all in one call, or while disconnected, with unsubscriptions of ranges, refused "
        "characteristics (multi-status answers of several frames) and events for up to 30 characteristics in between, then 1..3 disconnect/reconnect cycles: the subscription / re-subscription requests span up to 4 encrypted frames; the scaffold accessory "
        "authenticates every frame under its own per-frame counter and ends the session when one fails, as a conformant accessory does. "
        "THE PAIRING'S ACCESSORY DATABASE vs. WHAT THE ACCESSORY SENDS EVENTS FOR (token `db:`, streams database-directed / database-random): the database absent, loaded from the controller's characteristic cache at construction, by "
        "restore_accessories_state, by list_accessories_and_characteristics / async_populate_accessories_state against the accessory - before the connection, while connected and subscribed, replaced between two bursts; complete, typed "
        "(bool / uint8..64 / int / float / string / tlv8 / data), OUTDATED (an accessory id it does not know: bridged later; a known accessory without the service; single instance ids missing), foreign, listing no accessory; bursts in which "
        "the unknown characteristic comes first / in the middle / last / alone / in one EVENT message with a known one, and event values of every JSON type (string, bool, float, null, negative, > 32 bit, base64, empty string) against whatever "
        "format is on record. "
        "EVERY TRANSPORT THAT HAS AN EVENT PATH (implementation-level oracles from the harness's own record of what the accessory sent): stream coap - the unpatched CoAPPairing / CoAPHomeKitConnection / EncryptionContext / EventResource with only "
        "aiocoap's Context replaced, against the harness's accessory (real pair-verify, PDUs sealed under the session keys, database encoded by the harness): event notifications of 1..6 records, values of every format and of 0..700 bytes (TLV "
        "fragments), the EMPTY value (a record that is just its header) and the zero-length value at EVERY position, several notifications in a row, retransmitted and foreign notifications (delivered never), characteristics added after the "
        "controller read the database, the pairing-level database absent / fetched / restored incomplete, every listener kind, accessory reboots (4.04) followed by the re-subscription of the next call; stream ble-broadcast - the unpatched "
        "BleController / BlePairing loaded from a characteristic cache (database, state number, broadcast key), advertisements handed to the scanner's detection callback: encrypted broadcast notifications heard 1..7 times each (ONE event), heard "
        "again late, state-number gaps up to 90 (broadcasts nobody heard), regular advertisements in between, broadcasts not sealed under the accessory's key; stream ble-gatt - BlePairing connected through a GATT link stand-in (real pair-verify, "
        "sealed HAP-BLE PDUs with fragmentation): subscribe before / after the connection, zero-length indications singly and in bursts of 2..3 (the library may fold a burst: 1..n deliveries, the last one carrying the value the accessory holds), "
        "link losses followed by a reconnecting call: 3 s later indications must be enabled again for every subscription. "
        "non-trivial = distinct history")
TRUSTED = ["harness/simnet.py virtual-time loop and in-memory transport", "harness/acc.py scaffold accessory: per-session record of ev registrations from PUT /characteristics",
           "cryptography's ChaCha20Poly1305 in the scaffold accessory: whether a frame of the controller authenticates under the accessory's own per-frame counter", "orjson parses the event bodies", "aiohomekit.hkjson.loads, called by the harness on the body it sends, decides whether a lenient body is an event (the library's documented JSON dialect); what the event then means is the harness's own construction",
           "harness/refacc.py pair-verify accessory and cryptography's ChaCha20Poly1305 / X25519 / Ed25519 in the CoAP and BLE accessories of the harness; the TLV8 / HAP-PDU / advertisement encoders written in harness/c12.py (t8, coap_database, sealed)",
           "whether the CoAP controller's copy of the database knows an instance id (Pdu09Database.find_characteristic_by_iid) only decides whether the VALUE a listener is handed is compared - the key, count and order always are"]
ASSUMPTIONS = ["one model event = one harness action followed by running the loop to quiescence",
               "a subscribe issued while disconnected is left to run out its 10 s pairing-level wait before the next action (so it cannot overlap a later reconnect)",
               "reconnection is refused by the simulated network until the explicit reconnect event; no request of the accessory is answered with a per-characteristic error status",
               "the order in which listeners are called within one delivery is not observed (set iteration order); each listener's own log is",
               "overlap stream: implementation-level oracles only (the Lean automaton has one atomic event per call); the caller-side reference under overlapping calls is linearizability per characteristic: a characteristic MUST be registered at a quiescent connected point "
               "iff every call touching it that can be last in some order consistent with issue/return times is a subscribe; an unsubscribe that raised still counts as a possible remover; the accessory answers in arrival order (the library sends one request at a time); "
               "an answer withheld for 30 s of virtual time counts as a disconnection (the library's request timeout)",
               "a disconnection that exempts the fall-back to polling is one the NETWORK (the harness) performs; the accessory ending a session because a frame of the controller does not authenticate is not one (reported as request-not-authentic, "
               "and the fall-back that follows as fallback-without-cut); chunked messages carry no chunk extensions and no trailers; the value of Transfer-Encoding is spelled `chunked`",
               "CoAP / BLE streams: one accessory id (1) - HAP over CoAP and BLE address characteristics by instance id only; the accessory's values have the length of the format it announced (a characteristic whose FORMAT changed after the controller read the "
               "database is an ungated probe, see notes); an EMPTY CoAP record and data / tlv8 values are checked for key, count and order only; BLE broadcasts: state numbers stay below the 16-bit roll-over and within the library's look-ahead "
               "of 98 state numbers (beyond it the library deliberately polls instead, which needs a connection); BLE indications are hints to read: a burst of n may be delivered as 1..n events; 'listeners are told the connection is back' is "
               "asserted on IP only (the other transports have an availability callback instead)"]
EXPLANATION = ("Lean theorems C12_* over the subscription/listener automaton HapVerif.Subs (wanted set changes only by subscribe/unsubscribe; after every connect the registered set covers the wanted set unless the polling fallback was entered, "
               "and every listener is told; each delivery calls every listener of the snapshot exactly once, bursts in order; raising/unregistering/registering listeners do not affect the others or the connection; junk bodies deliver nothing) "
               "+ differential tie on the accessory's per-session registrations and every listener's call log")


class CallableListener:
    """a listener that is an object with __call__ (no __name__)"""

    def __init__(self, inner):
        self.inner = inner

    def __call__(self, ev):
        return self.inner(ev)


def parse_chs(t):
    """'1.10,2.20' -> [(1, 10), (2, 20)]; a range of instance ids is written '1.100-139'"""
    out = []
    if t in ("-", ""):
        return out
    for c in t.split(","):
        a, _, i = c.partition(".")
        lo, _, hi = i.partition("-")
        out.extend((int(a), x) for x in range(int(lo), int(hi or lo) + 1))
    return out


def brief_chs(cs):
    """show_chs with runs of instance ids written as ranges (for messages about many characteristics)"""
    out, run = [], None
    for a, i in sorted(set(cs)) + [(None, None)]:
        if run and run[0] == a and run[2] + 1 == i:
            run[2] = i
            continue
        if run:
            out.append(f"{run[0]}.{run[1]}" + (f"-{run[2]}" if run[2] > run[1] else ""))
        run = [a, i, i]
    return ",".join(out) if out else "-"


def refuses(iid):
    """instance ids 90..99 of the scaffold accessory do not support events"""
    return 90 <= iid <= 99


def show_chs(cs):
    cs = sorted(set(cs))
    return ",".join(f"{a}.{i}" for a, i in cs) if cs else "-"


# dialects of an EVENT body `c=<keys>@<dialect>`.  LENIENT: accepted by the library's JSON layer (strict JSON in unusual layouts, and the
# tolerant fallback of hkjson.loads: trailing commas, // and # comments); NEARJSON: looks like JSON, is rejected by it.  Which is which is NOT
# hard-wired: event_keys() asks hkjson.loads about the very bytes that are sent.
LENIENT = ("tc", "tco", "cm", "hc", "ws", "mix", "ord", "uni", "unitc", "big", "bigtc")
NEARJSON = ("blk", "sq", "dc", "lead", "nan", "trunc", "two")
# strict JSON bodies whose value is of another JSON type than the event number: string, bool, float, null, negative, beyond 32 bit, base64 (what a
# data / tlv8 characteristic reports), the empty string - whatever format the pairing's cached accessory database has on record for the characteristic
VALUES = ("vs", "vb", "vf", "vn", "vneg", "vhuge", "vx", "ve")


def event_value(dialect, n):
    """the value carried by the n-th event body of a history (distinct per body, so order and multiplicity are observable)"""
    if dialect in ("uni", "unitc"):
        return f"\u00e9\u4e2d\u2603 {n}"
    if dialect in ("big", "bigtc"):
        return f"{n}-" + "x" * 1500   # the EVENT message spans more than one 1024-byte encrypted frame
    if dialect in VALUES:
        return {"vs": f"v{n}", "vb": bool(n % 2), "vf": n + 0.5, "vn": None, "vneg": -n, "vhuge": 2 ** 40 + n, "vx": base64.b64encode(b"\x01\x02%d" % n).decode(), "ve": ""}[dialect]
    return n


def split_body(b):
    """'c=1.10,2.20@tc' -> ([(1, 10), (2, 20)], 'tc'); plain 'c=...' -> (keys, None); other tokens -> (None, None)"""
    if not b.startswith("c="):
        return None, None
    chs, _, dialect = b[2:].partition("@")
    return parse_chs(chs), (dialect or None)


def body_bytes(b, n=1):
    keys, dialect = split_body(b)
    if keys is None:
        return {"empty": b"", "notjson": b"garbage{", "notutf8": b"\xff\xfe\xfa"}[b]
    if dialect is None:
        return json.dumps({"characteristics": [{"aid": a, "iid": i, "value": n} for a, i in keys]}).encode()
    v = json.dumps(event_value(dialect, n), ensure_ascii=False)
    items = [f'{{"aid":{a},"iid":{i},"value":{v}}}' for a, i in keys]
    strict = '{"characteristics":[' + ",".join(items) + "]}"
    if dialect in ("tc", "unitc", "bigtc"):      # trailing comma in the array
        t = '{"characteristics":[' + "".join(x + "," for x in items) + "]}"
    elif dialect == "tco":                       # trailing commas in every object and in the array
        t = '{"characteristics":[' + "".join(x[:-1] + ",}," for x in items) + "],}"
    elif dialect == "cm":                        # // comments
        t = '// event notification\n{"characteristics":[' + ",".join(items) + "] // end of the list\n}"
    elif dialect == "hc":                        # # comments
        t = '# event notification\n{"characteristics":[' + ",".join(items) + "]} # done"
    elif dialect == "ws":                        # strict JSON, pretty-printed with CRLF and tabs
        t = "\r\n" + json.dumps({"characteristics": [{"aid": a, "iid": i, "value": n} for a, i in keys]}, indent="\t").replace("\n", "\r\n") + "\r\n"
    elif dialect == "mix":                       # comments, trailing commas and layout together
        t = '// ev\n{ "characteristics" : [\n' + "".join("  " + x + ", # item\n" for x in items) + "  ],\n}\n"
    elif dialect == "ord":                       # strict JSON, other key order, extra members
        t = '{"extra":null,"characteristics":[' + ",".join(f'{{"iid":{i},"value":{v},"status":0,"aid":{a}}}' for a, i in keys) + "]}"
    elif dialect in ("uni", "big") or dialect in VALUES:   # strict JSON with non-ASCII / long string values / values of another JSON type
        t = strict
    elif dialect == "blk":
        t = "/* event */" + strict
    elif dialect == "sq":
        t = strict.replace('"', "'")
    elif dialect == "dc":
        t = '{"characteristics":[' + "".join(x + ",," for x in items) + "]}"
    elif dialect == "lead":
        t = '{"characteristics":[,' + ",".join(items) + "]}"
    elif dialect == "nan":
        t = strict.replace('"value":' + v, '"value":NaN')
    elif dialect == "trunc":
        t = strict[:-2]
    elif dialect == "two":
        t = strict + strict
    else:
        raise ValueError(b)
    return t.encode("utf-8")


_GATE = {}


def event_keys(b):
    """The keys of the event that body token `b` is, or None when it is no event.  Plain `c=` bodies are strict JSON built by the harness;
    for a dialect body the library's JSON layer is asked, by the harness, whether it accepts the bytes that are sent (hkjson.loads is the
    documented dialect of everything the library receives); WHAT the event says is the harness's own construction, not the parse."""
    keys, dialect = split_body(b)
    if keys is None:
        return None
    if dialect is None:
        return keys
    if b not in _GATE:
        body = body_bytes(b, 1)
        try:
            parsed = hkjson.loads(body.decode("utf-8"))
            ok = isinstance(parsed, dict) and isinstance(parsed.get("characteristics"), list) and \
                [(c.get("aid"), c.get("iid")) if isinstance(c, dict) else None for c in parsed["characteristics"]] == keys
        except hkjson.JSON_DECODE_EXCEPTIONS:
            ok = False
        _GATE[b] = ok
    return keys if _GATE[b] else None


def model_body(b):
    """the body token as the Lean automaton knows it: an event with these keys, or a non-JSON body"""
    keys, dialect = split_body(b)
    if dialect is None:
        return ("c=" + ",".join(f"{a}.{i}" for a, i in keys)) if (keys and re.search(r"\d-\d", b)) else b
    return ("c=" + ",".join(f"{a}.{i}" for a, i in keys)) if event_keys(b) is not None else "notjson"


def event_bytes(bodies, counter):
    """-> (the EVENT messages, [(sorted key set, value)] of those that are events) for the body tokens of one burst"""
    data, want = b"", []
    for b in bodies:
        counter[0] += 1
        data += http(body_bytes(b, counter[0]), b"application/hap+json", kind=b"EVENT/1.0")
        keys = event_keys(b)
        if keys is not None:
            want.append((sorted(set(keys)), event_value(split_body(b)[1], counter[0])))
    return data, want


def seen_values(ev):
    """what a listener was handed, as [(key, value)]"""
    return sorted((k, (v.get("value") if isinstance(v, dict) else repr(v))) for k, v in ev.items())


def expected_values(keys, value):
    return sorted((k, value) for k in keys)


class Outcomes:
    """scripted outcomes of simnet.Net for connection attempts: `ok` armed successes, every other attempt refused"""

    def __init__(self):
        self.ok = 0

    def __bool__(self):
        return True

    def pop(self, _i=0):
        if self.ok > 0:
            self.ok -= 1
            return "ok"
        return "refused"


# ---------------------------------------------------------------------------------------------------------------
# the wire: how the accessory writes what it sends (history token `wire:<spec>`, valid until the next one; `wire:off` = the plain writer:
# Content-Length messages, one write per burst).  Applies to the EVENT messages and to the answers to PUT /characteristics alike.
#
#   cl | ch | mx   a message with a body is Content-Length framed / `Transfer-Encoding: chunked` / alternately one and the other
#   k0 k1 kN kr    chunk sizes: the whole body in one chunk, one byte per chunk, N bytes per chunk, random sizes
#   f1 fm fa ft<j> fr<n> fb
#                  how the plaintext is cut into encrypted frames (= the reads of the HTTP parser): one write per burst (1024-byte blocks),
#                  one write per message, one write per PIECE (head; every chunk-size line, chunk data, the CRLF behind it; the last-chunk
#                  line `0 CRLF`; the final CRLF), every message in two writes cut j bytes into its terminator (chunked: `0 CRLF CRLF`,
#                  otherwise the CRLF CRLF that ends the head), n cuts anywhere, every byte a frame of its own
#   s0 sf sr s1    how the ciphertext is cut into reads of the transport: one read, one read per frame, 0..3 cuts anywhere, one byte per read
#                  (bursts up to 3000 bytes of ciphertext; longer ones as sr)

class Wire:
    def __init__(self, spec):
        self.spec = spec
        self.enc, self.k, self.frame, self.tcp = "cl", "r", "f1", "r"
        self.n = 0
        for item in spec.split(","):
            if item in ("cl", "ch", "mx"):
                self.enc = item
            elif item[:1] == "k":
                self.k = item[1:]
            elif item[:1] == "f":
                self.frame = item
            elif item[:1] == "s":
                self.tcp = item[1:]
            else:
                raise ValueError(spec)

    def chunked(self):
        self.n += 1
        return self.enc == "ch" or (self.enc == "mx" and self.n % 2 == 1)


def parse_wire(spec):
    return None if spec == "off" else Wire(spec)


def message_atoms(body, wire, rnd, kind=b"HTTP/1.1", code=b"200 OK", ctype=b"application/hap+json"):
    """one message as the list of pieces its writer emits"""
    start = kind + b" " + code + b"\r\nContent-Type: " + ctype + b"\r\n"
    if not wire.chunked():
        return [start + b"Content-Length: %d\r\n\r\n" % len(body)] + ([body] if body else [])
    atoms = [start + rnd.choice([b"Transfer-Encoding", b"Transfer-Encoding", b"transfer-encoding"]) + b": chunked\r\n\r\n"]
    fmt = rnd.choice(["%x", "%x", "%X", "%04x"])
    pos = 0
    while pos < len(body):
        if wire.k == "0":
            n = len(body)
        elif wire.k == "r":
            n = rnd.choice([1, 2, 3, 7, 10, 16, 26, 100, 255, 256, 1024, 1025, 5000])
        else:
            n = int(wire.k)
        n = max(1, min(n, len(body) - pos))
        atoms += [(fmt % n).encode() + b"\r\n", body[pos:pos + n], b"\r\n"]
        pos += n
    return atoms + [b"0\r\n", b"\r\n"]


def plain_frames(msgs, wire, rnd):
    """the plaintext of a burst (messages as lists of pieces) -> the plaintext of each encrypted frame"""
    f = wire.frame
    whole = b"".join(a for m in msgs for a in m)
    if f == "fm":
        pieces = [b"".join(m) for m in msgs]
    elif f == "fa":
        pieces = [a for m in msgs for a in m]
    elif f.startswith("ft"):
        j, pieces = int(f[2:]), []
        for m in msgs:
            one = b"".join(m)
            cut = (len(one) - 5 + j) if m[-2:] == [b"0\r\n", b"\r\n"] else (len(m[0]) - 4 + j)
            pieces += [one[:cut], one[cut:]]
    elif f.startswith("fr"):
        cuts = sorted(rnd.sample(range(1, len(whole)), min(int(f[2:]), len(whole) - 1)))
        pieces = [whole[a:b] for a, b in zip([0] + cuts, cuts + [len(whole)])]
    elif f == "fb":
        pieces = []
        for m in msgs:
            one = b"".join(m)
            if len(one) <= 600:
                pieces += [one[i:i + 1] for i in range(len(one))]
            else:   # a long message: byte by byte through its first and last 200 bytes, random blocks between
                pieces += [one[i:i + 1] for i in range(200)]
                i = 200
                while i < len(one) - 200:
                    n = min(rnd.randrange(1, 700), len(one) - 200 - i)
                    pieces.append(one[i:i + n])
                    i += n
                pieces += [one[i:i + 1] for i in range(len(one) - 200, len(one))]
    else:
        pieces = [whole]
    return [p[i:i + 1024] for p in pieces for i in range(0, len(p), 1024)]


def feed_wire(acc, t, msgs, wire, rnd):
    """the accessory writes the messages the way `wire` says; -> number of frames"""
    s = acc.sessions[t]
    blobs = [acc.frame(s, p) for p in plain_frames(msgs, wire, rnd)]
    data = b"".join(blobs)
    if wire.tcp == "f":
        cuts = list(itertools.accumulate(len(b) for b in blobs))[:-1]
    elif wire.tcp == "0" or len(data) < 2:
        cuts = []
    elif wire.tcp == "1" and len(data) <= 3000:
        cuts = list(range(1, len(data)))
    else:
        cuts = sorted(rnd.sample(range(1, len(data)), min(rnd.choice([0, 0, 1, 3]), len(data) - 1)))
    prev = 0
    for c in cuts + [len(data)]:
        t.feed(data[prev:c])
        prev = c
    return len(blobs)


def event_atoms(bodies, counter, wire, rnd):
    """event_bytes for the `wire` writer: -> (messages as lists of pieces, [(sorted key set, value)] of those that are events)"""
    msgs, want = [], []
    for b in bodies:
        counter[0] += 1
        msgs.append(message_atoms(body_bytes(b, counter[0]), wire, rnd, kind=b"EVENT/1.0"))
        keys = event_keys(b)
        if keys is not None:
            want.append((sorted(set(keys)), event_value(split_body(b)[1], counter[0])))
    return msgs, want


class StrictAccessory(Accessory):
    """The scaffold accessory, behaving as a conformant one does when a frame does not authenticate under the counter it expects
    (one counter step per FRAME, HAP 6.5.2): the session is over - it closes the connection and reads nothing more from it.
    `unauth` records every such frame: (session index, expected counter, plaintext length announced by the frame)."""

    def __init__(self, *a, **kw):
        super().__init__(*a, **kw)
        self.unauth = []
        self.dead = set()
        self.frames_in = {}          # session index -> frames read since the last complete request
        self.max_request_frames = 0  # the largest number of frames one request of the controller came in

    def on_write(self, t, data):
        s = self.sessions[t]
        if t in self.dead:
            return
        if not s.secure:
            return super().on_write(t, data)
        s.ebuf += data
        while len(s.ebuf) >= 2:
            n = struct.unpack("<H", s.ebuf[:2])[0]
            if len(s.ebuf) < 2 + n + 16:
                break
            aad, blk = s.ebuf[:2], s.ebuf[2:2 + n + 16]
            s.ebuf = s.ebuf[2 + n + 16:]
            try:
                s.buf += ChaCha20Poly1305(s.c2a).decrypt(struct.pack("<LQ", 0, s.rctr), blk, aad)
            except InvalidTag:
                self.unauth.append((s.idx, s.rctr, n))
                self.dead.add(t)
                self.loop.call_soon(t.peer_close)
                return
            s.rctr += 1
            self.frames_in[s.idx] = self.frames_in.get(s.idx, 0) + 1
        while True:
            req = self._take_request(s)
            if req is None:
                break
            self.max_request_frames = max(self.max_request_frames, self.frames_in.pop(s.idx, 0))
            self.loop.call_soon(self._handle, t, *req)


def unauth_problem(acc):
    """oracle: the accessory could not read a request of the controller on a session whose keys both sides agreed on"""
    out = []
    for idx, ctr, n in acc.unauth:
        out.append(("request-not-authentic", f"frame no. {ctr + 1} ({n} bytes) that the controller sent on connection no. {idx + 1} does not authenticate under counter {ctr} (one step per frame): the accessory "
                                             f"could not read the request and had to end the session (the network did not cut anything)"))
    del acc.unauth[:]
    return out


# ---------------------------------------------------------------------------------------------------------------
# the pairing's cached accessory database (history token `db:<how>:<entries>`; not an event of the history - like `wire:` it changes what is
# there, and the next events meet it).  entries: `1.10~bool,1.11,2.20-22~string` characteristics with their format (default `int`), a bare `2` an
# accessory id of which only the accessory-information service is known, `-` a database that lists no accessory at all.  how:
#   cache     the controller's characteristic cache holds it when the pairing is constructed (only as the first token; later: as restore)
#   restore   restore_accessories_state() - what Home Assistant does at start-up
#   fetch     list_accessories_and_characteristics() against the accessory, which serves exactly this database (connected only; else as restore)
#   populate  async_populate_accessories_state(force_update=True), the same way
# What the accessory sends events for is NOT bound to it: the database may be absent, complete, or outdated (a bridged accessory added later, a
# service added by a firmware update, a characteristic whose format changed).

DB_FORMATS = ("bool", "uint8", "uint16", "uint32", "uint64", "int", "float", "string", "tlv8", "data")
DB_TYPES = {"bool": "25", "uint8": "8", "uint16": "CE", "uint32": "0000FF32-0000-1000-8000-0026BB765291", "uint64": "0000FF64-0000-1000-8000-0026BB765291", "int": "13", "float": "11",
            "string": "0000FF19-0000-1000-8000-0026BB765291", "tlv8": "0000FF1B-0000-1000-8000-0026BB765291", "data": "0000FF1C-0000-1000-8000-0026BB765291"}


def parse_db(spec):
    """'1.10~bool,1.11,2' -> {1: [(10, 'bool'), (11, 'int')], 2: []}; '-' -> {}"""
    out = {}
    if spec in ("-", ""):
        return out
    for e in spec.split(","):
        e, _, fmt = e.partition("~")
        if "." not in e:
            out.setdefault(int(e), [])
            continue
        for a, i in parse_chs(e):
            out.setdefault(a, []).append((i, fmt or "int"))
    return out


def db_json(spec):
    """the accessory database `spec` describes, as the JSON of GET /accessories (built here, by the harness)"""
    accs = []
    for aid, chars in sorted(parse_db(spec).items()):
        info = {"iid": 1, "type": "3E", "characteristics": [
            {"iid": 2, "type": "23", "perms": ["pr"], "format": "string", "value": f"accessory {aid}"},
            {"iid": 3, "type": "20", "perms": ["pr"], "format": "string", "value": "harness"},
            {"iid": 4, "type": "21", "perms": ["pr"], "format": "string", "value": "scaffold"},
            {"iid": 5, "type": "30", "perms": ["pr"], "format": "string", "value": f"sn-{aid}"},
            {"iid": 6, "type": "52", "perms": ["pr"], "format": "string", "value": "1.0.0"},
            {"iid": 7, "type": "14", "perms": ["pw"], "format": "bool"}]}
        svcs = [info]
        if chars:
            default = {"bool": False, "float": 0.0, "string": "", "tlv8": "", "data": ""}
            svcs.append({"iid": 8, "type": "43", "characteristics": [
                {"iid": i, "type": DB_TYPES[f], "perms": ["pr", "pw", "ev"], "format": f, "value": default.get(f, 0)} for i, f in dict(chars).items()]})
        accs.append({"aid": aid, "services": svcs})
    return accs


async def scenario(loop, events, seed):
    rnd = random.Random(seed)
    net = simnet.Net(loop)
    acc = StrictAccessory(loop, net, lambda n: bytes(rnd.randrange(256) for _ in range(n)))
    cut = {"on": False}
    auto_put = acc._handle
    style = {"w": None}   # how the accessory writes (token `wire:`); None = Content-Length messages, one write per burst
    wstats = {"frames": 0, "chunked-replies": 0, "max-request-frames": 0, "db-served": 0, "db-from-cache": 0, "db-loaded": 0}

    def answer(s, code, body=b""):
        """the answer to a PUT /characteristics, written the way the current `wire` says"""
        w = style["w"]
        if w is None:
            return http(body, b"application/hap+json", code=code) if body else b"HTTP/1.1 " + code + b"\r\n\r\n"
        atoms = message_atoms(body, w, rnd, code=code) if body else [b"HTTP/1.1 " + code + b"\r\n\r\n"]
        wstats["chunked-replies"] += 1 if atoms[-2:] == [b"0\r\n", b"\r\n"] else 0
        wstats["frames"] += feed_wire(acc, s.t, [atoms], w, rnd)
        return None

    def responder(s, method, target, body):
        if target == "/characteristics" and method == "PUT":
            if cut["on"]:
                cut["on"] = False
                s.t.peer_close()
                return None
            d = json.loads(body)
            refused = False
            for c in d["characteristics"]:
                if "ev" in c:
                    s.sub_log.append((c["aid"], c["iid"], bool(c["ev"])))
                    # `subs` = what this session was asked to notify (the model's view); instance ids 90..99 do not
                    # support events on this accessory: it says so in a multi-status reply that lists EVERY characteristic
                    (s.subs.add if c["ev"] else s.subs.discard)((c["aid"], c["iid"]))
                    refused = refused or (c["ev"] and refuses(c["iid"]))
            if refused:
                rows = [{"aid": c["aid"], "iid": c["iid"], "status": (-70406 if refuses(c["iid"]) else 0)} for c in d["characteristics"]]
                return answer(s, b"207 Multi-Status", json.dumps({"characteristics": rows}).encode())
            return answer(s, b"204 No Content")
        if target.startswith("/accessories") and method == "GET":
            wstats["db-served"] += 1
            return http(json.dumps({"accessories": served["db"]}).encode(), b"application/hap+json")
        return http(b"{}", b"application/hap+json")
    acc.responder = responder
    served = {"db": []}   # the database the accessory serves on GET /accessories (the last `db:fetch` / `db:populate` token)
    ctrl = MagicMock()
    ctrl._char_cache = CharacteristicCacheMemory()
    first_idx = next((n for n, e in enumerate(events) if not e.startswith("wire:")), -1)
    first = events[first_idx] if first_idx >= 0 else ""
    if first.startswith("db:cache:"):
        # the characteristic cache of the controller already holds a database when the pairing is constructed (a restart of the process)
        ctrl._char_cache.async_create_or_update_map(acc.ident.acc_id.decode(), 1, db_json(first.split(":", 2)[2]))
        wstats["db-from-cache"] += 1
    lines, problems = [], []
    logs = {}      # listener id -> list of key lists
    vlogs = {}     # listener id -> list of [(key, value)] lists (what each call carried)
    evno = [0]     # number of event bodies sent so far: the n-th body carries value n
    kinds = {}
    removers = {}
    cb_ids = {}
    with net.patched():
        p = IpPairing(ctrl, acc.pairing_data(["10.0.0.1"]))
        conn = p.connection
        net.connect_outcomes = Outcomes()

        def make_listener(lid, kind):
            logs[lid] = []
            vlogs[lid] = []
            kinds[lid] = kind

            def cb(ev):
                logs[lid].append(sorted(ev.keys()))
                vlogs[lid].append(seen_values(ev))
                if kind == "x":
                    raise ValueError("listener boom")
                if kind == "rm":
                    removers[lid]()
                if kind.startswith("add~"):
                    k = int(kind[4:])
                    if k not in logs:
                        make_listener(k, "n")
            # callers register all sorts of callables: plain functions, functools.partial objects, callable instances
            shape = lid % 3
            if shape == 1:
                reg = functools.partial(lambda inner, ev: inner(ev), cb)
            elif shape == 2:
                reg = CallableListener(cb)
            else:
                reg = cb
            cb_ids[reg] = lid
            removers[lid] = p.dispatcher_connect(reg)

        async def call(coro):
            t = asyncio.ensure_future(coro)
            await settle(loop)
            if not t.done():
                # disconnected: let the pairing-level wait run out
                await asyncio.sleep(10.5)
                await settle(loop)
            if not t.done():
                problems.append(("call-hangs", "subscribe/unsubscribe did not return within 10.5 s"))
                t.cancel()
            elif t.exception() is not None:
                problems.append(("call-raised", f"subscribe/unsubscribe raised {type(t.exception()).__name__}"))

        wanted_ref = set()  # what the caller has subscribed to and not successfully unsubscribed from (kept by the harness)
        for n_ev, ev in enumerate(events):
            f = ev.split(":", 1)
            k = f[0]
            if k == "wire":
                # not an event of the history: from now on the accessory writes this way
                style["w"] = parse_wire(f[1])
                continue
            if k == "db":
                # not an event of the history either: from now on the pairing holds this accessory database
                how, spec = f[1].split(":", 1)
                if how == "cache" and n_ev == first_idx:
                    continue   # loaded from the characteristic cache when the pairing was constructed
                try:
                    if how in ("fetch", "populate") and p.is_connected:
                        served["db"] = db_json(spec)
                        await asyncio.wait_for(p.list_accessories_and_characteristics() if how == "fetch" else p.async_populate_accessories_state(force_update=True), 60)
                    else:
                        p.restore_accessories_state(db_json(spec), 1, None)
                    wstats["db-loaded"] += 1
                except Exception as e:  # noqa: BLE001 - a database the accessory serves / the cache holds is valid input
                    problems.append(("db-load-raised", f"{ev}: loading the accessory database raised {type(e).__name__}: {e}"))
                await settle(loop)
                if net.errors:
                    problems.append(("callback-raised", f"after {ev}: {net.errors[0]}"))
                    del net.errors[:]
                continue
            if k in ("sub", "cutsub"):
                wanted_ref |= set(parse_chs(f[1]))
            elif k == "unsub":
                wanted_ref -= set(parse_chs(f[1]))  # this accessory accepts every unsubscription
            n_sessions_before = len(acc.order)
            sent = []
            was_connected = bool(p.is_connected)
            was_supported = bool(p.supports_subscribe)
            before_active = active_ids(p, cb_ids)
            before_len = {lid: len(logs[lid]) for lid in logs}
            if k == "sub":
                await call(p.subscribe(parse_chs(f[1])))
            elif k == "unsub":
                await call(p.unsubscribe(parse_chs(f[1])))
            elif k == "cutsub":
                cut["on"] = bool(p.is_connected and p.supports_subscribe)
                await call(p.subscribe(parse_chs(f[1])))
                cut["on"] = False
            elif k == "drop":
                if net.open:
                    net.open[-1].peer_close()
            elif k == "conn":
                if not p.is_connected:
                    net.connect_outcomes.ok = 1
                    conn.reconnect_soon()
            elif k == "ladd":
                lid, kind = f[1].split(":")
                if int(lid) not in logs:
                    make_listener(int(lid), kind)
            elif k == "lrem":
                lid = int(f[1])
                if lid in removers:
                    removers[lid]()
            elif k == "ev" and style["w"] is not None:
                if p.is_connected and net.open:
                    t = net.open[-1]
                    msgs, sent = event_atoms(f[1].split("|"), evno, style["w"], rnd)
                    wstats["frames"] += feed_wire(acc, t, msgs, style["w"], rnd)
            elif k == "ev":
                if p.is_connected and net.open:
                    t = net.open[-1]
                    data, sent = event_bytes(f[1].split("|"), evno)
                    data = acc.frame(acc.sessions[t], data)
                    cuts = sorted(rnd.sample(range(1, len(data)), min(rnd.choice([0, 0, 1, 3]), len(data) - 1)))
                    prev = 0
                    for c in cuts + [len(data)]:
                        t.feed(data[prev:c])
                        prev = c
            else:
                raise ValueError(ev)
            await settle(loop)
            problems.extend(unauth_problem(acc))
            cur = net.open[-1] if net.open else None
            reg = sorted(acc.sessions[cur].subs) if (cur is not None and p.is_connected) else []
            ses = sum(1 for s in acc.order if s.secure)
            line = (f"wanted={show_chs(p.subscriptions)} reg={show_chs(reg)} sup={1 if p.supports_subscribe else 0} con={1 if p.is_connected else 0} ses={ses} active={len(p.listeners)} "
                    + " ".join(f"L{lid}=[" + ";".join(show_chs(x) for x in logs[lid]) + "]" for lid in sorted(logs)))
            lines.append(line)
            # ---- property oracle on the implementation
            if k == "conn" and not was_connected and p.is_connected:
                if p.supports_subscribe and not set(p.subscriptions) <= set(reg):
                    problems.append(("not-resubscribed", f"after reconnect the accessory was not asked again for {show_chs(set(p.subscriptions) - set(reg))}"))
                asked = {(a, i) for a, i, e in acc.sessions[cur].sub_log if e} if cur is not None else set()
                if p.supports_subscribe and not wanted_ref <= asked:
                    problems.append(("not-resubscribed", f"after reconnect the accessory was asked for events of {show_chs(asked)} only; the caller's subscriptions {show_chs(wanted_ref - asked)} were never requested again"))
                for lid in before_active:
                    if logs[lid][before_len[lid]:] != [[]]:
                        problems.append(("not-told-connection-back", f"listener {lid} got {logs[lid][before_len[lid]:]} instead of one empty 'connection is back' event"))
            if k == "conn" and not was_connected and not p.is_connected and was_supported:
                # a session came up (both sides hold its keys) and is gone again although the network cut nothing during this step: on it, too,
                # the accessory must have been asked for everything
                for s_new in [x for x in acc.order[n_sessions_before:] if x.secure][:1]:
                    asked = {(a, i) for a, i, e in s_new.sub_log if e}
                    if not wanted_ref <= asked:
                        problems.append(("not-resubscribed", f"the (re)connection succeeded (secure session no. {sum(1 for x in acc.order if x.secure)}) but on it the accessory was asked for events of "
                                                             f"{brief_chs(asked)} only; the caller's subscriptions {brief_chs(wanted_ref - asked)} were never requested again, and the session did not last (the network cut nothing)"))
            if k == "ev" and was_connected:
                want = [ks for ks, _ in sent]
                for lid in before_active:
                    got = logs[lid][before_len[lid]:]
                    exp = want[:1] if kinds[lid] == "rm" else want
                    if got != exp:
                        sig = "event-lost" if len(got) < len(exp) else ("event-duplicated" if len(got) > len(exp) else "event-wrong")
                        problems.append((sig, f"listener {lid} ({kinds[lid]}) got {got} but the accessory sent {exp} (bodies {f[1]})"))
                    else:
                        gotv = vlogs[lid][before_len[lid]:]
                        expv = [expected_values(ks, v) for ks, v in (sent[:1] if kinds[lid] == "rm" else sent)]
                        if gotv != expv:
                            sig = "event-out-of-order" if sorted(map(repr, gotv)) == sorted(map(repr, expv)) else "event-wrong"
                            problems.append((sig, f"listener {lid} ({kinds[lid]}) was handed {short(gotv)} but the accessory sent {short(expv)} (bodies {f[1]})"))
                if not p.is_connected:
                    problems.append(("connection-broken-by-event", f"the connection was torn down while delivering {f[1]}"))
            if was_supported and not p.supports_subscribe and not (k == "cutsub" and was_connected):
                problems.append(("fallback-without-cut", f"after {ev}: the pairing fell back to polling (supports_subscribe=False) although no subscription request was cut off by a disconnection; nothing will be re-subscribed after the next reconnect"))
            if net.errors:
                problems.append(("callback-raised", f"after {ev}: {net.errors[0]}"))
                del net.errors[:]
        await p.shutdown()
        await settle(loop)
    wstats["max-request-frames"] = acc.max_request_frames
    return lines, problems, wstats


# ---------------------------------------------------------------------------------------------------------------
# overlapping calls: the accessory withholds its answers while other tasks call subscribe / unsubscribe
#
# steps:  sub:<chs> / unsub:<chs>   start the call in its own task (it is NOT awaited: it returns whenever the library lets it)
#         hold                      from now on the accessory withholds its answers to PUT /characteristics (it acts on them on arrival)
#         rel                       the oldest withheld answer is sent
#         relev:<bodies>            the oldest withheld answer and an EVENT burst arrive in the same read (either order, cut anywhere)
#         free                      every withheld answer is sent, in order, and answers are immediate again
#         ev:<bodies>               an EVENT burst (also while a request is unanswered)
#         drop / conn               as in the sequential histories
#         wait                      10.5 s pass (a call issued while disconnected gives up after 10 s)

def must_be_subscribed(ops):
    """Caller-side reference under overlapping calls.  Each call has an issue time and (once it returned or raised) a return time; any order
    of the calls that respects 'returned before the other was issued' is a legitimate reading of what the callers asked for.  A
    characteristic MUST be subscribed iff in every such order the last call touching it is a subscribe: i.e. every call touching it
    that no later-issued call touching it follows (a 'possibly last' one) is a subscribe.  (A subscribe(C) issued while an
    unsubscribe(X) is unanswered leaves every c in C - X subscribed whatever the completion order.)"""
    must = set()
    for c in set().union(*[op["chs"] for op in ops]) if ops else ():
        touching = [op for op in ops if c in op["chs"]]
        last = [x for x in touching if x["done"] is None or not any(y["issued"] > x["done"] for y in touching)]
        if last and all(x["kind"] == "sub" for x in last):
            must.add(c)
    return must


async def overlap_scenario(loop, steps, seed):
    rnd = random.Random(seed)
    net = simnet.Net(loop)
    acc = StrictAccessory(loop, net, lambda n: bytes(rnd.randrange(256) for _ in range(n)))
    st = {"hold": False, "wire": None}
    held = []   # withheld answers: [session, reply (code, body), the request asked for events, virtual time of arrival]

    def reply_bytes(r):
        code, body = r
        return http(body, b"application/hap+json", code=code) if body else b"HTTP/1.1 " + code + b"\r\n\r\n"

    def reply_atoms(r):
        code, body = r
        return message_atoms(body, st["wire"], rnd, code=code) if body else [b"HTTP/1.1 " + code + b"\r\n\r\n"]

    def responder(s, method, target, body):
        if target == "/characteristics" and method == "PUT":
            d = json.loads(body)
            refused = asks = False
            for c in d["characteristics"]:
                if "ev" in c:
                    s.sub_log.append((c["aid"], c["iid"], bool(c["ev"])))
                    (s.subs.add if c["ev"] else s.subs.discard)((c["aid"], c["iid"]))
                    asks = asks or bool(c["ev"])
                    refused = refused or (c["ev"] and refuses(c["iid"]))
            if refused:
                rows = [{"aid": c["aid"], "iid": c["iid"], "status": (-70406 if refuses(c["iid"]) else 0)} for c in d["characteristics"]]
                reply = (b"207 Multi-Status", json.dumps({"characteristics": rows}).encode())
            else:
                reply = (b"204 No Content", b"")
            if st["hold"]:
                held.append([s, reply, asks, loop.time()])
                return None
            if st["wire"] is not None:
                feed_wire(acc, s.t, [reply_atoms(reply)], st["wire"], rnd)
                return None
            return reply_bytes(reply)
        return http(b"{}", b"application/hap+json")
    acc.responder = responder
    ctrl = MagicMock()
    ctrl._char_cache = CharacteristicCacheMemory()
    problems = []
    stats = {"stable-checks": 0, "max-pending-calls": 0, "calls-overlapping": 0, "calls-cut": 0, "resubscriptions-cut": 0, "resub-overlapped": 0}
    logs, vlogs = {1: [], 2: []}, {1: [], 2: []}
    evno = [0]
    ops = []
    mtrace, msnaps, emitted = [], [], set()   # for the Lean model of overlapping calls (Subs.ostep): effects per step, subscriptions after it
    clock = itertools.count(1)
    cut_seen = False   # a subscription request (a caller's or the re-subscription of a reconnect) was pending when the connection went away
    with net.patched():
        p = IpPairing(ctrl, acc.pairing_data(["10.0.0.1"]))
        conn = p.connection
        net.connect_outcomes = Outcomes()

        def l1(ev):
            logs[1].append(sorted(ev.keys()))
            vlogs[1].append(seen_values(ev))

        def l2(ev):
            logs[2].append(sorted(ev.keys()))
            vlogs[2].append(seen_values(ev))
            raise ValueError("listener boom")
        p.dispatcher_connect(l1)
        p.dispatcher_connect(l2)

        def current():
            t = net.open[-1] if net.open else None
            return t if (t is not None and acc.sessions[t].secure) else None

        def issue(kind, chs):
            shape = (list, tuple, set)[len(ops) % 3]   # callers pass any re-iterable collection
            arg = shape(chs)
            op = {"kind": kind, "chs": set(chs), "issued": next(clock), "done": None, "exc": None, "disc": current() is None or not p.is_connected}
            t = asyncio.ensure_future(p.subscribe(arg) if kind == "sub" else p.unsubscribe(arg))

            def fin(t, op=op):
                op["done"] = next(clock)
                if t.cancelled():
                    op["exc"] = "CancelledError"
                elif t.exception() is not None:
                    op["exc"] = type(t.exception()).__name__
            t.add_done_callback(fin)
            op["task"] = t
            if any(o["done"] is None for o in ops):
                stats["calls-overlapping"] += 1
            if kind == "sub" and any(h[2] for h in held) and not any(o["done"] is None and o["kind"] == "sub" for o in ops):
                stats["resub-overlapped"] += 1
            ops.append(op)

        def connection_going(t):
            """bookkeeping when the connection `t` goes away under the library"""
            nonlocal cut_seen
            pending = [o for o in ops if o["done"] is None]
            for o in pending:
                o["disc"] = True
            s_t = acc.sessions.get(t)
            asked_t = {(a, i) for a, i, e in s_t.sub_log if e} if (s_t is not None and s_t.secure) else None
            if any(o["kind"] == "sub" for o in pending) or any(h[2] for h in held if h[0].t is t):
                cut_seen = True
                stats["calls-cut"] += 1
            elif asked_t is not None and (must_be_subscribed(ops) | must_be_subscribed([o for o in ops if not (o["kind"] == "unsub" and o["done"] is None)])) - asked_t:
                # this session has not yet been asked for everything the library still holds as subscribed (an unsubscribe that has not returned has
                # not taken effect yet): the re-subscription that follows its pair-verify is still on its way (its next request waits behind another
                # request of the library, or it is between the requests of two accessory ids, so the accessory has not seen it) - the disconnection
                # cuts it off
                cut_seen = True
                stats["resubscriptions-cut"] += 1
            held[:] = [h for h in held if h[0].t is not t]

        def release(extra=b"", first=True):
            """send the oldest withheld answer (with `extra` EVENT bytes in the same read, before or after it)"""
            reply = None
            while held and reply is None:
                s, r, _, _ = held.pop(0)
                if s.t is current():
                    reply = r
            t = current()
            if t is None or not (reply is not None or extra):
                return
            if st["wire"] is not None:
                # `extra` is a list of messages (lists of pieces) here
                mine = [reply_atoms(reply)] if reply is not None else []
                feed_wire(acc, t, (mine + list(extra)) if first else (list(extra) + mine), st["wire"], rnd)
                return
            reply = reply_bytes(reply) if reply is not None else b""
            data = acc.frame(acc.sessions[t], (reply + extra) if first else (extra + reply))
            if extra:
                cuts = sorted(rnd.sample(range(1, len(data)), min(rnd.choice([0, 0, 1, 3]), len(data) - 1)))
            else:
                cuts = []
            prev = 0
            for c in cuts + [len(data)]:
                t.feed(data[prev:c])
                prev = c

        for step in steps + ["#end"]:
            f = step.split(":", 1)
            k = f[0]
            was_supported = bool(p.supports_subscribe)
            secure_before = sum(1 for s in acc.order if s.secure)
            before_len = {lid: len(logs[lid]) for lid in logs}
            sent = []
            fed = False
            if k == "wire":
                # not a step of the history: from now on the accessory writes this way
                st["wire"] = parse_wire(f[1])
                continue
            if k in ("sub", "unsub"):
                issue(k, parse_chs(f[1]))
            elif k == "hold":
                st["hold"] = True
            elif k == "rel":
                release()
            elif k == "relev":
                if current() is not None and p.is_connected:
                    if st["wire"] is not None:
                        data, sent = event_atoms(f[1].split("|"), evno, st["wire"], rnd)
                    else:
                        data, sent = event_bytes(f[1].split("|"), evno)
                    fed = True
                    release(data, first=rnd.random() < 0.5)
            elif k in ("free", "#end"):
                st["hold"] = False
                for _ in range(len(held) + 1):
                    if not held:
                        break
                    release()
                    await settle(loop)
            elif k == "ev":
                if current() is not None and p.is_connected:
                    if st["wire"] is not None:
                        data, sent = event_atoms(f[1].split("|"), evno, st["wire"], rnd)
                    else:
                        data, sent = event_bytes(f[1].split("|"), evno)
                    fed = True
                    release_held = held[:]
                    del held[:]          # nothing is released: the burst alone
                    release(data)
                    held[:] = release_held
            elif k == "drop":
                if net.open:
                    t = net.open[-1]
                    connection_going(t)
                    t.peer_close()
            elif k == "conn":
                if not p.is_connected:
                    net.connect_outcomes.ok = 1
                    conn.reconnect_soon()
            elif k == "wait":
                await settle(loop)
                # an answer withheld for the library's 30 s request timeout: the library gives that connection up itself during this wait
                for t in {h[0].t for h in held if loop.time() + 10.5 >= h[3] + 30}:
                    connection_going(t)
                await asyncio.sleep(10.5)
            else:
                raise ValueError(step)
            await settle(loop)
            problems.extend(unauth_problem(acc))
            if k == "#end":
                # every call has had its answer (or lost its connection); one issued while disconnected gives up after 10 s
                await asyncio.sleep(10.5)
                await settle(loop)
                for o in ops:
                    if o["done"] is None:
                        problems.append(("call-hangs", f"{o['kind']}({show_chs(o['chs'])}) has not returned 10.5 s after every request was answered"))
                        o["task"].cancel()
                await settle(loop)
            stats["max-pending-calls"] = max(stats["max-pending-calls"], sum(1 for o in ops if o["done"] is None))
            # ---- the call effects of this step in the order they happened (harness bookkeeping only): a subscribe takes effect when it
            # starts, an unsubscribe when it returns normally (at once on a pairing that is not connected)
            eff = []
            for n_op, o in enumerate(ops):
                if o["kind"] == "sub" and ("s", n_op) not in emitted:
                    emitted.add(("s", n_op))
                    eff.append((o["issued"], "aw:" + show_chs(o["chs"])))
                if o["kind"] == "unsub" and o["done"] is not None and o["exc"] is None and ("u", n_op) not in emitted:
                    emitted.add(("u", n_op))
                    eff.append((o["done"], "rw:" + show_chs(o["chs"])))
            mtrace.append([t for _, t in sorted(eff)])
            msnaps.append(show_chs(p.subscriptions))
            # ---- oracles (property text; the reference is the harness's own record of the calls and the accessory's record of the requests)
            for o in ops:
                if o["exc"] is not None and not o.get("reported"):
                    # a call may fail only because it lost (or never had) its connection
                    if not (o["exc"] == "AccessoryDisconnectedError" and o["disc"]):
                        o["reported"] = True
                        problems.append(("call-raised", f"{o['kind']}({show_chs(o['chs'])}) raised {o['exc']}" + ("" if o["disc"] else " although the connection was up from the call to its end")))
            if was_supported and not p.supports_subscribe and not cut_seen:
                problems.append(("fallback-without-cut", f"after {step}: the pairing fell back to polling (supports_subscribe=False) although no subscription request was cut off by a disconnection; nothing will be re-subscribed after the next reconnect"))
            new_sessions = sum(1 for s in acc.order if s.secure) - secure_before
            want = [[] for _ in range(new_sessions)] + [ks for ks, _ in sent]
            for lid in logs:
                got = logs[lid][before_len[lid]:]
                if got != want:
                    if new_sessions and not fed:
                        sig = "not-told-connection-back"
                    else:
                        sig = "event-lost" if len(got) < len(want) else ("event-duplicated" if len(got) > len(want) else "event-wrong")
                    problems.append((sig, f"after {step}: listener {lid} got {got} but {new_sessions} connection(s) came up and the accessory sent {[ks for ks, _ in sent]}"))
                elif fed:
                    gotv = vlogs[lid][before_len[lid]:]
                    expv = [expected_values(ks, v) for ks, v in sent]
                    if gotv != expv:
                        sig = "event-out-of-order" if sorted(map(repr, gotv)) == sorted(map(repr, expv)) else "event-wrong"
                        problems.append((sig, f"after {step}: listener {lid} was handed {short(gotv)} but the accessory sent {short(expv)}"))
            if fed and not p.is_connected:
                problems.append(("connection-broken-by-event", f"the connection was torn down while delivering {f[1]}"))
            cur = current()
            if cur is not None and p.is_connected and not st["hold"] and not held and all(o["done"] is not None for o in ops):
                # quiescent and connected: nothing is on the wire, every call has returned
                stats["stable-checks"] += 1
                if p.supports_subscribe:
                    must = must_be_subscribed(ops)
                    reg = acc.sessions[cur].subs
                    if not must <= reg:
                        nth = sum(1 for s in acc.order if s.secure)
                        sig = "not-resubscribed" if nth > 1 else "subscription-lost"
                        asked = {(a, i) for a, i, e in acc.sessions[cur].sub_log if e}
                        problems.append((sig, f"after {step}: on connection #{nth} the accessory is registered for {show_chs(reg)} (was asked on this connection for {show_chs(asked)}); the callers' subscriptions "
                                              f"{show_chs(must - reg)} are missing (calls in issue order: " + "; ".join(f"{o['kind']}({show_chs(o['chs'])})@{o['issued']}..{o['done']}" for o in ops) + ")"))
            if net.errors:
                problems.append(("callback-raised", f"after {step}: {net.errors[0]}"))
                del net.errors[:]
        await p.shutdown()
        await settle(loop)
    stats["model"] = (mtrace, msnaps)
    return stats, problems


OV_SETS = ["1.10", "1.11", "1.10,1.11", "2.20", "1.11,2.20,1.12", "2.20,1.10,2.21", "1.12,1.90"]


def gen_overlap_directed(rng, n):
    """every pair (and some triples) of calls x argument sets, issued while the answer to the first is withheld (or during the re-subscription
    of a reconnect, or while disconnected with the reconnect overtaking them), answers released in each way, then disconnect/reconnect cycles"""
    out = []
    kinds = ["sub", "unsub"]
    for k1, k2 in itertools.product(kinds, kinds):
        for a, b in itertools.product(OV_SETS, OV_SETS):
            for how in ("free", "rel", "relev"):
                out.append((k1, a, k2, b, how))
    rng.shuffle(out)
    # a fixed core first, whatever the sample: every pair of call kinds x (disjoint, overlapping, two accessory ids) x every shape below
    core = [(k1, a, k2, b, "free", shape) for k1, k2 in itertools.product(kinds, kinds)
            for a, b in (("1.10", "1.11"), ("1.10,1.11", "1.11,2.20,1.12"), ("2.20,1.10,2.21", "1.12,1.90")) for shape in range(4)]
    out = core + [x + (i % 4,) for i, x in enumerate(out)]
    hists = []
    for k1, a, k2, b, how, shape in out[:max(n, len(core))]:
        pre = rng.choice([["conn", "sub:1.10,1.11,2.20"], ["conn", "sub:1.10,2.20", "sub:1.12"], ["sub:1.10,2.21", "wait", "conn"], ["conn"]])
        if shape == 0:      # second call while the first is unanswered
            mid = ["hold", f"{k1}:{a}", f"{k2}:{b}"]
        elif shape == 1:    # three calls in flight
            mid = ["hold", f"{k1}:{a}", f"{k2}:{b}", f"{rng.choice(kinds)}:{rng.choice(OV_SETS)}"]
        elif shape == 2:    # calls during the re-subscription of a reconnect
            mid = ["drop", "hold", "conn", f"{k1}:{a}", f"{k2}:{b}"]
        else:               # calls issued while disconnected, overtaken by the reconnect
            mid = ["drop", f"{k1}:{a}", f"{k2}:{b}", "conn"]
        if how == "free":
            rel = ["free"]
        elif how == "rel":
            rel = ["rel", "rel", "rel", "rel", "free"]
        else:
            rel = ["relev:c=1.10|c=2.20,1.11", "rel", "ev:c=1.11", "free"]
        hists.append(pre + mid + rel + ["drop", "conn", "ev:c=1.10|c=2.20", "drop", "conn"])
    return hists


def gen_overlap_random(rng):
    steps = ["conn"] if rng.random() < 0.8 else []
    for _ in range(rng.randrange(4, 20)):
        r = rng.random()
        chs = ",".join(f"{rng.choice([1, 1, 2])}.{rng.choice([10, 11, 12, 20, 21, 90])}" for _ in range(rng.randrange(1, 4)))
        if r < 0.25:
            steps.append("sub:" + chs)
        elif r < 0.42:
            steps.append("unsub:" + chs)
        elif r < 0.54:
            steps.append("hold")
        elif r < 0.64:
            steps.append("rel")
        elif r < 0.69:
            steps.append("free")
        elif r < 0.77:
            steps.append("drop")
        elif r < 0.87:
            steps.append("conn")
        elif r < 0.90:
            steps.append("wait")
        else:
            bodies = "|".join("c=" + ",".join(f"{rng.choice([1, 2])}.{rng.choice([10, 11, 20])}" for _ in range(rng.randrange(1, 3))) + rng.choice(["", "", "@tc", "@cm", "@big"])
                              for _ in range(rng.randrange(1, 3)))
            steps.append(rng.choice(["ev:", "relev:"]) + bodies)
    return steps + ["free", "conn", "drop", "conn"]


def gen_overlap_wire(rng):
    """a random overlapping-call history in which the accessory writes its answers and events chunked / in frames cut anywhere"""
    steps = gen_overlap_random(rng)
    for _ in range(rng.randrange(1, 3)):
        steps.insert(rng.randrange(0, max(1, len(steps) // 2)), "wire:" + random_wire(rng))
    return steps


def gen_overlap_many(rng):
    """overlapping calls with many characteristics: 40..120 of one accessory id accumulated a few at a time with answers withheld and released, calls during the
    (multi-frame) re-subscription of a reconnect, unsubscriptions of ranges, events for many of them"""
    aid = rng.choice([1, 1, 2])
    steps = ["conn"] + (["wire:" + random_wire(rng)] if rng.random() < 0.3 else [])
    iid, top = 100, 100 + rng.randrange(40, 121)

    def burst():
        a = rng.randrange(100, max(iid, 101))
        b = min(a + rng.choice([0, 1, 5, 30]), max(iid, 101) - 1)
        return f"c={aid}.{a}-{b}" if b > a else f"c={aid}.{a}"
    while iid < top:
        n = min(rng.randrange(3, 18), top - iid)
        steps.append(f"sub:{aid}.{iid}-{iid + n - 1}")
        iid += n
        r = rng.random()
        if r < 0.2:
            steps.append("hold")
        elif r < 0.4:
            steps.append("rel")
        elif r < 0.5:
            steps.append("free")
        elif r < 0.6:
            a = rng.randrange(100, iid)
            steps.append(f"unsub:{aid}.{a}-{min(a + rng.randrange(0, 6), iid - 1)}")
        elif r < 0.7:
            steps.append(rng.choice(["ev:", "relev:"]) + burst() + "|" + burst())
    steps.append("free")
    for _ in range(rng.randrange(1, 3)):
        steps += ["drop"] + (["hold"] if rng.random() < 0.4 else []) + ["conn"]
        if rng.random() < 0.5:
            steps.append(f"sub:{aid}.{top}-{top + 5}")
            top += 6
            iid = top
        if rng.random() < 0.3:
            a = rng.randrange(100, iid)
            steps.append(f"unsub:{aid}.{a}-{min(a + 3, iid - 1)}")
        steps += ["free", "ev:" + burst() + "|" + burst()]
    return steps


def run_overlap(ctx: Ctx, cases, driver=None):
    loop = simnet.VLoop()
    asyncio.set_event_loop(loop)
    minimized = {}
    mcases, mouts, mlines = [], [], []

    def once(steps, seed):
        out = loop.run_until_complete(overlap_scenario(loop, steps, seed))
        pend = [t for t in asyncio.all_tasks(loop) if not t.done()]
        for t in pend:
            t.cancel()
        if pend:
            loop.run_until_complete(asyncio.gather(*pend, return_exceptions=True))
        return out
    try:
        for i, (steps, kind, *rest) in enumerate(cases):
            seed = rest[0] if rest else ctx.seed * 7907 + i
            case = {"stream": "overlap", "events": steps, "seed": seed}
            try:
                stats, problems = once(steps, seed)
            except Exception as e:  # noqa: BLE001 - misbehaving library code must not stop the harness
                stats, problems = {}, [("harness-tripped", f"the scenario stopped with {type(e).__name__}: {e}")]
            ctx.evaluations += 1
            ctx.nontrivial.add(("overlap",) + tuple(steps))
            ctx.dist["kind:" + kind] += 1
            for e in steps:
                ctx.dist["ov:" + e.split(":")[0]] += 1
            mt = stats.pop("model", None)
            if mt is not None and driver is not None:
                # one marker (`ar:-`, the accessory receives an empty request: no change) closes every step, so that the model prints once per step
                mlines.append("sb.overlap - " + " ".join(" ".join(effs + ["ar:-"]) for effs in mt[0]))
                mouts.append(" ".join(mt[1]))
                mcases.append(case)
            for k, v in stats.items():
                if k.startswith("max-"):
                    ctx.dist["ov-" + k] = max(ctx.dist["ov-" + k], v)
                else:
                    ctx.dist["ov-" + k] += v
            if stats.get("calls-overlapping"):
                ctx.dist["ov-histories-with-overlapping-calls"] += 1
            seen = set()
            for sig, text in problems:
                if sig in seen:
                    continue
                seen.add(sig)
                vcase = dict(case)
                if sig not in minimized and len(minimized) < 4:
                    def still(evs, sig=sig):
                        _, pr = once(evs, seed)
                        return any(s2 == sig for s2, _ in pr)
                    small = shrink_list(steps, still)
                    minimized[sig] = small
                    vcase["minimized_events"] = small
                    text = text + f" [minimal history: {' '.join(small)}]"
                ctx.violation(f"ip/overlap/{sig}", text, vcase)
            if i in (0, len(cases) - 1):
                ctx.sample(case)
    finally:
        asyncio.set_event_loop(None)
        loop.close()
    if driver is not None and mlines:
        def at_markers(line_out, line=None):
            return line_out
        # the model prints `wanted/registered` after every token; keep the wanted set at the step markers
        outs2 = []
        for ln, raw in zip(mlines, driver.run(mlines)):
            toks = ln.split(" ")[2:]
            vals = raw.split(" ")
            if len(vals) != len(toks):
                outs2.append(raw)
                continue
            outs2.append(" ".join(v.split("/")[0] for t, v in zip(toks, vals) if t == "ar:-"))
        for c, impl, model in zip(mcases, mouts, outs2):
            ctx.streams["overlap"] += 1
            ctx.traces += 1
            if impl != model:
                ctx.mismatch("overlap", c, impl[:600], model[:600])


def overlap_cases(ctx, mult=1):
    rng = ctx.rng
    cases = [(h, "overlap-directed") for h in gen_overlap_directed(rng, ctx.budget(300, 588) * mult)]
    cases += [(gen_overlap_random(rng), "overlap-random") for _ in range(ctx.budget(400, 6000) * mult)]
    cases += [(gen_overlap_wire(rng), "overlap-wire") for _ in range(ctx.budget(100, 2000) * mult)]
    cases += [(gen_overlap_many(rng), "overlap-many-subscriptions") for _ in range(ctx.budget(40, 600) * mult)]
    return cases


def active_ids(p, cb_ids):
    return {cb_ids[cb] for cb in p.listeners if cb in cb_ids}


def short(x, n=300):
    t = repr(x)
    return t if len(t) <= n else t[:n] + "..."


def model_event(e):
    if e.startswith("ev:"):
        return "ev:" + "|".join(model_body(b) for b in e[3:].split("|"))
    if re.search(r"\d-\d", e) and e.split(":")[0] in ("sub", "unsub", "cutsub"):
        # the model reads explicit lists: '1.100-102' -> '1.100,1.101,1.102'
        k, cs = e.split(":", 1)
        return k + ":" + ",".join(f"{a}.{i}" for a, i in parse_chs(cs))
    return e


def model_line(events):
    # `wire:` tokens say how the accessory writes its bytes; the model's events are the messages, however they are written
    return "sb.run " + " ".join(model_event(e).replace(":n", ":n").replace(" ", "") for e in events if not e.startswith(("wire:", "db:")))


ALPHA = ["sub:1.10,2.20,1.11", "sub:2.21", "sub:1.12,1.90", "unsub:1.10", "unsub:2.20,2.21", "cutsub:1.12", "drop", "conn", "ladd:1:n", "ladd:2:x", "ladd:3:rm", "ladd:4:add~5", "lrem:1",
         "ev:c=1.10", "ev:c=1.10,2.20|c=1.11", "ev:empty|c=2.21|notjson", "ev:notutf8|c=1.10",
         "ev:c=1.10|c=1.11,2.20@tc|c=1.10", "ev:c=2.21@cm|c=1.10@blk|c=1.10,1.11@tco"]


def gen_exhaustive(depth, rng, sample=None):
    seqs = []
    for d in range(1, depth + 1):
        for seq in itertools.product(ALPHA, repeat=d):
            seqs.append(list(seq))
    if sample is not None and len(seqs) > sample:
        seqs = rng.sample(seqs, sample)
    out = []
    for seq in seqs:
        # most histories start connected with a listener, so that depth is spent on the interesting part
        r = rng.random()
        pre = ["conn", "ladd:1:n"] if r < 0.6 else (["ladd:2:x", "sub:1.10", "conn"] if r < 0.8 else [])
        out.append(pre + seq)
    return out


def gen_random(rng):
    evs = []
    for _ in range(rng.randrange(4, 30)):
        r = rng.random()
        chs = ",".join(f"{rng.choice([1, 2])}.{rng.choice([10, 11, 12, 20, 21, 90])}" for _ in range(rng.randrange(1, 5)))
        if r < 0.18:
            evs.append("sub:" + chs)
        elif r < 0.28:
            evs.append("unsub:" + chs)
        elif r < 0.32:
            evs.append("cutsub:" + chs)
        elif r < 0.42:
            evs.append("drop")
        elif r < 0.56:
            evs.append("conn")
        elif r < 0.68:
            lid = rng.randrange(1, 7)
            evs.append(f"ladd:{lid}:" + rng.choice(["n", "n", "x", "rm", f"add~{rng.randrange(1, 9)}"]))
        elif r < 0.73:
            evs.append(f"lrem:{rng.randrange(1, 7)}")
        else:
            bodies = []
            for _ in range(rng.randrange(1, 4)):
                b = rng.random()
                if b < 0.75:
                    bodies.append("c=" + ",".join(f"{rng.choice([1, 2])}.{rng.choice([10, 11, 20])}" for _ in range(rng.randrange(1, 3))))
                    d = rng.random()
                    if d < 0.4:
                        bodies[-1] += "@" + rng.choice(LENIENT)
                    elif d < 0.5:
                        bodies[-1] += "@" + rng.choice(NEARJSON)
                else:
                    bodies.append(rng.choice(["empty", "notjson", "notutf8"]))
            evs.append("ev:" + "|".join(bodies))
    return evs


# ---- how the accessory writes: chunked messages, frames cut anywhere (token `wire:`)

WIRE_FRAMES = ["f1", "fm", "fa", "ft1", "ft2", "ft3", "ft4", "fr2", "fr6", "fb"]
WIRE_BURSTS = ["c=1.10|c=1.11,2.20|c=1.10", "c=1.10", "c=1.10@big|c=2.20", "empty|c=1.10@tc|notjson|c=1.11", "c=1.10@uni|c=1.11@mix|c=2.20", "c=1.10,1.11,2.20@ws|c=1.10",
               "c=1.10|c=1.10|c=1.10", "notutf8|c=2.20@bigtc|c=1.11@blk|c=1.10"]


def random_wire(rng):
    return ",".join([rng.choice(["ch", "ch", "mx", "cl"]), "k" + rng.choice(["0", "1", "2", "5", "17", "r", "r"]), rng.choice(WIRE_FRAMES), "s" + rng.choice(["0", "f", "f", "r", "r", "1"])])


def gen_wire_directed(rng, n):
    """every way of cutting the plaintext into frames x (chunked with the whole body in one chunk / one byte per chunk / random chunk sizes, chunked and
    Content-Length alternating, Content-Length only) on three shapes of history: bursts on a healthy connection, answers to subscription requests and the
    re-subscription of a reconnect written that way, listeners that change the listener set while the burst is delivered"""
    core = []
    for enc, ks in (("ch", ("k0", "k1", "kr")), ("mx", ("kr",)), ("cl", ("k0",))):
        for k in ks:
            for fr in WIRE_FRAMES:
                core.append(f"{enc},{k},{fr}")
    specs = [c + ",s" + "0fr1"[i % 4] for i, c in enumerate(core)] + [random_wire(rng) for _ in range(max(0, n - len(core)))]
    hists = []
    for i, spec in enumerate(specs):
        burst = WIRE_BURSTS[(i // 3) % len(WIRE_BURSTS)] if i < len(core) else rng.choice(WIRE_BURSTS)
        shape = i % 3 if i < len(core) else rng.randrange(3)
        if shape == 0:
            h = ["conn", "ladd:1:n", "ladd:2:x", "sub:1.10,1.11,2.20", f"wire:{spec}", f"ev:{burst}", "ev:c=1.10|c=1.11", "sub:1.12,1.90", f"ev:{burst}"]
        elif shape == 1:
            h = ["ladd:1:n", f"wire:{spec}", "conn", "sub:1.10,1.90,2.20", "sub:2.21,2.91", f"ev:{burst}", "drop", "conn", f"ev:{burst}", "unsub:1.10,1.90", "ev:c=2.20"]
        else:
            h = ["conn", "ladd:3:rm", "ladd:1:n", "ladd:4:add~5", f"wire:{spec}", f"ev:{burst}", "cutsub:1.12", "conn", f"ev:{burst}", "wire:off", "ev:c=1.10"]
        hists.append(h)
    return hists


def gen_random_wire(rng):
    """a random history in which the accessory changes its way of writing one to three times"""
    evs = gen_random(rng)
    for _ in range(rng.randrange(1, 4)):
        evs.insert(rng.randrange(0, max(1, len(evs) // 2)), "wire:" + (random_wire(rng) if rng.random() < 0.9 else "off"))
    return evs


# ---- the pairing's accessory database vs. what the accessory sends events for (token `db:`)

DB_HOWS = ("cache", "restore", "fetch", "populate")
DB_SHAPES = {
    "complete": "1.10-12,2.20-21",
    "complete-typed": "1.10~bool,1.11~string,1.12~float,2.20~uint8,2.21~tlv8",
    "aid-missing": "1.10-12",                  # accessory 2 was bridged after the database was cached
    "aid-bare": "1.10,1.11,2",                 # accessory 2 is known, its service is not (added by a firmware update)
    "iid-missing": "1.10~uint8,2.21~data",     # 1.11 and 2.20 are not known
    "other": "3.10~string",                    # nothing the accessory sends events for is known
    "none-listed": "-",                        # a database that lists no accessory
}
DB_BURSTS = ["c=2.20|c=1.10|c=1.11", "c=1.10|c=2.20|c=1.10", "c=1.10|c=1.11|c=2.20", "c=2.20", "c=1.11", "c=1.10,2.20|c=1.11", "c=1.11,1.10|c=2.20,1.10|c=1.11",
             "c=1.10@vs|c=1.11@vb|c=2.20@vf", "c=1.10@vn|c=1.10@vhuge|c=1.11@vneg", "c=1.11@vx|c=1.10@ve|c=2.20@vs", "c=3.30|c=1.10|c=2.21", "c=1.10|empty|c=2.20@tc|c=1.11",
             "c=1.12@vf|c=2.21@vx|c=1.12"]


def gen_db_directed(rng, n):
    """every way of loading a database x every shape of database (complete, typed, outdated in each way, foreign, empty) x bursts in which the characteristic the
    database does not know comes first / in the middle / last / alone / in one EVENT message with a known one, and bursts whose values are of another type
    than the database has on record; the database loaded before the connection, while connected, or replaced between two bursts"""
    combos = [(how, shape, b) for how in DB_HOWS for shape in DB_SHAPES for b in range(len(DB_BURSTS))]
    rng.shuffle(combos)
    # whatever the sample: every (how, shape) pair and every burst at least once
    core, seen_pairs, seen_b = [], set(), set()
    for c in combos:
        if (c[0], c[1]) not in seen_pairs or c[2] not in seen_b:
            core.append(c)
            seen_pairs.add((c[0], c[1]))
            seen_b.add(c[2])
    rest = [c for c in combos if c not in set(core)]
    hists = []
    for i, (how, shape, b) in enumerate((core + rest)[:max(n, len(core))]):
        db = f"db:{how}:{DB_SHAPES[shape]}"
        burst, other = DB_BURSTS[b], DB_BURSTS[(b + 1 + i) % len(DB_BURSTS)]
        ls = [["ladd:1:n", "ladd:2:x"], ["ladd:1:n", "ladd:3:rm", "ladd:4:add~5"], ["ladd:1:n"]][i % 3]
        sub = ["sub:1.10,1.11,2.20"] if i % 4 else ["sub:1.10,1.11", "sub:2.20,2.21"]
        w = ["wire:" + random_wire(rng)] if i % 5 == 4 else []
        form = i % 4
        if form == 0:      # the database is there before the first connection
            h = [db, "conn"] + ls + sub + w + [f"ev:{burst}", "ev:c=1.10", "drop", "conn", f"ev:{other}"]
        elif form == 1:    # loaded while connected and subscribed
            h = ["conn"] + ls + sub + [db] + w + [f"ev:{burst}", f"ev:{other}", "ev:c=1.10|c=1.11"]
        elif form == 2:    # outdated first, refreshed between two bursts (or the other way round)
            fresh = f"db:{rng.choice(DB_HOWS[1:])}:{DB_SHAPES['complete']}"
            a, z = (db, fresh) if i % 8 < 4 else (fresh, db)
            h = [a] + ls + ["conn"] + sub + w + [f"ev:{burst}", z, f"ev:{burst}", f"ev:{other}"]
        else:              # subscribed while disconnected, database loaded in between, the re-subscription of the reconnect meets it
            h = ls + sub + [db, "conn"] + w + [f"ev:{burst}", "cutsub:1.12", "conn", f"ev:{other}", "unsub:1.10", f"ev:{burst}"]
        hists.append(h)
    return hists


def gen_db_random(rng):
    """a random history with one to three databases loaded somewhere, events for characteristics no database knows and values of every JSON type"""
    evs = []
    for e in gen_random(rng):
        if e.startswith("ev:"):
            bodies = []
            for b in e[3:].split("|"):
                if b.startswith("c=") and "@" not in b:
                    r = rng.random()
                    if r < 0.35:
                        b += "@" + rng.choice(VALUES)
                    elif r < 0.5:
                        b = "c=" + ",".join(f"{rng.choice([1, 2, 3])}.{rng.choice([10, 11, 20, 21, 30])}" for _ in range(rng.randrange(1, 3)))
                bodies.append(b)
            e = "ev:" + "|".join(bodies)
        evs.append(e)
    for j in range(rng.randrange(1, 4)):
        if rng.random() < 0.7:
            spec = rng.choice(list(DB_SHAPES.values()))
        else:
            spec = ",".join(sorted({f"{rng.choice([1, 1, 2, 3])}.{rng.choice([10, 11, 12, 20, 21, 30])}~{rng.choice(DB_FORMATS)}" for _ in range(rng.randrange(1, 6))}) + rng.choice([[], ["2"], ["4"]]))
        evs.insert(0 if (j == 0 and rng.random() < 0.4) else rng.randrange(0, max(1, len(evs))), f"db:{rng.choice(DB_HOWS)}:{spec}")
    return evs


# ---- many subscriptions: the request that asks for all of them again does not fit one encrypted frame

FIXED_MANY = [
    # 40 characteristics of one accessory id, five at a time; the connection drops twice
    ["conn", "ladd:1:n"] + [f"sub:1.{100 + 5 * i}-{104 + 5 * i}" for i in range(8)] + ["ev:c=1.100|c=1.139", "drop", "conn", "ev:c=1.100-139", "drop", "conn", "ev:c=1.101"],
    # one call for 60 + 11 on two accessory ids, one unsubscription of 50, a reconnect
    ["conn", "ladd:1:n", "ladd:2:x", "sub:1.100-159,2.100-110", "ev:c=1.159", "unsub:1.100-149", "drop", "conn", "ev:c=1.150|c=2.100"],
    # subscribed while disconnected
    ["ladd:1:n", "sub:2.100-119", "sub:2.120-145", "conn", "ev:c=2.100-130", "drop", "conn", "ev:c=2.145"],
    # 120 characteristics and one the accessory refuses: every answer is a multi-status document of several frames, written chunked piece by piece
    ["conn", "ladd:1:n", "wire:ch,kr,fa,sf", "sub:3.90", "sub:3.100-159", "sub:3.160-219", "ev:c=3.100-130|c=3.219", "drop", "conn", "ev:c=3.219|c=3.100"],
]


def gen_many(rng, i):
    """40..120 characteristics of one accessory id (plus some of others), subscribed a few at a time (or all in one call, or while disconnected), with
    unsubscriptions and events in between, then disconnect / reconnect cycles with events for many of them after each"""
    aid = rng.choice([1, 1, 1, 2, 3])
    other = rng.choice([a for a in (1, 2, 3) if a != aid])
    total = rng.randrange(40, 121)
    shape = i % 4
    evs = [] if shape == 1 else ["conn"]
    evs.append("ladd:1:n")
    if rng.random() < 0.5:
        evs.append("ladd:2:x")
    if rng.random() < 0.3:
        evs.append("wire:" + random_wire(rng))
    iid, top = 100, 100 + total

    def burst():
        bodies = []
        for _ in range(rng.randrange(1, 4)):
            a = rng.randrange(100, max(iid, 101))
            b = min(a + rng.choice([0, 0, 1, 5, 30]), max(iid, 101) - 1)
            bodies.append(f"c={aid}.{a}-{b}" if b > a else f"c={aid}.{a}")
        return "ev:" + "|".join(bodies)
    if shape == 3:
        evs.append(f"sub:{aid}.100-{top - 1},{other}.100-{100 + rng.randrange(1, 40)}")   # one call for all of them
        iid = top
    while iid < top:
        n = min(rng.randrange(2, 13), top - iid)
        evs.append(f"sub:{aid}.{iid}-{iid + n - 1}" if n > 1 else f"sub:{aid}.{iid}")
        iid += n
        r = rng.random()
        if r < 0.12:
            evs.append(f"sub:{other}.{rng.choice([10, 11, 20])},{aid}.{rng.randrange(100, iid)}")
        elif r < 0.20:
            evs.append(f"sub:{other}.100-{100 + rng.randrange(1, 50)}")
        elif r < 0.30 and shape != 1:
            evs.append(burst())
        elif r < 0.36:
            a = rng.randrange(100, iid)
            evs.append(f"unsub:{aid}.{a}-{min(a + rng.randrange(0, 4), iid - 1)}")
        elif r < 0.40:
            evs.append(f"sub:{aid}.{rng.choice([90, 91])}")   # one that the accessory refuses: multi-status answers from now on
        elif r < 0.45 and shape == 2:
            evs += ["drop", "conn"]
    if shape == 1:
        evs.append("conn")
    evs.append(burst())
    for _ in range(rng.randrange(1, 4)):
        evs += ["drop", "conn", burst()]
        if rng.random() < 0.3:
            evs.append(f"sub:{aid}.{top}-{top + rng.randrange(0, 8)}")
            top += 9
            iid = top
        if rng.random() < 0.3:
            evs.append(burst())
        if rng.random() < 0.2:
            a = rng.randrange(100, max(101, top - 40))
            evs.append(f"unsub:{aid}.{a}-{min(a + rng.randrange(30, 80), top - 1)}")   # an unsubscription that does not fit one frame either
    return evs


def run_cases(ctx: Ctx, driver: Driver, cases):
    loop = simnet.VLoop()
    asyncio.set_event_loop(loop)
    impl, lines, cs = [], [], []
    minimized = {}
    try:
        for i, (events, kind, *rest) in enumerate(cases):
            sseed = rest[0] if rest else ctx.seed * 104729 + i
            try:
                out, problems, wstats = loop.run_until_complete(scenario(loop, events, sseed))
            except Exception as e:  # noqa: BLE001 - misbehaving library code must not stop the harness
                out, problems, wstats = [], [("harness-tripped", f"the scenario stopped with {type(e).__name__}: {e}")], {}
            pend = [t for t in asyncio.all_tasks(loop) if not t.done()]
            for t in pend:
                t.cancel()
            if pend:
                loop.run_until_complete(asyncio.gather(*pend, return_exceptions=True))
            ctx.evaluations += 1
            ctx.nontrivial.add(tuple(events))
            ctx.dist["kind:" + kind] += 1
            ctx.dist["wire-frames-written"] += wstats.get("frames", 0)
            ctx.dist["wire-chunked-replies"] += wstats.get("chunked-replies", 0)
            for k_db in ("db-served", "db-from-cache", "db-loaded"):
                ctx.dist[k_db] += wstats.get(k_db, 0)
            ctx.dist["max-frames-of-one-request"] = max(ctx.dist["max-frames-of-one-request"], wstats.get("max-request-frames", 0))
            if wstats.get("max-request-frames", 0) > 1:
                ctx.dist["histories-with-a-multi-frame-request"] += 1
            for e in events:
                ctx.dist["ev:" + e.split(":")[0]] += 1
                if e.startswith("wire:"):
                    for item in e[5:].split(","):
                        ctx.dist["wire:" + item] += 1
                if e.startswith("ev:"):
                    for b in e[3:].split("|"):
                        ctx.dist["body:" + b.split("=")[0]] += 1
                        if "@" in b:
                            ctx.dist["body-dialect:" + b.split("@")[1] + (":event" if event_keys(b) is not None else ":rejected-by-hkjson")] += 1
            case = {"stream": "subs", "events": events, "seed": sseed}
            seen = set()
            for sig, text in problems:
                if sig not in seen:
                    seen.add(sig)
                    vcase = dict(case)
                    if sig not in minimized and len(minimized) < 4:
                        def still(evs, sig=sig):
                            _, pr, _ = loop.run_until_complete(scenario(loop, evs, vcase["seed"]))
                            pend2 = [t for t in asyncio.all_tasks(loop) if not t.done()]
                            for t in pend2:
                                t.cancel()
                            if pend2:
                                loop.run_until_complete(asyncio.gather(*pend2, return_exceptions=True))
                            return any(s2 == sig for s2, _ in pr)
                        small = shrink_list(events, still)
                        minimized[sig] = small
                        vcase["minimized_events"] = small
                        text = text + f" [minimal history: {' '.join(small)}]"
                    ctx.violation(f"ip/{sig}", text, vcase)
            cs.append(case)
            impl.append(" ; ".join(x.strip() for x in out))
            lines.append(model_line(events))
    finally:
        asyncio.set_event_loop(None)
        loop.close()
    if cs:
        ctx.sample(cs[min(9, len(cs) - 1)])
        ctx.sample(cs[-1])
    compare_with_model(ctx, "subs", cs, impl, lines, driver, canon=lambda s: " ; ".join(x.strip() for x in s.split(" ; ")))


# ---------------------------------------------------------------------------------------------------------------
# THE OTHER TRANSPORTS THAT HAVE AN EVENT PATH.  HAP over CoAP (Thread): the unpatched CoAPPairing / CoAPHomeKitConnection / EncryptionContext /
# EventResource against the harness's own accessory; only aiocoap's Context is replaced (requests reach the accessory, which runs a real pair-verify
# with harness.refacc and seals everything under the session keys; its event notifications are handed to the event resource the library registered
# on the site it gave to aiocoap, the way aiocoap's server side does).
#
# steps:  cdb:<entries>             (first) the accessory's database: `10~bool,11~uint8,...` instance ids of accessory 1 with their format
#         grow:<entries>            a firmware update adds characteristics: the accessory has (and notifies) them, the controller's copy is outdated
#                                   (what exists keeps its format; records for characteristics the accessory does not have are not sent)
#         pdb:<how>:<entries>       the pairing's own accessory database: restore = restore_accessories_state(these), fetch / populate = read from the accessory
#         ladd:<id>:<kind> / lrem:<id>   listeners as in the IP histories
#         sub:<iids> / unsub:<iids> / get:<iid>   public calls
#         ev:<rec>|<rec>...         ONE event notification carrying these records; rec = <iid>=<value>: `v` a value of the characteristic's format,
#                                   `s<n>` n bytes (string / data), `e` EMPTY (a record that is just its 5-byte header), `z` a value TLV of length zero
#         dup                       the last notification arrives again (a retransmission): the accessory sent the event once
#         junk                      a notification that is not the accessory's (does not authenticate)
#         reboot                    the accessory loses its sessions (it answers 4.04 until the controller has verified again)

COAP_FMT = {"bool": (0x01, 1), "uint8": (0x04, 1), "uint16": (0x06, 2), "uint32": (0x08, 4), "uint64": (0x0A, 8), "int": (0x10, 4), "float": (0x14, 4), "string": (0x19, None), "data": (0x1B, None)}
COAP_DEFAULT_DB = "10~bool,11~uint8,12~string,13~data,14~float,15~uint16,16~int,17~uint32,18~uint64,19~string"


def t8(tag, val):
    """one TLV8 item (fragmented above 255 bytes) - the harness's own encoder"""
    val = bytes(val)
    if not val:
        return bytes([tag, 0])
    return b"".join(bytes([tag, len(val[o:o + 255])]) + val[o:o + 255] for o in range(0, len(val), 255))


def parse_cdb(spec):
    out = {}
    for e in spec.split(","):
        if e in ("", "-"):
            continue
        ids, _, fmt = e.partition("~")
        lo, _, hi = ids.partition("-")
        for i in range(int(lo), int(hi or lo) + 1):
            out[i] = fmt or "uint8"
    return out


def coap_database(chars):
    """the accessory database as the TLV8 body of a HAP-over-CoAP database read (encoded here, not by the library): accessory information
    (name, iid 2) and one service (iid 8) with the given characteristics, secure read + write + events"""
    def char(typ, iid, props, fmt):
        return t8(0x13, t8(0x04, bytes([typ])) + t8(0x05, struct.pack("<H", iid)) + t8(0x0A, struct.pack("<H", props)) + t8(0x0C, struct.pack("<BbHBH", fmt, 0, 0x2700, 1, 0)))

    def svc(typ, iid, cs):
        return t8(0x15, t8(0x07, struct.pack("<H", iid)) + t8(0x06, bytes([typ])) + t8(0x14, b"\x00\x00".join(cs)))
    svcs = [svc(0x3E, 1, [char(0x23, 2, 0x10, 0x19)])]
    if chars:
        svcs.append(svc(0x43, 8, [char(0x25 + (n % 90), iid, 0x10 | 0x20 | 0x80, COAP_FMT[fmt][0]) for n, (iid, fmt) in enumerate(sorted(chars.items()))]))
    return t8(0x18, t8(0x19, t8(0x1A, struct.pack("<H", 1)) + t8(0x16, b"\x00\x00".join(svcs))))


def coap_value(fmt, how, n):
    """-> (raw value bytes or None for an EMPTY record, the value a listener must be handed or NOCHECK)"""
    if how == "e":
        return None, NOCHECK
    if how[:1] in ("z", "s") and fmt not in ("string", "data"):
        how = "v"   # a value of a fixed-size format has that size
    if how == "z":
        return b"", NOCHECK
    if how.startswith("s"):
        ln = int(how[1:])
        text = (f"{n}:" + "abcdefghij" * (ln // 10 + 1))[:ln]
        return text.encode(), (text if fmt == "string" and ln else NOCHECK)
    if fmt == "bool":
        return bytes([n % 2]), bool(n % 2)
    if fmt in ("uint8", "uint16", "uint32", "uint64", "int"):
        size = COAP_FMT[fmt][1]
        v = (n * 37 + 1) % (1 << (8 * size - 1))
        return v.to_bytes(size, "little"), v
    if fmt == "float":
        return struct.pack("<f", n + 0.5), n + 0.5
    if fmt == "string":
        return f"text {n}".encode(), f"text {n}"
    return b"\x01\x01" + bytes([n % 256]), NOCHECK   # data / tlv8: how the bytes are presented to a listener is not the property's business


class NoCheck:
    def __repr__(self):
        return "<any>"


NOCHECK = NoCheck()


class CoapSide:
    """what the accessory holds for ONE endpoint of the controller (one aiocoap context): the pair-verify exchange and the session"""

    def __init__(self, world, root):
        self.w, self.root = world, root
        self.va = None
        self.keys = None          # (controller->accessory, accessory->controller, events)
        self.rctr = self.wctr = self.ectr = 0
        self.subs = set()         # instance ids this session was asked to notify
        self.sub_log = []
        self.shut = False
        self.last_event = None

    @staticmethod
    def nonce(c):
        return struct.pack("<4xQ", c)

    def request(self, msg):
        from types import SimpleNamespace
        import aiocoap.error as cerr
        fut = asyncio.get_running_loop().create_future()
        if self.shut:
            fut.set_exception(cerr.LibraryShutdown())
        else:
            try:
                fut.set_result(self._respond(msg))
            except Exception as e:  # noqa: BLE001 - the accessory could not make sense of a request: it does not answer (the library times out)
                self.w.notes.append(f"the CoAP accessory could not process a request: {type(e).__name__}: {e}")
        return SimpleNamespace(response=fut)

    async def shutdown(self):
        self.shut = True

    def _respond(self, msg):
        from types import SimpleNamespace
        from aiocoap.numbers.codes import Code
        w = self.w
        path = "/".join(msg.opt.uri_path)
        payload = bytes(msg.payload)
        if path == "2":
            req = refacc.untlv(payload)
            if req.get(6) == b"\x01":
                self.keys, self.subs = None, set()
                self.va = refacc.VerifyAccessory(w.ident, w.rb(32))
                return SimpleNamespace(code=Code.CHANGED, payload=refacc.tlv(self.va.m2(req.get(3, b""))))
            if req.get(6) == b"\x03" and self.va is not None:
                va, self.va = self.va, None
                if not va.check_m3(list(req.items())):
                    return SimpleNamespace(code=Code.CHANGED, payload=refacc.tlv([(6, b"\x04"), (7, b"\x02")]))
                self.keys = va.keys()
                self.rctr = self.wctr = self.ectr = 0
                w.verified += 1
                return SimpleNamespace(code=Code.CHANGED, payload=refacc.tlv([(6, b"\x04")]))
            return SimpleNamespace(code=Code.BAD_REQUEST, payload=b"")
        if self.keys is None:
            return SimpleNamespace(code=Code.NOT_FOUND, payload=b"")
        try:
            plain = ChaCha20Poly1305(self.keys[0]).decrypt(self.nonce(self.rctr), payload, b"")
        except InvalidTag:
            w.unauth += 1
            return SimpleNamespace(code=Code.NOT_FOUND, payload=b"")
        self.rctr += 1
        out, off = b"", 0
        while off + 7 <= len(plain):
            _c, op, tid, iid, ln = struct.unpack("<BBBHH", plain[off:off + 7])
            off += 7 + ln
            st, rb = 0, b""
            if op == 0x09:
                rb = coap_database(w.chars)
                w.db_reads += 1
            elif op == 0x03:
                if iid == 2:
                    rb = t8(0x01, b"scaffold")
                elif iid in w.chars:
                    rb = t8(0x01, w.current.get(iid) or coap_value(w.chars[iid], "v", 0)[0])
                else:
                    st = 4
            elif op in (0x0B, 0x0C):
                if iid in w.chars:
                    self.sub_log.append((iid, op == 0x0B))
                    (self.subs.add if op == 0x0B else self.subs.discard)(iid)
                else:
                    st = 4
            elif op != 0x02:
                st = 1
            out += struct.pack("<BBBH", 0x02, tid, st, len(rb)) + rb
        enc = ChaCha20Poly1305(self.keys[1]).encrypt(self.nonce(self.wctr), out, b"")
        self.wctr += 1
        return SimpleNamespace(code=Code.CHANGED, payload=enc)


class CoapWorld:
    def __init__(self, rnd, chars):
        self.rb = lambda n: bytes(rnd.randrange(256) for _ in range(n))
        self.ident = refacc.Identity(self.rb, acc_id=b"12:34:56:00:02:0C")
        self.chars = dict(chars)   # iid -> format: what the accessory has NOW
        self.current = {}          # iid -> raw value it reported last
        self.sides = []
        self.notes = []
        self.verified = self.unauth = self.db_reads = 0


async def coap_scenario(loop, steps, seed):
    """one CoAP history -> (problems, stats)"""
    from types import SimpleNamespace
    import aiohomekit.controller.coap.connection as coapc
    from aiocoap.numbers.codes import Code
    from aiohomekit.controller.coap.pairing import CoAPPairing
    rnd = random.Random(seed)
    first = steps[0] if steps else ""
    w = CoapWorld(rnd, parse_cdb(first[4:] if first.startswith("cdb:") else COAP_DEFAULT_DB))
    problems = []
    stats = {"notifications": 0, "records": 0, "empty-records": 0, "empty-last": 0, "unknown-to-controller": 0, "values-checked": 0, "verifies": 0, "replies-valid": 0, "replies-other": 0}
    logs, vlogs, kinds, removers, cb_ids = {}, {}, {}, {}, {}
    evno = [0]

    class FakeContext:
        @staticmethod
        async def create_server_context(root, bind=None, **kw):
            await asyncio.sleep(0.01)
            side = CoapSide(w, root)
            w.sides.append(side)
            return side

        @staticmethod
        async def create_client_context(*a, **kw):
            await asyncio.sleep(0.01)
            side = CoapSide(w, None)
            return side

    ctrl = MagicMock()
    ctrl._char_cache = CharacteristicCacheMemory()
    with mock.patch.object(coapc, "Context", FakeContext):
        p = CoAPPairing(ctrl, dict(w.ident.pairing_data(hosts=("fd00::2",), port=5683, connection="CoAP")))

        def make_listener(lid, kind):
            logs[lid], vlogs[lid], kinds[lid] = [], [], kind

            def cb(ev):
                logs[lid].append(sorted(ev.keys()))
                vlogs[lid].append(seen_values(ev))
                if kind == "x":
                    raise ValueError("listener boom")
                if kind == "rm":
                    removers[lid]()
                if kind.startswith("add~"):
                    k2 = int(kind[4:])
                    if k2 not in logs:
                        make_listener(k2, "n")
            shape = lid % 3
            reg = functools.partial(lambda inner, ev: inner(ev), cb) if shape == 1 else (CallableListener(cb) if shape == 2 else cb)
            cb_ids[reg] = lid
            removers[lid] = p.dispatcher_connect(reg)

        async def call(what, coro):
            """a public call, awaited to its end (every request of the history is answered at once or not at all: 60 s cover the library's time-outs)"""
            try:
                await asyncio.wait_for(coro, 60)
                return True
            except asyncio.TimeoutError:
                problems.append(("call-hangs", f"{what} did not return within 60 s"))
            except Exception as e:  # noqa: BLE001
                if rebooted["now"]:
                    w.notes.append(f"{what.split(':')[0]} raised {type(e).__name__} (the accessory had lost its sessions)")
                else:
                    problems.append(("call-raised", f"{what} raised {type(e).__name__}: {e} - the accessory answered every request"))
            return False

        def event_target():
            side = w.sides[-1] if w.sides else None
            if side is None or side.shut or side.keys is None or side.root is None or () not in getattr(side.root, "_resources", {}):
                return None, None
            return side, side.root._resources[()]

        wanted_ref = set()
        rebooted = {"now": False, "since-check": False}
        for step in steps:
            k, _, arg = step.partition(":")
            before_active = active_ids(p, cb_ids)
            before_len = {lid: len(logs[lid]) for lid in logs}
            sent = None
            if k == "cdb":
                continue
            elif k == "grow":
                for iid, fmt in parse_cdb(arg).items():
                    w.chars.setdefault(iid, fmt)   # new characteristics only: what exists keeps its format
            elif k == "refmt":
                for iid, fmt in parse_cdb(arg).items():   # (ungated probes only) a firmware update CHANGES the format of a characteristic
                    w.chars[iid] = fmt
                    w.current.pop(iid, None)
            elif k == "pdb":
                how, _, spec = arg.partition(":")
                if how == "restore":
                    try:
                        p.restore_accessories_state(db_json(",".join(f"1.{i}~{f}" for i, f in parse_cdb(spec).items()) or "1"), 1, None)
                    except Exception as e:  # noqa: BLE001
                        problems.append(("db-load-raised", f"{step}: restore_accessories_state raised {type(e).__name__}: {e}"))
                else:
                    await call(step, p.list_accessories_and_characteristics() if how == "fetch" else p.async_populate_accessories_state(force_update=True))
            elif k == "ladd":
                lid, kind = arg.split(":")
                if int(lid) not in logs:
                    make_listener(int(lid), kind)
            elif k == "lrem":
                if int(arg) in removers:
                    removers[int(arg)]()
            elif k in ("sub", "unsub"):
                chs = [(1, i) for i in parse_cdb(arg)]
                if k == "unsub":
                    wanted_ref -= set(chs)
                ok = await call(step, p.subscribe(chs) if k == "sub" else p.unsubscribe(chs))
                if ok and k == "sub":
                    wanted_ref |= set(chs)
            elif k == "get":
                await call(step, p.get_characteristics([(1, int(arg))]))
            elif k == "reboot":
                for side in w.sides:
                    side.keys, side.subs = None, set()
                rebooted["now"] = rebooted["since-check"] = True
            elif k in ("ev", "dup", "junk"):
                side, res = event_target()
                if side is not None and p.is_connected:
                    recs = []
                    if k == "ev":
                        plain = b""
                        for r in arg.split("|"):
                            iid, _, how = r.partition("=")
                            iid = int(iid)
                            if iid not in w.chars:
                                continue   # the accessory has no such characteristic: nothing to notify
                            evno[0] += 1
                            raw, expect = coap_value(w.chars[iid], how or "v", evno[0])
                            body = b"" if raw is None else t8(0x01, raw)
                            plain += struct.pack("<BHH", 0, iid, len(body)) + body
                            known = p.connection.info.find_characteristic_by_iid(iid) is not None if getattr(p.connection, "info", None) is not None else False
                            recs.append(((1, iid), expect if known else NOCHECK))
                            if raw is not None:
                                w.current[iid] = raw
                            stats["records"] += 1
                            stats["empty-records"] += raw is None
                            stats["unknown-to-controller"] += not known
                        if plain:
                            stats["empty-last"] += raw is None   # (the record sent last)
                            payload = ChaCha20Poly1305(side.keys[2]).encrypt(side.nonce(side.ectr), plain, b"")
                            side.ectr += 1
                            side.last_event = payload
                            sent = recs
                        else:
                            payload = None
                    elif k == "dup":
                        payload = side.last_event
                        sent = []
                    else:
                        payload = w.rb(rnd.choice([16, 21, 40]))
                        sent = []
                    if payload is not None:
                        stats["notifications"] += 1
                        try:
                            reply = await asyncio.wait_for(res.render_put(SimpleNamespace(payload=payload, code=Code.PUT)), 60)
                            code = getattr(reply, "code", None)
                            stats["replies-valid" if code == Code.VALID else "replies-other"] += 1
                        except Exception as e:  # noqa: BLE001 - aiocoap would answer 5.00 and log the traceback
                            if k == "ev":
                                problems.append(("event-handler-raised", f"the event resource raised {type(e).__name__}: {e} while taking the notification {arg}"))
                            else:
                                w.notes.append(f"the event resource raised {type(e).__name__} on a notification that is not the accessory's ({k})")
                    else:
                        sent = None
            else:
                raise ValueError(step)
            await settle(loop)
            # ---- oracles: the harness's own record of what the accessory sent vs. every listener's call log
            if sent is not None:
                for lid in before_active:
                    got = logs[lid][before_len[lid]:]
                    exp_recs = sent[:1] if kinds[lid] == "rm" else sent
                    exp = [[key] for key, _ in exp_recs]
                    if got != exp:
                        sig = "event-lost" if len(got) < len(exp) else ("event-duplicated" if len(got) > len(exp) else "event-wrong")
                        if k != "ev":
                            sig = "event-duplicated" if k == "dup" else "event-invented"
                        problems.append((sig, f"after {step}: listener {lid} ({kinds[lid]}) got {got} but the accessory sent {exp}"))
                    else:
                        gotv = vlogs[lid][before_len[lid]:]
                        bad = [(g, (key, v)) for g, (key, v) in zip(gotv, exp_recs) if v is not NOCHECK and g != [(key, v)]]
                        stats["values-checked"] += sum(1 for _, v in exp_recs if v is not NOCHECK)
                        if bad:
                            problems.append(("event-wrong", f"after {step}: listener {lid} ({kinds[lid]}) was handed {short(bad[0][0])} for the record {short(bad[0][1])} the accessory sent"))
                if not p.is_connected:
                    problems.append(("connection-broken-by-event", f"after {step}: the pairing reports no session any more"))
            elif k not in ("ev", "dup", "junk"):
                for lid in before_active:
                    if logs[lid][before_len[lid]:] and k not in ("get", "pdb"):
                        problems.append(("event-invented", f"after {step}: listener {lid} was called with {logs[lid][before_len[lid]:]} although the accessory sent no event"))
            if k in ("sub", "unsub", "get", "pdb") and p.is_connected and w.sides and w.sides[-1].keys is not None:
                rebooted["now"] = False
                if rebooted["since-check"]:
                    # a public call went through on a session made after the accessory lost the old one: everything must have been asked for again
                    rebooted["since-check"] = False
                    stats["resubscribe-checks"] = stats.get("resubscribe-checks", 0) + 1
                    reg = {(1, i) for i in w.sides[-1].subs}
                    if not wanted_ref <= reg:
                        problems.append(("not-resubscribed", f"after {step}: on the session made after the accessory lost the old one it is registered for {show_chs(reg)}; the caller's subscriptions {show_chs(wanted_ref - reg)} were not requested again"))
        try:
            await asyncio.wait_for(p.shutdown(), 60)
        except Exception as e:  # noqa: BLE001
            w.notes.append(f"shutdown() raised {type(e).__name__}")
        await settle(loop)
    stats["verifies"] = w.verified
    stats["notes"] = w.notes
    return problems, stats


COAP_LISTENERS = [["ladd:1:n", "ladd:2:x"], ["ladd:1:n", "ladd:3:rm", "ladd:4:add~5"], ["ladd:1:n"], ["ladd:2:x", "ladd:1:n", "ladd:6:n"]]


def gen_coap_directed(rng, n):
    """notifications of 1..4 records with the EMPTY value at every position (and nowhere), values of every format and of lengths around the TLV fragment size,
    several notifications in a row, with a retransmission / a foreign notification / an accessory reboot between them"""
    iids = sorted(parse_cdb(COAP_DEFAULT_DB))
    hists = []
    shapes = []
    for count in (1, 2, 3, 4):
        for empties in itertools.product("ve", repeat=count):
            shapes.append(list(empties))
    shapes += [["z"], ["v", "z"], ["z", "v", "e"], ["s0", "v"], ["v", "s1"], ["s254", "s255"], ["s256", "v", "s600"], ["e", "s255", "e"]]
    rng.shuffle(shapes)
    i = 0
    while len(hists) < max(n, len(shapes)):
        shape = shapes[i % len(shapes)]
        recs = []
        for how in shape:
            if how.startswith("s") or how == "z":
                iid = rng.choice([12, 13, 19])
            else:
                iid = rng.choice(iids)
            recs.append(f"{iid}={how}")
        ev = "ev:" + "|".join(recs)
        pre = COAP_LISTENERS[i % len(COAP_LISTENERS)] + [rng.choice(["sub:10-19", "sub:10,11,12", "sub:10-14"])]
        if i % 3 == 1:
            pre = pre + ["sub:15-19"] if "sub:10-19" not in pre else pre
        tail = [["ev:10=v"], ["ev:11=v|12=v", "dup", "ev:10=v"], ["junk", "ev:10=v|13=e"], ["ev:12=e", "ev:12=v"], ["unsub:10", "ev:11=v|14=e"], ["reboot", "get:11", "ev:11=v|15=e"]][i % 6]
        pdb = [[], ["pdb:fetch:"], ["pdb:restore:10~bool,11~uint8"], ["pdb:populate:"]][(i // 2) % 4]
        grow = ["grow:30~uint8,31~string", "ev:30=v|10=v|31=e"] if i % 5 == 3 else []
        hists.append(pdb[:1] * (i % 2) + pre + pdb[:1] * (1 - i % 2) + [ev] + tail + grow)
        i += 1
    return hists


def gen_coap_random(rng):
    chars = {}
    for iid in rng.sample(range(10, 60), rng.randrange(3, 14)):
        chars[iid] = rng.choice(list(COAP_FMT))
    iids = sorted(chars)
    steps = ["cdb:" + ",".join(f"{i}~{chars[i]}" for i in iids)]
    extra = {}

    def record():
        pool = iids + sorted(extra)
        iid = rng.choice(pool)
        fmt = chars.get(iid) or extra[iid]
        r = rng.random()
        if r < 0.3:
            how = "e"
        elif r < 0.38 and fmt in ("string", "data"):
            how = "z"
        elif r < 0.6 and fmt in ("string", "data"):
            how = "s" + str(rng.choice([0, 1, 2, 17, 100, 254, 255, 256, 300, 511, 700]))
        else:
            how = "v"
        return f"{iid}={how}"
    for _ in range(rng.randrange(4, 22)):
        r = rng.random()
        some = ",".join(str(i) for i in rng.sample(iids, rng.randrange(1, min(5, len(iids)) + 1)))
        if r < 0.16:
            steps.append("sub:" + some)
        elif r < 0.22:
            steps.append("unsub:" + some)
        elif r < 0.34:
            lid = rng.randrange(1, 7)
            steps.append(f"ladd:{lid}:" + rng.choice(["n", "n", "x", "rm", f"add~{rng.randrange(1, 9)}"]))
        elif r < 0.38:
            steps.append(f"lrem:{rng.randrange(1, 7)}")
        elif r < 0.42:
            steps.append("get:" + str(rng.choice(iids)))
        elif r < 0.47:
            steps.append(rng.choice(["pdb:fetch:", "pdb:populate:", "pdb:restore:" + ",".join(f"{i}~{chars[i]}" for i in rng.sample(iids, rng.randrange(1, len(iids))))]))
        elif r < 0.51:
            new = rng.randrange(60, 90)
            extra.setdefault(new, rng.choice(list(COAP_FMT)))
            steps.append(f"grow:{new}~{extra[new]}")
        elif r < 0.55:
            steps.append("reboot")
        elif r < 0.60:
            steps.append("dup")
        elif r < 0.64:
            steps.append("junk")
        else:
            steps.append("ev:" + "|".join(record() for _ in range(rng.choice([1, 1, 2, 2, 3, 4, 6]))))
    return steps


def coap_cases(ctx, mult=1):
    rng = ctx.rng
    cases = [(h, "coap-directed") for h in gen_coap_directed(rng, ctx.budget(120, 600) * mult)]
    cases += [(gen_coap_random(rng), "coap-random") for _ in range(ctx.budget(250, 5000) * mult)]
    return cases


# ---------------------------------------------------------------------------------------------------------------
# HAP over BLE, the event path of a DISCONNECTED accessory: encrypted broadcast notifications (HAP-BLE 7.4.7.2).  The unpatched BleController /
# BlePairing; only the radio is replaced: advertisements are handed to the scanner's detection callback (BleController._device_detected), connection
# attempts fail as for a device out of range.  The pairing is loaded by BleController.load_pairing from a characteristic cache that holds the accessory
# database, the state number and the broadcast key an earlier process life negotiated.
#
# steps:  bdb:<entries>          (first) the accessory's database: `10~bool,11~uint8,...` instance ids of accessory 1 with their format
#         adv                    a regular advertisement carrying the accessory's current state number
#         bc:<iid>[:<times>]     the characteristic changes: the accessory's state number goes up by one and it broadcasts the value sealed under the broadcast
#                                key; the scanner hears that advertisement <times> times (an accessory repeats it for seconds) - ONE event
#         miss:<n>               n changes whose broadcasts nobody hears (out of range for a moment)
#         rebc                   the broadcast heard last is heard once more, late
#         foreign                a broadcast with this accessory's advertising identifier that is not sealed under its key
#         ladd / lrem / sub      as in the other histories (subscribe while disconnected sends nothing)

BLE_DEFAULT_DB = "10~bool,11~uint8,12~uint16,13~uint32,14~int,15~float"


def ble_value(fmt, n):
    """-> (the 8 value bytes of a broadcast, the value a listener must be handed)"""
    if fmt == "bool":
        return bytes([n % 2]).ljust(8, b"\0"), bool(n % 2)
    if fmt == "float":
        return struct.pack("<f", n + 0.25).ljust(8, b"\0"), n + 0.25
    if fmt == "int":
        v = (n * 7919) % (1 << 31) * (-1 if n % 2 else 1)
        return struct.pack("<i", v).ljust(8, b"\0"), v
    size = {"uint8": 1, "uint16": 2, "uint32": 4, "uint64": 8}[fmt]
    v = (n * 7919 + 3) % (1 << (8 * size))
    return v.to_bytes(size, "little").ljust(8, b"\0"), v


def ble_radio(did, data):
    """what bleak's scanner hands to its detection callback for one advertisement"""
    a = MagicMock()
    a.manufacturer_data = {76: data}
    a.rssi = -50
    d = MagicMock()
    d.name = "dev"
    d.address = did.upper()
    return d, a


async def ble_scenario(loop, steps, seed):
    try:
        import bleak  # noqa: F401
        import aiohomekit.controller.ble.pairing as blep
        from aiohomekit.controller.ble.controller import BleController
        from bleak.exc import BleakError
    except Exception as e:  # noqa: BLE001 - this installation has no BLE support
        return [], {"notes": [f"BLE not available: {type(e).__name__}"]}
    rnd = random.Random(seed)
    first = steps[0] if steps else ""
    chars = parse_cdb(first[4:] if first.startswith("bdb:") else BLE_DEFAULT_DB)
    rb = lambda n: bytes(rnd.randrange(256) for _ in range(n))  # noqa: E731
    did = "12:34:56:00:03:0E"
    adv_id = bytes.fromhex(did.replace(":", ""))
    key = rb(32)
    acc = {"gsn": rnd.choice([1, 2, 7, 100, 4000, 65000]), "last": None, "gap": 0}   # gap: changes since the controller last heard a state number
    problems, notes = [], []
    stats = {"broadcasts": 0, "advertisements-heard": 0, "repeats": 0, "missed": 0, "connection-attempts": 0}
    logs, vlogs, kinds, removers, cb_ids = {}, {}, {}, {}, {}
    evno = [0]

    async def out_of_range(*a, **kw):
        stats["connection-attempts"] += 1
        raise BleakError("Device with address %s was not found (out of range)" % did)

    pd = {"AccessoryPairingID": did, "AccessoryLTPK": rb(32).hex(), "iOSPairingId": "ctrl-1", "iOSDeviceLTSK": rb(32).hex(), "iOSDeviceLTPK": rb(32).hex(), "AccessoryAddress": did, "Connection": "BLE"}
    cache = CharacteristicCacheMemory()
    db = db_json(",".join(f"1.{i}~{f}" for i, f in chars.items()))
    for a in db:
        for s in a["services"]:
            for c in s["characteristics"]:
                if c["iid"] in chars:
                    c["broadcast_events"] = True
                    c["disconnected_events"] = True
    cache.async_create_or_update_map(did, 1, db, key.hex(), acc["gsn"])
    with mock.patch.object(blep, "establish_connection", out_of_range):
        ctl = BleController(char_cache=cache)
        p = ctl.load_pairing("alias", pd)
        if p is None:
            return [("pairing-not-loaded", "BleController.load_pairing returned None for a BLE pairing record")], stats

        def make_listener(lid, kind):
            logs[lid], vlogs[lid], kinds[lid] = [], [], kind

            def cb(ev):
                logs[lid].append(sorted(ev.keys()))
                vlogs[lid].append(seen_values(ev))
                if kind == "x":
                    raise ValueError("listener boom")
                if kind == "rm":
                    removers[lid]()
                if kind.startswith("add~"):
                    k2 = int(kind[4:])
                    if k2 not in logs:
                        make_listener(k2, "n")
            shape = lid % 3
            reg = functools.partial(lambda inner, ev: inner(ev), cb) if shape == 1 else (CallableListener(cb) if shape == 2 else cb)
            cb_ids[reg] = lid
            removers[lid] = p.dispatcher_connect(reg)

        def hear(data):
            stats["advertisements-heard"] += 1
            try:
                ctl._device_detected(*ble_radio(did, data))
            except Exception as e:  # noqa: BLE001 - bleak logs an exception of its detection callback and goes on scanning
                return f"{type(e).__name__}: {e}"
            return None

        def sealed(gsn, iid, raw, k=None):
            blob = ChaCha20Poly1305(k or key).encrypt(struct.pack("<4xQ", gsn), struct.pack("<HH", gsn, iid) + raw, adv_id)
            return bytes([0x11, 0x36]) + adv_id + blob[:12] + blob[12:16]

        for step in steps:
            k, _, arg = step.partition(":")
            before_active = active_ids(p, cb_ids)
            before_len = {lid: len(logs[lid]) for lid in logs}
            sent, raised = [], None
            if k == "bdb":
                continue
            elif k == "adv":
                raised = hear(bytes([0x06, 0x31, 0x00]) + adv_id + struct.pack("<HHBB", 5, acc["gsn"], 1, 2) + b"\x01\x02\x03\x04")
                acc["gap"] = 0
            elif k == "bc":
                iid, _, times = arg.partition(":")
                iid = int(iid)
                if acc["gsn"] < 65500 and iid in chars:
                    acc["gsn"] += 1
                    evno[0] += 1
                    raw, expect = ble_value(chars[iid], evno[0])
                    acc["last"] = sealed(acc["gsn"], iid, raw)
                    sent = [((1, iid), expect)]
                    stats["broadcasts"] += 1
                    for _ in range(int(times or 1)):
                        raised = raised or hear(acc["last"])
                    stats["repeats"] += int(times or 1) - 1
                    acc["gap"] = 0
            elif k == "miss":
                # the library looks 98 state numbers ahead before it gives up on broadcasts and polls instead (which needs a connection): stay inside
                if acc["gsn"] + int(arg) < 65500 and acc["gap"] + int(arg) <= 90:
                    acc["gsn"] += int(arg)
                    acc["gap"] += int(arg)
                    stats["missed"] += int(arg)
            elif k == "rebc":
                if acc["last"] is not None:
                    raised = hear(acc["last"])
            elif k == "foreign":
                raised = hear(sealed(acc["gsn"] + 1, rnd.choice(sorted(chars)), rb(8), k=rb(32)))
            elif k == "ladd":
                lid, kind = arg.split(":")
                if int(lid) not in logs:
                    make_listener(int(lid), kind)
            elif k == "lrem":
                if int(arg) in removers:
                    removers[int(arg)]()
            elif k == "sub":
                try:
                    await asyncio.wait_for(p.subscribe([(1, i) for i in parse_cdb(arg)]), 60)
                except Exception as e:  # noqa: BLE001
                    problems.append(("call-raised", f"{step} raised {type(e).__name__}: {e}"))
            else:
                raise ValueError(step)
            await settle(loop)
            if raised:
                problems.append(("scanner-callback-raised", f"after {step}: the scanner's detection callback raised {raised}"))
            for lid in before_active:
                got = logs[lid][before_len[lid]:]
                exp_recs = sent[:1] if kinds[lid] == "rm" else sent
                exp = [[key_] for key_, _ in exp_recs]
                if got != exp:
                    sig = "event-lost" if len(got) < len(exp) else ("event-duplicated" if len(got) > len(exp) and sent or k == "rebc" else ("event-invented" if not sent else "event-wrong"))
                    problems.append((sig, f"after {step}: listener {lid} ({kinds[lid]}) got {got} but the accessory broadcast {exp} (state number {acc['gsn']})"))
                else:
                    gotv = vlogs[lid][before_len[lid]:]
                    bad = [(g, (key_, v)) for g, (key_, v) in zip(gotv, exp_recs) if g != [(key_, v)]]
                    if bad:
                        problems.append(("event-wrong", f"after {step}: listener {lid} ({kinds[lid]}) was handed {short(bad[0][0])} for the broadcast {short(bad[0][1])}"))
        try:
            await asyncio.wait_for(p.shutdown(), 60)
        except Exception as e:  # noqa: BLE001
            notes.append(f"shutdown() raised {type(e).__name__}")
        await settle(loop)
    stats["notes"] = notes
    return problems, stats


def gen_ble_history(rng, i):
    chars = parse_cdb(BLE_DEFAULT_DB)
    steps = []
    if i % 3 == 2:
        chars = {iid: rng.choice(["bool", "uint8", "uint16", "uint32", "uint64", "int", "float"]) for iid in rng.sample(range(10, 40), rng.randrange(2, 8))}
        steps.append("bdb:" + ",".join(f"{a}~{f}" for a, f in sorted(chars.items())))
    iids = sorted(chars)
    steps += COAP_LISTENERS[i % len(COAP_LISTENERS)]
    if rng.random() < 0.6:
        steps.append("adv")
    if rng.random() < 0.6:
        steps.append("sub:" + ",".join(str(x) for x in rng.sample(iids, rng.randrange(1, len(iids) + 1))))
    for _ in range(rng.randrange(3, 14)):
        r = rng.random()
        if r < 0.5:
            steps.append(f"bc:{rng.choice(iids)}" + rng.choice(["", "", ":2", ":3", ":7"]))
        elif r < 0.6:
            steps.append("adv")
        elif r < 0.7:
            steps.append(f"miss:{rng.choice([1, 1, 1, 2, 2, 5, 5, 40, 90])}")
        elif r < 0.82:
            steps.append("rebc")
        elif r < 0.84:
            steps.append("foreign")
        elif r < 0.94:
            steps.append(f"ladd:{rng.randrange(1, 7)}:" + rng.choice(["n", "n", "x", "rm", f"add~{rng.randrange(1, 9)}"]))
        else:
            steps.append(f"lrem:{rng.randrange(1, 7)}")
    return steps


def ble_cases(ctx, mult=1):
    rng = ctx.rng
    return [(gen_ble_history(rng, i), "ble-broadcast") for i in range(ctx.budget(150, 4000) * mult)]


# ---------------------------------------------------------------------------------------------------------------
# HAP over BLE, the event path of a CONNECTED accessory: GATT indications -> the library reads the characteristic -> listeners.  The unpatched
# BleController / BlePairing (loaded through load_pairing, discovered through an advertisement at the scanner callback); bleak's establish_connection
# hands out a GATT link to the harness's own accessory, which runs a real pair-verify (harness.refacc) and seals every PDU under the session keys.
#
# steps:  gdb:<entries>          (first) the accessory's database
#         sub:<iids> / get:<iid> / pop   public calls (get / pop make the connection when there is none; subscribe alone never does)
#         wait                   3 s pass (the library starts GATT notifications 1.5 s after the last subscribe / reconnect)
#         notify:<iid>[:<n>]     the characteristic changes n times in a row and the accessory indicates each change (zero-length indication) - if the
#                                controller enabled indications for it on this link; the library may fold a burst into fewer reads
#         drop                   the link is lost (bleak delivers the disconnected callback)
#         ladd / lrem            listeners

GATT_DEFAULT_DB = "10~bool,11~uint8,12~uint16,13~uint32,14~int,15~float,16~string"


def gatt_value(fmt, n):
    if fmt == "string":
        return f"text {n}".encode(), f"text {n}"
    raw, v = ble_value(fmt, n)
    return raw[:{"bool": 1, "uint8": 1, "uint16": 2, "uint32": 4, "uint64": 8, "int": 4, "float": 4}[fmt]], v


class GattHandle:
    max_write_without_response_size = None

    def __init__(self, iid, uuid, verify):
        self.iid, self.handle, self.uuid, self.verify = iid, iid, uuid, verify
        self.properties = ["read", "write", "indicate"]


class GattLink:
    """stands in for the bleak client of ONE GATT connection; the other end is the harness's accessory"""

    def __init__(self, acc, callback):
        self.acc, self.callback = acc, callback
        self.address = acc["did"]
        self.is_connected = True
        self.services = []
        self.va = None
        self.keys = None
        self.rctr = self.wctr = 0
        self.partial, self.pending, self.notify = {}, {}, {}

    def _check(self):
        if not self.is_connected:
            from bleak.exc import BleakError
            raise BleakError("Not connected")

    async def get_characteristic(self, service_type, char_type, iid=None):
        verify = str(char_type).upper().startswith("0000004E")
        return GattHandle(12 if iid is None and verify else iid, str(char_type), verify)

    async def get_characteristic_iid(self, char):
        return char.iid

    def determine_fragment_size(self, overhead, handle=None):
        return 155 - overhead

    async def write_gatt_char(self, handle, data, response=None):
        self._check()
        self._rx(handle, bytes(data))

    async def read_gatt_char(self, handle):
        self._check()
        q = self.pending.get(handle.iid)
        return bytearray(q.pop(0) if q else struct.pack("<BBB", 2, 0, 6))

    async def start_notify(self, handle, callback):
        self._check()
        self.notify[handle.iid] = callback
        self.acc["notify-enabled"] += 1

    async def stop_notify(self, handle):
        self.notify.pop(handle.iid, None)

    async def clear_cache(self):
        return True

    async def disconnect(self):
        self.lose()

    def lose(self):
        if self.is_connected:
            self.is_connected = False
            self.notify = {}
            try:
                self.callback(self)
            except Exception as e:  # noqa: BLE001
                self.acc["notes"].append(f"disconnected callback raised {type(e).__name__}")

    @staticmethod
    def nonce(c):
        return struct.pack("<LQ", 0, c)

    def _rx(self, h, data):
        acc = self.acc
        secured = False
        if not h.verify:
            if self.keys is None:
                self.pending[h.iid] = [struct.pack("<BBB", 2, data[2] if len(data) > 2 else 0, 5)]   # insufficient authentication
                acc["plain"] += 1
                return
            try:
                data = ChaCha20Poly1305(self.keys[0]).decrypt(self.nonce(self.rctr), data, b"")
            except InvalidTag:
                self.pending[h.iid] = [struct.pack("<BBB", 2, 0, 5)]
                acc["unauth"] += 1
                return
            self.rctr += 1
            secured = True
        if data and data[0] & 0x80:
            buf = self.partial.get(h.iid)
            if buf is None:
                return
            buf["body"] += data[2:]
        else:
            if len(data) < 5:
                self.pending[h.iid] = [struct.pack("<BBB", 2, 0, 6)]
                return
            _c, op, tid, _iid = struct.unpack("<BBBH", data[:5])
            buf = self.partial[h.iid] = {"op": op, "tid": tid, "len": struct.unpack("<H", data[5:7])[0] if len(data) >= 7 else 0, "body": data[7:]}
        if len(buf["body"]) < buf["len"]:
            return
        del self.partial[h.iid]
        status, body = 0, b""
        if h.verify:
            req = refacc.untlv(refacc.untlv(buf["body"]).get(1, b"")) if buf["op"] == 2 else {}
            if req.get(6) == b"\x01":
                # (a resume request is answered like any other M1: this accessory keeps no resumable sessions)
                self.keys = None
                self.va = refacc.VerifyAccessory(acc["ident"], acc["rb"](32))
                body = refacc.tlv([(1, refacc.tlv(self.va.m2(req.get(3, b""))))])
            elif req.get(6) == b"\x03" and self.va is not None:
                va, self.va = self.va, None
                if va.check_m3(list(req.items())):
                    self.keys = va.keys()
                    self.rctr = self.wctr = 0
                    acc["verified"] += 1
                    body = refacc.tlv([(1, refacc.tlv([(6, b"\x04")]))])
                else:
                    body = refacc.tlv([(1, refacc.tlv([(6, b"\x04"), (7, b"\x02")]))])
            else:
                status = 6
        elif buf["op"] == 3:
            iid = h.iid
            if iid == 2:
                body = refacc.tlv([(1, b"scaffold")])
            elif iid in acc["chars"]:
                acc["reads"] += 1
                body = refacc.tlv([(1, acc["current"].get(iid) or gatt_value(acc["chars"][iid], 0)[0])])
            else:
                status = 6
        elif buf["op"] not in (2, 4, 5, 7):
            status = 6
        room = 155 - (16 if secured else 0)
        if not body:
            frags = [struct.pack("<BBB", 2, buf["tid"], status)]
        else:
            frags, rest = [struct.pack("<BBBH", 2, buf["tid"], status, len(body)) + body[:room - 5]], body[room - 5:]
            while rest:
                frags.append(bytes([0x82, buf["tid"]]) + rest[:room - 2])
                rest = rest[room - 2:]
        if secured:
            for i, f in enumerate(frags):
                frags[i] = ChaCha20Poly1305(self.keys[1]).encrypt(self.nonce(self.wctr), f, b"")
                self.wctr += 1
        self.pending[h.iid] = frags


def gatt_db_json(chars):
    db = db_json(",".join(f"1.{i}~{f}" for i, f in chars.items()))
    db[0]["services"].append({"iid": 40, "type": "55", "characteristics": [
        {"iid": 41, "type": "4C", "perms": ["pr", "pw"], "format": "tlv8"}, {"iid": 12, "type": "4E", "perms": ["pr", "pw"], "format": "tlv8"},
        {"iid": 43, "type": "4F", "perms": ["pr"], "format": "uint8"}, {"iid": 44, "type": "50", "perms": ["pr", "pw"], "format": "tlv8"}]})
    return db


async def gatt_scenario(loop, steps, seed):
    try:
        import bleak  # noqa: F401
        import aiohomekit.controller.ble.pairing as blep
        from aiohomekit.controller.ble.controller import BleController
    except Exception as e:  # noqa: BLE001 - this installation has no BLE support
        return [], {"notes": [f"BLE not available: {type(e).__name__}"]}
    rnd = random.Random(seed)
    first = steps[0] if steps else ""
    chars = parse_cdb(first[4:] if first.startswith("gdb:") else GATT_DEFAULT_DB)
    rb = lambda n: bytes(rnd.randrange(256) for _ in range(n))  # noqa: E731
    did = "12:34:56:00:04:0F"
    ident = refacc.Identity(rb, acc_id=did.encode())
    acc = {"did": did, "ident": ident, "rb": rb, "chars": chars, "current": {}, "notes": [], "verified": 0, "reads": 0, "plain": 0, "unauth": 0, "notify-enabled": 0}
    links = []
    problems = []
    stats = {"indications": 0, "bursts-folded": 0, "not-enabled": 0, "links": 0, "resubscribe-checks": 0}
    logs, vlogs, kinds, removers, cb_ids = {}, {}, {}, {}, {}
    evno = [0]

    async def establish(device, name, disconnected_callback=None, *a, **kw):
        await asyncio.sleep(0.05)
        link = GattLink(acc, disconnected_callback)
        links.append(link)
        return link

    cache = CharacteristicCacheMemory()
    cache.async_create_or_update_map(did, 1, gatt_db_json(chars), None, 1)
    with mock.patch.object(blep, "establish_connection", establish):
        ctl = BleController(char_cache=cache)
        p = ctl.load_pairing("alias", dict(ident.pairing_data(connection="BLE"), AccessoryAddress=did))
        if p is None:
            return [("pairing-not-loaded", "BleController.load_pairing returned None for a BLE pairing record")], stats
        # the scanner hears the accessory's advertisement (state number 1, configuration number 1): the pairing now knows the device
        ctl._device_detected(*ble_radio(did, bytes([0x06, 0x31, 0x00]) + bytes.fromhex(did.replace(":", "")) + struct.pack("<HHBB", 5, 1, 1, 2) + b"\x01\x02\x03\x04"))

        def make_listener(lid, kind):
            logs[lid], vlogs[lid], kinds[lid] = [], [], kind

            def cb(ev):
                logs[lid].append(sorted(ev.keys()))
                vlogs[lid].append(seen_values(ev))
                if kind == "x":
                    raise ValueError("listener boom")
                if kind == "rm":
                    removers[lid]()
                if kind.startswith("add~"):
                    k2 = int(kind[4:])
                    if k2 not in logs:
                        make_listener(k2, "n")
            shape = lid % 3
            reg = functools.partial(lambda inner, ev: inner(ev), cb) if shape == 1 else (CallableListener(cb) if shape == 2 else cb)
            cb_ids[reg] = lid
            removers[lid] = p.dispatcher_connect(reg)

        async def call(what, coro):
            try:
                await asyncio.wait_for(coro, 120)
                return True
            except asyncio.TimeoutError:
                problems.append(("call-hangs", f"{what} did not return within 120 s"))
            except Exception as e:  # noqa: BLE001
                problems.append(("call-raised", f"{what} raised {type(e).__name__}: {e} - the accessory answered every request and the link was up"))
            return False

        wanted_ref = set()
        for step in steps:
            k, _, arg = step.partition(":")
            before_active = active_ids(p, cb_ids)
            before_len = {lid: len(logs[lid]) for lid in logs}
            n_links = len(links)
            cur = links[-1] if links and links[-1].is_connected else None
            burst = None
            if k == "gdb":
                continue
            elif k == "ladd":
                lid, kind = arg.split(":")
                if int(lid) not in logs:
                    make_listener(int(lid), kind)
            elif k == "lrem":
                if int(arg) in removers:
                    removers[int(arg)]()
            elif k == "sub":
                chs = [(1, i) for i in parse_cdb(arg) if i in chars]
                if await call(step, p.subscribe(chs)):
                    wanted_ref |= set(chs)
            elif k == "get":
                await call(step, p.get_characteristics([(1, int(arg))]))
            elif k == "pop":
                await call(step, p.async_populate_accessories_state(force_update=True))
            elif k == "wait":
                await asyncio.sleep(3.0)
            elif k == "drop":
                if cur is not None:
                    cur.lose()
            elif k == "notify":
                iid, _, times = arg.partition(":")
                iid, times = int(iid), int(times or 1)
                if cur is not None and iid in chars:
                    if iid in cur.notify:
                        for _ in range(times):
                            evno[0] += 1
                            raw, expect = gatt_value(chars[iid], evno[0])
                            acc["current"][iid] = raw
                            stats["indications"] += 1
                            try:
                                cur.notify[iid](iid, bytearray())
                            except Exception as e:  # noqa: BLE001 - bleak logs an exception of a notification callback and goes on
                                problems.append(("notify-callback-raised", f"after {step}: the GATT notification callback raised {type(e).__name__}: {e}"))
                        burst = ((1, iid), expect, times)
                    else:
                        stats["not-enabled"] += 1
            else:
                raise ValueError(step)
            await settle(loop)
            if burst is not None:
                # the read the indication triggers is a request / response on the link: let it run to its end
                await asyncio.sleep(0.5)
                await settle(loop)
                key_, expect, times = burst
                for lid in before_active:
                    got = logs[lid][before_len[lid]:]
                    gotv = vlogs[lid][before_len[lid]:]
                    most = 1 if kinds[lid] == "rm" else times
                    if not got:
                        problems.append(("event-lost", f"after {step}: listener {lid} ({kinds[lid]}) was not called although the accessory indicated {times} change(s) of {key_} on a link with indications enabled"))
                    elif len(got) > most:
                        problems.append(("event-duplicated", f"after {step}: listener {lid} ({kinds[lid]}) was called {len(got)} times {got} for {times} indicated change(s) of {key_}"))
                    elif any(g != [key_] for g in got):
                        problems.append(("event-wrong", f"after {step}: listener {lid} ({kinds[lid]}) got {got} for indicated change(s) of {key_}"))
                    elif gotv[-1] != [(key_, expect)] and kinds[lid] != "rm":
                        problems.append(("event-wrong", f"after {step}: listener {lid} ({kinds[lid]}) was last handed {short(gotv[-1])} but the value the accessory holds since the indication is {expect!r}"))
                    if got and len(got) < times:
                        stats["bursts-folded"] += 1
                if cur is not None and not cur.is_connected:
                    problems.append(("connection-broken-by-event", f"after {step}: the library dropped the link while taking the indication"))
            stats["links"] += len(links) - n_links
            if k == "wait" and links and links[-1].is_connected and links[-1].keys is not None:
                # 3 s after whatever happened last on an established session: indications must be enabled for everything the caller subscribed to
                stats["resubscribe-checks"] += 1
                reg = {(1, i) for i in links[-1].notify}
                if not wanted_ref <= reg:
                    sig = "not-resubscribed" if len(links) > 1 else "subscription-lost"
                    problems.append((sig, f"after {step}: on link no. {len(links)} indications are enabled for {show_chs(reg)}; the caller's subscriptions {show_chs(wanted_ref - reg)} are missing"))
        try:
            await asyncio.wait_for(p.shutdown(), 120)
        except Exception as e:  # noqa: BLE001
            acc["notes"].append(f"shutdown() raised {type(e).__name__}")
        await settle(loop)
    stats.update({"verifies": acc["verified"], "reads": acc["reads"], "requests-in-the-clear": acc["plain"], "requests-not-authentic": acc["unauth"], "notes": acc["notes"]})
    return problems, stats


def gen_gatt_history(rng, i):
    chars = parse_cdb(GATT_DEFAULT_DB)
    steps = []
    if i % 3 == 2:
        chars = {iid: rng.choice(["bool", "uint8", "uint16", "uint32", "int", "float", "string"]) for iid in rng.sample(range(10, 40), rng.randrange(2, 8))}
        steps.append("gdb:" + ",".join(f"{a}~{f}" for a, f in sorted(chars.items())))
    iids = sorted(chars)
    steps += COAP_LISTENERS[i % len(COAP_LISTENERS)]
    some = lambda: ",".join(str(x) for x in rng.sample(iids, rng.randrange(1, len(iids) + 1)))  # noqa: E731
    if i % 2:
        steps += ["get:" + str(rng.choice(iids)), "sub:" + some(), "wait"]
    else:
        steps += ["sub:" + some(), rng.choice(["get:" + str(rng.choice(iids)), "pop"]), "wait"]
    for _ in range(rng.randrange(3, 12)):
        r = rng.random()
        if r < 0.5:
            steps.append(f"notify:{rng.choice(iids)}" + rng.choice(["", "", "", ":2", ":3"]))
        elif r < 0.6:
            steps += ["sub:" + some(), "wait"]
        elif r < 0.72:
            steps += ["drop", rng.choice(["get:" + str(rng.choice(iids)), "pop"]), "wait"]
        elif r < 0.78:
            steps.append("get:" + str(rng.choice(iids)))
        elif r < 0.84:
            steps.append("wait")
        elif r < 0.94:
            steps.append(f"ladd:{rng.randrange(1, 7)}:" + rng.choice(["n", "n", "x", "rm", f"add~{rng.randrange(1, 9)}"]))
        else:
            steps.append(f"lrem:{rng.randrange(1, 7)}")
    return steps


def gatt_cases(ctx, mult=1):
    rng = ctx.rng
    return [(gen_gatt_history(rng, i), "ble-gatt") for i in range(ctx.budget(150, 4000) * mult)]


def run_transport(ctx: Ctx, cases, stream, scenario_fn):
    """CoAP / BLE histories: implementation-level oracles only (the Lean automaton's delivery step is transport independent and is tied to the IP histories)"""
    loop = simnet.VLoop()
    asyncio.set_event_loop(loop)
    minimized = {}

    def once(steps, seed):
        out = loop.run_until_complete(scenario_fn(loop, steps, seed))
        pend = [t for t in asyncio.all_tasks(loop) if not t.done()]
        for t in pend:
            t.cancel()
        if pend:
            loop.run_until_complete(asyncio.gather(*pend, return_exceptions=True))
        return out
    try:
        for i, (steps, kind, *rest) in enumerate(cases):
            seed = rest[0] if rest else ctx.seed * 6151 + i
            case = {"stream": stream, "events": steps, "seed": seed}
            try:
                problems, stats = once(steps, seed)
            except Exception as e:  # noqa: BLE001 - misbehaving library code must not stop the harness
                problems, stats = [("harness-tripped", f"the scenario stopped with {type(e).__name__}: {e}")], {}
            ctx.evaluations += 1
            ctx.nontrivial.add((stream,) + tuple(steps))
            ctx.dist["kind:" + kind] += 1
            for e in steps:
                ctx.dist[f"{stream}:" + e.split(":")[0]] += 1
            for note in stats.pop("notes", []):
                ctx.dist[f"{stream}-note:" + note[:90]] += 1
            for k, v in stats.items():
                ctx.dist[f"{stream}-{k}"] += v
            seen = set()
            for sig, text in problems:
                if sig in seen:
                    continue
                seen.add(sig)
                vcase = dict(case)
                if sig not in minimized and len(minimized) < 4:
                    def still(evs, sig=sig):
                        try:
                            pr, _ = once(evs, seed)
                        except Exception:  # noqa: BLE001
                            return False
                        return any(s2 == sig for s2, _ in pr)
                    small = shrink_list(steps, still)
                    minimized[sig] = small
                    vcase["minimized_events"] = small
                    text = text + f" [minimal history: {' '.join(small)}]"
                ctx.violation(f"{stream}/{sig}", text, vcase)
            if i in (0, len(cases) - 1):
                ctx.sample(case)
    finally:
        asyncio.set_event_loop(None)
        loop.close()


TRANSPORT_STREAMS = {"coap": (coap_cases, coap_scenario), "ble-broadcast": (ble_cases, ble_scenario), "ble-gatt": (gatt_cases, gatt_scenario)}

TRANSPORT_PROBES = [
    # (stream, history, what it shows on the library as it is) - NOT gated: outside the assumptions above, recorded in the evidence notes when they reproduce
    ("coap", ["cdb:10~uint8,11~uint8", "ladd:1:n", "sub:10,11", "refmt:10~uint32", "ev:10=v|11=v"],
     "CoAP: a characteristic whose format changed (uint8 -> uint32, firmware update) after the controller read the database: struct.error escapes EventResource.render_put and every record of that notification is lost"),
]


def transport_probes(ctx: Ctx):
    loop = simnet.VLoop()
    asyncio.set_event_loop(loop)
    try:
        for stream, steps, what in TRANSPORT_PROBES:
            try:
                problems, _ = loop.run_until_complete(TRANSPORT_STREAMS[stream][1](loop, steps, 1))
            except Exception as e:  # noqa: BLE001
                problems = [("probe-tripped", type(e).__name__)]
            pend = [t for t in asyncio.all_tasks(loop) if not t.done()]
            for t in pend:
                t.cancel()
            if pend:
                loop.run_until_complete(asyncio.gather(*pend, return_exceptions=True))
            ctx.dist["probe:" + ("reproduced" if problems else "not-reproduced")] += 1
            if problems:
                ctx.notes.append(f"observation (not gated) - {what}; history {' '.join(steps)}; seen: {sorted({sig for sig, _ in problems})}")
    finally:
        asyncio.set_event_loop(None)
        loop.close()


def cases_for(ctx):
    rng = ctx.rng
    cases = [(c["events"], "corpus") for c in load_corpus(ID)]
    for evs in gen_exhaustive(ctx.budget(2, 3), rng, sample=ctx.budget(None, 6000)):
        cases.append((evs, "exhaustive"))
    for evs in gen_exhaustive(ctx.budget(3, 4), rng, sample=ctx.budget(500, 8000)):
        cases.append((evs, "exhaustive-sampled"))
    for _ in range(ctx.budget(500, 10000)):
        cases.append((gen_random(rng), "random"))
    cases += more_cases(ctx)
    return cases


def more_cases(ctx, mult=1):
    rng = ctx.rng
    cases = [(evs, "wire-directed") for evs in gen_wire_directed(rng, ctx.budget(90, 600) * mult)]
    cases += [(gen_random_wire(rng), "wire-random") for _ in range(ctx.budget(150, 4000) * mult)]
    cases += [(list(evs), "many-subscriptions") for evs in FIXED_MANY]
    cases += [(gen_many(rng, i), "many-subscriptions") for i in range(ctx.budget(60, 1200) * mult)]
    return cases


def db_cases(ctx, mult=1):
    rng = ctx.rng
    cases = [(evs, "database-directed") for evs in gen_db_directed(rng, ctx.budget(150, 364) * mult)]
    cases += [(gen_db_random(rng), "database-random") for _ in range(ctx.budget(150, 3000) * mult)]
    return cases


def run(ctx: Ctx, driver: Driver):
    base, overlap = cases_for(ctx), overlap_cases(ctx)   # (drawn in this order, before the later streams, so that a seed keeps its sample)
    run_cases(ctx, driver, base + db_cases(ctx))
    run_overlap(ctx, overlap, driver)
    for stream, (gen_cases, scenario_fn) in TRANSPORT_STREAMS.items():
        run_transport(ctx, gen_cases(ctx), stream, scenario_fn)
    transport_probes(ctx)
    # the record loop of the CoAP event path against its Lean model (theorems C12_coap_event_*)
    from harness.c12_coapevent import run_coapevent
    run_coapevent(ctx, driver)


def replay(ctx: Ctx, driver: Driver, case):
    n = len(ctx.violations)
    if case.get("stream") == "coap-event-loop":
        from harness.c12_coapevent import replay_coapevent, real
        items, st = real(bytes.fromhex(case["payload"]))
        replay_coapevent(ctx, driver, case)
        return [f"handed over {[(i, v.hex()) for i, v in items]} ({st})"]
    if case.get("stream") == "overlap":
        run_overlap(ctx, [(case["events"], "replay", case.get("seed", 0))])
    elif case.get("stream") in TRANSPORT_STREAMS:
        run_transport(ctx, [(case["events"], "replay", case.get("seed", 0))], case["stream"], TRANSPORT_STREAMS[case["stream"]][1])
    else:
        run_cases(ctx, driver, [(case["events"], "replay", case["seed"])] if "seed" in case else [(case["events"], "replay")])
    return [v["signature"] for v in ctx.violations[n:]]


def search(ctx: Ctx, driver: Driver, broken):
    rng = ctx.rng
    run_cases(ctx, driver, [(gen_random(rng), "search") for _ in range(ctx.budget(3000, 30000))])
    if not ctx.violations:
        run_cases(ctx, driver, more_cases(ctx, 4))
    if not ctx.violations:
        run_cases(ctx, driver, db_cases(ctx, 4))
    if not ctx.violations:
        run_overlap(ctx, overlap_cases(ctx, 4))
    for stream, (gen_cases, scenario_fn) in TRANSPORT_STREAMS.items():
        if not ctx.violations:
            run_transport(ctx, gen_cases(ctx, 4), stream, scenario_fn)
