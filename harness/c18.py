"""C18 - BLE broadcast notifications are accepted only if authentic and fresh."""
from __future__ import annotations

import itertools
import struct
from unittest.mock import MagicMock

from cryptography.hazmat.primitives.ciphers.aead import ChaCha20Poly1305

from harness.common import Ctx, Driver, compare_with_model, hx, load_corpus

ID = "C18"
RULE = ("histories of advertisements over {genuine last+1, last+k (k<100), last, last-k, beyond the window (+100, +150), wrong key, wrong advertising id (other accessory), single-bit "
        "corruptions of payload and 4-byte tag, inner counter != nonce counter, too-short payloads}, all characteristic formats and boundary values, start state numbers incl. 0 and near "
        "65535; EXHAUSTIVE to depth 4 (quick) / 5 (thorough) over a 9-symbol alphabet + random to length 50. non-trivial = distinct (start, history)")
TRUSTED = ["cryptography ChaCha20Poly1305 (full tag truncated to 4 bytes) as the accessory's sealing"]
ASSUMPTIONS = ["a 32-bit tag is forgeable with probability 2^-32 per candidate: outside the symbolic model",
               "bleak BLEDevice/AdvertisementData are duck-typed mocks; the fall-back poll (_process_disconnected_events) is replaced by a recorder",
               "an authentic notification naming an iid the cached database does not contain raises out of the callback: counted under C19 (callback must not raise), not exercised here"]
EXPLANATION = "Lean theorems C18_* over the candidate-window automaton with a symbolic partial-tag AEAD (accept => authentic+fresh, reject => unchanged, no replay over histories, value decoding); differential tie through BleController._device_detected"

KEY = bytes(range(32))
ADV = bytes.fromhex("aabbccddeeff")
OTHER = bytes.fromhex("aabbccddee00")


def seal(gsn, iid, value, inner=None, k=KEY, aid=ADV):
    pt = struct.pack("<HH", (gsn if inner is None else inner) & 0xFFFF, iid) + value.ljust(8, b"\0")
    ct = ChaCha20Poly1305(k).encrypt(struct.pack("<LQ", 0, gsn), pt, aid)
    return ct[:-16] + ct[-16:-12]


def adv(payload, aid=ADV):
    data = bytes([0x11, 0x36]) + aid + payload
    a = MagicMock()
    a.manufacturer_data = {76: data}
    a.rssi = -40
    d = MagicMock()
    d.name = "dev"
    d.address = "AA:BB:CC:DD:EE:FF"
    return d, a


FORMATS = {"bool": 10, "uint8": 11, "uint16": 12, "uint32": 13, "uint64": 14, "int": 15, "float": 16, "string": 17, "data": 18}


def setup(start, with_key=True):
    from aiohomekit.characteristic_cache import CharacteristicCacheMemory
    from aiohomekit.controller.ble.controller import BleController
    from aiohomekit.model import Accessories
    from aiohomekit.model.characteristics import CharacteristicsTypes
    from aiohomekit.model.services import ServicesTypes
    chars = [{"iid": iid, "type": CharacteristicsTypes.BRIGHTNESS, "perms": ["pr", "ev"], "format": fmt, "value": None} for fmt, iid in FORMATS.items()]
    accs = Accessories.from_list([{"aid": 1, "services": [{"iid": 1000, "type": ServicesTypes.LIGHTBULB, "characteristics": chars}]}])
    cache = CharacteristicCacheMemory()
    cache.async_create_or_update_map("AA:BB:CC:DD:EE:FF", 1, accs.serialize(), KEY.hex() if with_key else None, start)
    c = BleController(cache)
    pd = {"AccessoryPairingID": "AA:BB:CC:DD:EE:FF", "AccessoryAddress": "AA:BB:CC:DD:EE:FF", "Connection": "BLE", "iOSPairingId": "x", "iOSDeviceLTPK": "00" * 32}
    p = c.load_pairing("alias", pd)
    log = []
    p._process_disconnected_events = lambda: log.append("f")
    p.dispatcher_connect(lambda ev: log.append(ev))
    # the description (advertised state number) is what _async_notification starts from
    from aiohomekit.controller.ble.manufacturer_data import HomeKitAdvertisement
    p.description = HomeKitAdvertisement.from_cache("AA:BB:CC:DD:EE:FF", "aa:bb:cc:dd:ee:ff", 1, start)
    return c, p, log


def reference_value(fmt, raw):
    """independent reading of the sealed 8-byte field per HAP format (None = no claim)"""
    b = raw.ljust(8, b"\0")
    if fmt == "bool":
        return f"b:{str(b[0] != 0).lower()}"
    if fmt in ("uint8", "uint16", "uint32", "uint64"):
        n = {"uint8": 1, "uint16": 2, "uint32": 4, "uint64": 8}[fmt]
        return f"n:{int.from_bytes(b[:n], 'little')}"
    if fmt == "int":
        return f"n:{int.from_bytes(b[:4], 'little', signed=True)}"
    if fmt == "float":
        return "f:" + hx(b[:4])
    return None


def canon_value(fmt, v):
    if fmt == "bool":
        return f"b:{str(bool(v)).lower()}"
    if fmt in ("uint8", "uint16", "uint32", "uint64", "int"):
        return f"n:{v}"
    if fmt == "float":
        return "f:" + hx(struct.pack("f", v))
    if fmt == "string":
        return "s:" + hx(v.encode())
    return "h:" + (v if v else "-")


def run(ctx: Ctx, driver: Driver):
    rng = ctx.rng
    cases, outs, lines = [], [], []
    vcases, vouts, vlines = [], [], []
    fmt_of = {iid: f for f, iid in FORMATS.items()}

    def history(start, hist, with_key=True):
        """hist: list of symbolic advertisements: ('G', g, inner, iid, value) | ('K', g, iid) wrong key | ('O', g, iid) other adv id | ('B', g, iid, bit) bitflip | ('S', n) short payload |
        ('T', g, iid, k) genuine with the tag cut to k bytes"""
        c, p, log = setup(start, with_key)
        toks, model_toks = [], []
        out = []
        raised = None
        for h in hist:
            n0 = len(log)
            before = p.description.state_num
            if h[0] == "G":
                _, g, inner, iid, value = h
                d, a = adv(seal(g, iid, value, inner=inner))
                model_toks.append(f"G:1:{g}:{(inner if inner is not None else g) & 0xFFFF}:{iid}:{hx(value.ljust(8, bytes(1)))}")
            elif h[0] == "K":
                d, a = adv(seal(h[1], h[2], b"\x01", k=bytes(32)))
                model_toks.append("F:1")
            elif h[0] == "O":
                d, a = adv(seal(h[1], h[2], b"\x01", aid=OTHER), aid=OTHER)
                model_toks.append(f"G:2:{h[1]}:{h[1]}:{h[2]}:{hx(b'\x01'.ljust(8, bytes(1)))}")
            elif h[0] == "T":
                # a genuine, fresh sealing whose authentication tag was cut short (h[3] of its 4 bytes kept): unauthenticated
                d, a = adv(seal(h[1], h[2], b"\x07")[:12 + h[3]])
                model_toks.append("F:1")
            elif h[0] == "B":
                x = bytearray(seal(h[1], h[2], b"\x07"))
                x[h[3] // 8 % len(x)] ^= 1 << (h[3] % 8)
                d, a = adv(bytes(x))
                model_toks.append("F:1")
            else:
                d, a = adv(bytes(rng.randrange(256) for _ in range(h[1])))
                model_toks.append("S:1" if h[1] < 6 else "F:1")
            try:
                c._device_detected(d, a)
            except Exception as e:  # noqa: BLE001
                raised = type(e).__name__
                break
            new = log[n0:]
            after = p.description.state_num
            if new and isinstance(new[-1], dict):
                (key, val), = new[-1].items()
                out.append(f"d:{key[1]}:{model_toks[-1].split(':')[5] if model_toks[-1].startswith('G') else '?'}")
                # oracle: authentic, fresh, right id, state advanced to it
                ok = h[0] == "G" and before < h[1] < before + 100 and ((h[2] if h[2] is not None else h[1]) & 0xFFFF) == h[1] and key == (1, h[3]) and after == h[1]
                if not ok:
                    ctx.violation("notify/accepted", f"start={start}: advertisement {h[:4]} was delivered (state {before}->{after}, key {key})", {"stream": "notify", "start": start, "hist": [list(map(str, x)) for x in hist]})
                if h[0] != "G":
                    continue
                # value decoding: what listeners get is the value the accessory sealed, read with the characteristic's own width
                fmt = fmt_of[h[3]]
                want_v = reference_value(fmt, h[4])
                if want_v is not None and canon_value(fmt, val["value"]) != want_v:
                    ctx.violation("notify/wrong-value", f"format {fmt}: accessory sealed value bytes {hx(h[4])} (= {want_v}), listeners got {canon_value(fmt, val['value'])}", {"stream": "value", "fmt": fmt, "value": hx(h[4])})
                vcases.append({"stream": "value", "fmt": fmt, "value": hx(h[4])})
                vouts.append(canon_value(fmt, val["value"]))
                vlines.append(f"bc.val {fmt if fmt != 'data' else 'other'} {hx(h[4].ljust(8, bytes(1)))}")
            else:
                silent_ok = with_key and (h[0] == "G" and h[3] >= 900 and before < h[1] < before + 100 and ((h[2] if h[2] is not None else h[1]) & 0xFFFF) == h[1])
                if silent_ok:
                    # authentic and fresh, but for an instance id the cached database does not know: the state number must advance
                    # (otherwise an older genuine notification stays acceptable), nobody is called
                    if after != h[1]:
                        ctx.violation("notify/unknown-iid-not-accepted", f"start={start}: authentic fresh advertisement {h[:4]} for an unknown instance id left the state number at {after} - older notifications stay acceptable", {"stream": "notify", "start": start, "hist": [list(map(str, x)) for x in hist]})
                    out.append("q")
                    continue
                if after != before:
                    ctx.violation("notify/state-changed", f"start={start}: rejected advertisement {h[:4]} changed the state number {before}->{after}", {"stream": "notify", "start": start, "hist": [list(map(str, x)) for x in hist]})
                if h[0] == "O":
                    out.append("n")
                elif h[0] == "S" and h[1] < 6 and with_key:
                    out.append("x")  # ignored or fall-back depending on a tag-prefix coincidence; nothing delivered either way
                elif new == ["f"]:
                    out.append("f")
                else:
                    out.append("i")
        ctx.evaluations += 1
        case = {"stream": "notify", "start": start, "key": with_key, "hist": [list(map(str, x)) for x in hist]}
        if raised:
            ctx.violation("notify/" + raised, f"_device_detected raised {raised}", case)
            return
        cases.append(case)
        outs.append(" ".join(out) + f" | {p.description.state_num}")
        lines.append(f"bc.run 1 {start} {1 if with_key else 0} " + " ".join(model_toks))

    def alphabet(cur):
        """symbols relative to a notional current state (the history tracks it itself)"""
        return ["next", "plus5", "same", "older", "plus100", "plus99", "wrongkey", "otherid", "innerbad"]

    def realise(start, syms):
        cur = start
        hist = []
        for s in syms:
            iid = 11
            if s == "next":
                hist.append(("G", cur + 1, None, iid, bytes([cur % 251 + 1])))
                cur += 1
            elif s == "plus5":
                hist.append(("G", cur + 5, None, iid, b"\x05"))
                cur += 5
            elif s == "plus99":
                hist.append(("G", cur + 99, None, iid, b"\x63"))
                cur += 99
            elif s == "same":
                hist.append(("G", cur, None, iid, b"\x09"))
            elif s == "older":
                if cur >= 2:
                    hist.append(("G", cur - 2, None, iid, b"\x08"))
                else:
                    hist.append(("G", cur, None, iid, b"\x08"))
            elif s == "plus100":
                hist.append(("G", cur + 100, None, iid, b"\x64"))
            elif s == "wrongkey":
                hist.append(("K", cur + 1, iid))
            elif s == "otherid":
                hist.append(("O", cur + 1, iid))
            elif s == "innerbad":
                hist.append(("G", cur + 1, cur + 2, iid, b"\x0b"))
        return hist

    depth = ctx.budget(3, 4)
    syms = alphabet(0)
    for start in (10, 65400) if not ctx.thorough() else (0, 10, 65400):
        for d in range(1, (depth if start == 10 else depth - 1) + 1):
            for seq in itertools.product(syms, repeat=d):
                history(start, realise(start, seq))
                ctx.nontrivial.add((start, seq))
    # near the top of the 16-bit range: genuine advertisements with small absolute state numbers (recorded long ago) must stay stale
    iid0 = FORMATS[sorted(FORMATS)[0]]
    for start in (65436, 65500, 65534, 65535):
        for old_g in (1, 2, 3, 50, 63, 64, 99, 100, 129):
            history(start, [("G", min(start + 1, 65535), None, iid0, b"\x01"), ("G", old_g, None, iid0, b"\x02"), ("G", old_g, None, iid0, b"\x02")])
            ctx.nontrivial.add((start, "ancient", old_g))
    # a genuine fresh sealing whose tag was cut short authenticates nothing - then the complete one is accepted
    for start in (10, 65400):
        for keep in (0, 1, 2, 3):
            history(start, [("T", start + 1, iid0, keep), ("G", start + 1, None, iid0, b"\x07"), ("T", start + 2, iid0, keep)])
            ctx.nontrivial.add((start, "tag-cut", keep))
    # an authentic notification for an unknown instance id must still advance the state: an older genuine one is then stale
    for start in (10, 65400):
        for k in (2, 5, 50):
            history(start, [("G", start + k, None, 999, b"\x01"), ("G", start + 1, None, iid0, b"\x07"), ("G", start + k, None, 999, b"\x01"), ("G", start + k + 1, None, iid0, b"\x09")])
            ctx.nontrivial.add((start, "unknown-iid", k))
    # replays of accepted notifications after arbitrary other traffic, bit flips, short payloads, all formats/values
    for _ in range(ctx.budget(60, 3000)):
        start = rng.choice([0, 1, 7, 100, 65000, 65530, 65535, 70000])
        cur = start
        hist = []
        accepted = []
        for _ in range(rng.randrange(3, 50 if ctx.thorough() else 20)):
            r = rng.random()
            fmt = rng.choice(list(FORMATS))
            iid = FORMATS[fmt]
            value = rng.choice([b"\x00", b"\x01", b"\xff", b"\xff\xff", b"\x00\x01", bytes(8), b"\xff" * 8, bytes(rng.randrange(256) for _ in range(rng.randrange(1, 9))), b"abc", b"\x00\x00\x80\x3f"])
            if fmt == "string":
                value = rng.choice([b"abc", b"", b"on"])
            if rng.random() < 0.12:
                iid = rng.choice([999, 950])   # authentic, but not in the cached accessory database
            if fmt == "int" and rng.random() < 0.5:
                value = struct.pack("<i", rng.choice([-1, -2, -128, -2 ** 31, -rng.randrange(1, 2 ** 31)]))
            if r < 0.35:
                k = rng.choice([1, 1, 1, 2, 5, 50, 99])
                g = cur + k
                if g > 65535:
                    hist.append(("G", g, None, iid, value))  # the 16-bit inner counter cannot match a nonce counter above 65535: ignored
                    continue
                hist.append(("G", g, None, iid, value))
                accepted.append(hist[-1])
                cur = g
            elif r < 0.5 and accepted:
                hist.append(rng.choice(accepted))  # replay
            elif r < 0.6:
                hist.append(("B", cur + 1, iid, rng.randrange(16 * 8)))
            elif r < 0.65:
                hist.append(("S", rng.randrange(0, 12)))
            elif r < 0.72:
                hist.append(("G", cur + rng.choice([100, 101, 150, 1000]), None, iid, value))
            elif r < 0.75:
                # an ancient genuine advertisement (small absolute state number), e.g. recorded long ago and replayed now
                hist.append(("G", rng.randrange(1, 130), None, iid, value))
            elif r < 0.85:
                hist.append(("G", max(cur - rng.randrange(0, 5), 0), None, iid, value))
            elif r < 0.92:
                hist.append(("K", cur + 1, iid))
            else:
                hist.append(("O", cur + 1, iid))
        history(start, hist, with_key=rng.random() > 0.05)
        ctx.nontrivial.add((start, tuple(map(str, hist))))
    ctx.sample(cases[40])
    ctx.sample({k: (v if len(str(v)) < 500 else str(v)[:500] + "...") for k, v in cases[-1].items()})
    compare_with_model(ctx, "notify", cases, outs, lines, driver)
    compare_with_model(ctx, "value", vcases, vouts, vlines, driver)


def replay(ctx, driver, c):
    return None
